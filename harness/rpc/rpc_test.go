// Package rpc drives the gRPC front end of bb-storage (ByteStream, ContentAddressableStorage, ActionCache
// servers and the matching clients) in-process and over an in-memory connection (C14).
package rpc

import (
	"bytes"
	"context"
	"crypto/sha256"
	"encoding/hex"
	"encoding/json"
	"fmt"
	"io"
	"log"
	"math/rand"
	"net"
	"os"
	"path/filepath"
	"sort"
	"sync"
	"testing"
	"time"

	remoteexecution "github.com/bazelbuild/remote-apis/build/bazel/remote/execution/v2"
	"github.com/buildbarn/bb-storage/pkg/blobstore/buffer"
	"github.com/buildbarn/bb-storage/pkg/blobstore/grpcclients"
	"github.com/buildbarn/bb-storage/pkg/blobstore/grpcservers"
	"github.com/buildbarn/bb-storage/pkg/blobstore/slicing"
	"github.com/buildbarn/bb-storage/pkg/capabilities"
	"github.com/buildbarn/bb-storage/pkg/digest"
	bb_zstd "github.com/buildbarn/bb-storage/pkg/zstd"
	"github.com/google/uuid"
	"github.com/klauspost/compress/zstd"
	"google.golang.org/genproto/googleapis/bytestream"
	"google.golang.org/grpc"
	"google.golang.org/grpc/codes"
	"google.golang.org/grpc/credentials/insecure"
	"google.golang.org/grpc/metadata"
	"google.golang.org/grpc/status"
	"google.golang.org/grpc/test/bufconn"
	"google.golang.org/protobuf/proto"

	"verif/harness/hx"
)

// ---- a model back end that stores bytes ---------------------------------------------------------

type entry struct {
	data []byte
}

type backend struct {
	mu      sync.Mutex
	objs    map[string]*entry // key: hash-size
	failing map[string]bool   // per key ("*": everything)
	corrupt map[string]bool
	ac      map[string]*remoteexecution.ActionResult
}

func newBackend() *backend {
	return &backend{objs: map[string]*entry{}, failing: map[string]bool{}, corrupt: map[string]bool{}, ac: map[string]*remoteexecution.ActionResult{}}
}

func key(d digest.Digest) string { return d.GetKey(digest.KeyWithoutInstance) }

func (b *backend) fails(k string) bool { return b.failing["*"] || b.failing[k] }

func (b *backend) Get(ctx context.Context, d digest.Digest) buffer.Buffer {
	b.mu.Lock()
	defer b.mu.Unlock()
	k := key(d)
	if b.fails(k) {
		return buffer.NewBufferFromError(status.Error(codes.Unavailable, "injected failure"))
	}
	e, ok := b.objs[k]
	if !ok {
		return buffer.NewBufferFromError(status.Error(codes.NotFound, "Object not found"))
	}
	data := e.data
	if b.corrupt[k] && len(data) > 0 {
		data = append([]byte{}, data...)
		data[len(data)-1] ^= 0x5a
	}
	return buffer.NewCASBufferFromByteSlice(d, data, buffer.BackendProvided(buffer.Irreparable(d)))
}

func (b *backend) GetFromComposite(ctx context.Context, p, c digest.Digest, s slicing.BlobSlicer) buffer.Buffer {
	panic("unused")
}

func (b *backend) Put(ctx context.Context, d digest.Digest, buf buffer.Buffer) error {
	k := key(d)
	b.mu.Lock()
	f := b.fails(k)
	b.mu.Unlock()
	if f {
		buf.Discard()
		return status.Error(codes.Unavailable, "injected failure")
	}
	data, err := buf.ToByteSlice(1 << 24)
	if err != nil {
		return err
	}
	b.mu.Lock()
	b.objs[k] = &entry{data: data}
	b.mu.Unlock()
	return nil
}

func (b *backend) FindMissing(ctx context.Context, digests digest.Set) (digest.Set, error) {
	b.mu.Lock()
	defer b.mu.Unlock()
	if b.fails("fm") {
		return digest.EmptySet, status.Error(codes.Unavailable, "injected failure")
	}
	sb := digest.NewSetBuilder(0)
	for _, d := range digests.Items() {
		if _, ok := b.objs[key(d)]; !ok {
			sb.Add(d)
		}
	}
	return sb.Build(), nil
}

func (b *backend) GetCapabilities(ctx context.Context, i digest.InstanceName) (*remoteexecution.ServerCapabilities, error) {
	return &remoteexecution.ServerCapabilities{CacheCapabilities: &remoteexecution.CacheCapabilities{DigestFunctions: digest.SupportedDigestFunctions}}, nil
}

func (b *backend) has(d digest.Digest) (bool, []byte) {
	b.mu.Lock()
	defer b.mu.Unlock()
	e, ok := b.objs[key(d)]
	if !ok {
		return false, nil
	}
	return true, e.data
}

func digestOf(data []byte) digest.Digest {
	sum := sha256.Sum256(data)
	return digest.MustNewDigest("inst", remoteexecution.DigestFunction_SHA256, hex.EncodeToString(sum[:]), int64(len(data)))
}

func zstdCompress(data []byte) []byte {
	var out bytes.Buffer
	w, _ := zstd.NewWriter(&out)
	w.Write(data)
	w.Close()
	return out.Bytes()
}

func zstdDecodeBestEffort(data []byte) []byte {
	r, err := zstd.NewReader(bytes.NewReader(data))
	if err != nil {
		return nil
	}
	defer r.Close()
	var out bytes.Buffer
	io.Copy(&out, r)
	return out.Bytes()
}

func pool() bb_zstd.Pool { return bb_zstd.NewUnboundedPool(nil, nil) }

// ---- in-process streams -------------------------------------------------------------------------

type fakeStream struct{ ctx context.Context }

func (fakeStream) SetHeader(metadata.MD) error  { return nil }
func (fakeStream) SendHeader(metadata.MD) error { return nil }
func (fakeStream) SetTrailer(metadata.MD)       {}
func (s fakeStream) Context() context.Context   { return s.ctx }
func (fakeStream) SendMsg(m any) error          { return nil }
func (fakeStream) RecvMsg(m any) error          { return nil }

type writeStream struct {
	fakeStream
	msgs     []*bytestream.WriteRequest
	pos      int
	end      string
	response *bytestream.WriteResponse
	recvs    int
}

func (s *writeStream) Recv() (*bytestream.WriteRequest, error) {
	s.recvs++
	if s.pos < len(s.msgs) {
		m := s.msgs[s.pos]
		s.pos++
		return m, nil
	}
	if s.end == "abort" {
		return nil, status.Error(codes.Canceled, "context canceled")
	}
	return nil, io.EOF
}

func (s *writeStream) SendAndClose(r *bytestream.WriteResponse) error {
	s.response = r
	return nil
}

type readStream struct {
	fakeStream
	data [][]byte
}

func (s *readStream) Send(r *bytestream.ReadResponse) error {
	s.data = append(s.data, append([]byte{}, r.Data...))
	return nil
}

// ---- part "write" ---------------------------------------------------------------------------------

type wMsg struct {
	Off  int   `json:"off"`
	Data []int `json:"data"`
	Fin  bool  `json:"fin"`
}
type wCase struct {
	Comp    string `json:"comp"`
	N       int    `json:"n"`
	Payload string `json:"payload"`
	Msgs    []wMsg `json:"msgs"`
	Ended   string `json:"ended"`
}

// units of a payload: for identity one byte each, for zstd the compressed stream cut into n pieces
func units(comp string, n int, payload string, rng *rand.Rand) (object []byte, unit func(int) []byte) {
	if comp == "identity" {
		object = make([]byte, n)
		for i := range object {
			object[i] = byte(i + 1)
		}
		return object, func(u int) []byte {
			if u < 1 || u > n {
				return []byte{0x63}
			}
			if payload == "other" {
				return []byte{byte(100 + u)}
			}
			return []byte{byte(u)}
		}
	}
	object = make([]byte, 40+rng.Intn(200))
	for i := range object {
		object[i] = byte(rng.Intn(7)) // compressible
	}
	src := object
	if payload == "other" {
		src = append([]byte{}, object...)
		src[len(src)/2] ^= 0xff
	}
	stream := zstdCompress(src)
	cuts := make([]int, n+1)
	for i := 0; i <= n; i++ {
		cuts[i] = i * len(stream) / n
	}
	return object, func(u int) []byte {
		if u < 1 || u > n {
			return []byte{0xde, 0xad, 0x63}
		}
		return stream[cuts[u-1]:cuts[u]]
	}
}

func buildRequests(cs *wCase, d digest.Digest, unit func(int) []byte) []*bytestream.WriteRequest {
	compressor := remoteexecution.Compressor_IDENTITY
	if cs.Comp == "zstd" {
		compressor = remoteexecution.Compressor_ZSTD
	}
	name := d.GetByteStreamWritePath(uuid.Must(uuid.NewRandom()), compressor)
	reqs := []*bytestream.WriteRequest{}
	expUnits, expBytes := 0, int64(0)
	for i, m := range cs.Msgs {
		var data []byte
		for _, u := range m.Data {
			data = append(data, unit(u)...)
		}
		off := expBytes + int64(m.Off-expUnits)
		if m.Off == 0 {
			off = 0
		}
		r := &bytestream.WriteRequest{WriteOffset: off, Data: data, FinishWrite: m.Fin}
		if i == 0 {
			r.ResourceName = name
		}
		reqs = append(reqs, r)
		expUnits += len(m.Data)
		expBytes += int64(len(data))
	}
	return reqs
}

func runWrite(id string, cs *wCase, rng *rand.Rand, wire *wireEnv) map[string]any {
	object, unit := units(cs.Comp, cs.N, cs.Payload, rng)
	d := digestOf(object)
	o := map[string]any{"ev": "Write", "id": id, "case": cs, "panic": "", "via": "inprocess", "objectSize": len(object)}
	be := newBackend()
	var err error
	if wire != nil {
		o["via"] = "wire"
		wire.swap(be)
		ctx, cancel := context.WithTimeout(context.Background(), 20*time.Second)
		defer cancel()
		var stream bytestream.ByteStream_WriteClient
		stream, err = bytestream.NewByteStreamClient(wire.conn).Write(ctx)
		if err == nil {
			for _, r := range buildRequests(cs, d, unit) {
				if stream.Send(r) != nil {
					break
				}
			}
			_, err = stream.CloseAndRecv()
		}
	} else {
		srv := grpcservers.NewByteStreamServer(be, 1<<16, pool())
		ws := &writeStream{fakeStream: fakeStream{ctx: context.Background()}, msgs: buildRequests(cs, d, unit), end: cs.Ended}
		func() {
			defer func() {
				if r := recover(); r != nil {
					o["panic"] = fmt.Sprint(r)
				}
			}()
			err = srv.Write(ws)
		}()
		o["recvs"] = ws.recvs
	}
	o["res"], o["code"] = "OK", status.Code(err).String()
	if err != nil {
		o["res"], o["msg"] = "ERR", err.Error()
	}
	// does what was sent, concatenated (and decompressed with the harness's own decoder), equal the object?
	var sent []byte
	for _, r := range buildRequests(cs, d, unit) {
		sent = append(sent, r.Data...)
	}
	if cs.Comp == "zstd" {
		// what a decoder yields from the stream (whether or not it then complains about what follows the data)
		sent = zstdDecodeBestEffort(sent)
	}
	o["payloadMatches"] = bytes.Equal(sent, object)
	stored, data := be.has(d)
	o["stored"], o["storedIntact"] = stored, !stored || bytes.Equal(data, object)
	o["otherObjects"] = len(be.objs) - map[bool]int{true: 1, false: 0}[stored]
	return o
}

func TestWrite(t *testing.T) {
	out := os.Getenv("RPC_OUT")
	w := hx.NewWriter(filepath.Join(out, "write.ndjson"))
	defer w.Close()
	seed := int64(hx.EnvInt("VERIF_SEED", 1))
	wire := newWireEnv(false)
	defer wire.close()
	n, onWire := 0, 0
	hx.ReadLines(os.Getenv("RPC_CASES"), func(line []byte) {
		var cs wCase
		if err := json.Unmarshal(line, &cs); err != nil {
			t.Fatal(err)
		}
		if cs.Comp == "zstd" && cs.N == 0 {
			return
		}
		rng := rand.New(rand.NewSource(seed*7 + int64(n)))
		w.Emit(runWrite(fmt.Sprint(n), &cs, rng, nil))
		// the same message sequence over a real gRPC connection (only orderly endings: a cancellation races)
		if cs.Ended == "close" && n%9 == 0 {
			rng = rand.New(rand.NewSource(seed*7 + int64(n)))
			w.Emit(runWrite(fmt.Sprintf("%d/wire", n), &cs, rng, wire))
			onWire++
		}
		n++
	})
	b, _ := json.Marshal(map[string]any{"cases": n, "on_wire": onWire})
	os.WriteFile(filepath.Join(out, "write_summary.json"), b, 0o644)
}

// ---- part "read" ----------------------------------------------------------------------------------

type rCase struct {
	Comp    string `json:"comp"`
	N       int    `json:"n"`
	K       int    `json:"k"`
	Limit   int    `json:"limit"`
	Backend string `json:"backend"`
}

func runRead(id string, cs *rCase, chunk int) map[string]any {
	object := make([]byte, cs.N)
	for i := range object {
		object[i] = byte(i + 1)
	}
	d := digestOf(object)
	be := newBackend()
	switch cs.Backend {
	case "ok":
		be.objs[key(d)] = &entry{data: object}
	case "corrupt":
		be.objs[key(d)] = &entry{data: object}
		be.corrupt[key(d)] = true
	case "failing":
		be.objs[key(d)] = &entry{data: object}
		be.failing["*"] = true
	}
	compressor := remoteexecution.Compressor_IDENTITY
	if cs.Comp == "zstd" {
		compressor = remoteexecution.Compressor_ZSTD
	}
	o := map[string]any{"ev": "Read", "id": id, "case": cs, "panic": "", "chunk": chunk}
	srv := grpcservers.NewByteStreamServer(be, chunk, pool())
	rs := &readStream{fakeStream: fakeStream{ctx: context.Background()}}
	var err error
	func() {
		defer func() {
			if r := recover(); r != nil {
				o["panic"] = fmt.Sprint(r)
			}
		}()
		err = srv.Read(&bytestream.ReadRequest{ResourceName: d.GetByteStreamReadPath(compressor), ReadOffset: int64(cs.K), ReadLimit: int64(cs.Limit)}, rs)
	}()
	o["res"], o["code"] = "OK", status.Code(err).String()
	if err != nil {
		o["res"], o["msg"] = "ERR", err.Error()
	}
	raw := bytes.Join(rs.data, nil)
	if cs.Comp == "zstd" && len(raw) > 0 {
		raw = zstdDecodeBestEffort(raw)
	}
	data := []int{}
	for _, b := range raw {
		if int(b) >= 1 && int(b) <= cs.N {
			data = append(data, int(b))
		} else {
			data = append(data, 0)
		}
	}
	o["data"], o["messages"] = data, len(rs.data)
	return o
}

func TestRead(t *testing.T) {
	out := os.Getenv("RPC_OUT")
	w := hx.NewWriter(filepath.Join(out, "read.ndjson"))
	defer w.Close()
	n := 0
	hx.ReadLines(os.Getenv("RPC_CASES"), func(line []byte) {
		var cs rCase
		if err := json.Unmarshal(line, &cs); err != nil {
			t.Fatal(err)
		}
		for _, chunk := range []int{1, 2, 100} {
			w.Emit(runRead(fmt.Sprintf("%d/%d", n, chunk), &cs, chunk))
		}
		n++
	})
	b, _ := json.Marshal(map[string]any{"cases": n})
	os.WriteFile(filepath.Join(out, "read_summary.json"), b, 0o644)
}

// ---- part "batch" ---------------------------------------------------------------------------------

type bEntry struct {
	Obj  string `json:"obj"`
	Kind string `json:"kind"`
}
type bCase struct {
	Op            string   `json:"op"`
	Entries       []bEntry `json:"entries"`
	LimitExceeded bool     `json:"limitExceeded"`
	Before        []bool   `json:"before"`
}

func content(obj string) []byte { return []byte("contents of object " + obj) }

func runBatch(id string, cs *bCase) map[string]any {
	be := newBackend()
	o := map[string]any{"ev": "Batch", "id": id, "case": cs, "panic": ""}
	total := int64(0)
	for i, e := range cs.Entries {
		d := digestOf(content(e.Obj))
		total += d.GetSizeBytes()
		if cs.Before[i] {
			be.objs[key(d)] = &entry{data: content(e.Obj)}
		}
		switch e.Kind {
		case "backendfail":
			be.failing[key(d)] = true
		case "corrupt":
			be.corrupt[key(d)] = true
		}
	}
	limit := int64(1 << 20)
	if cs.LimitExceeded {
		limit = total - 1
	}
	srv := grpcservers.NewContentAddressableStorageServer(be, limit)
	statuses, datas := []string{}, []string{}
	var err error
	func() {
		defer func() {
			if r := recover(); r != nil {
				o["panic"] = fmt.Sprint(r)
			}
		}()
		if cs.Op == "update" {
			req := &remoteexecution.BatchUpdateBlobsRequest{InstanceName: "inst", DigestFunction: remoteexecution.DigestFunction_SHA256}
			for _, e := range cs.Entries {
				d := digestOf(content(e.Obj))
				r := &remoteexecution.BatchUpdateBlobsRequest_Request{Digest: d.GetProto(), Data: content(e.Obj)}
				switch e.Kind {
				case "mismatch":
					r.Data = append([]byte{}, r.Data...)
					r.Data[3] ^= 1
				case "baddigest":
					r.Digest = &remoteexecution.Digest{Hash: d.GetHashString()[:10], SizeBytes: d.GetSizeBytes()}
				}
				req.Requests = append(req.Requests, r)
			}
			var resp *remoteexecution.BatchUpdateBlobsResponse
			resp, err = srv.BatchUpdateBlobs(context.Background(), req)
			if err == nil {
				for _, r := range resp.Responses {
					statuses = append(statuses, codes.Code(r.Status.GetCode()).String())
					datas = append(datas, "")
				}
			}
		} else {
			req := &remoteexecution.BatchReadBlobsRequest{InstanceName: "inst", DigestFunction: remoteexecution.DigestFunction_SHA256}
			for _, e := range cs.Entries {
				req.Digests = append(req.Digests, digestOf(content(e.Obj)).GetProto())
			}
			var resp *remoteexecution.BatchReadBlobsResponse
			resp, err = srv.BatchReadBlobs(context.Background(), req)
			if err == nil {
				for i, r := range resp.Responses {
					statuses = append(statuses, codes.Code(r.Status.GetCode()).String())
					switch {
					case len(r.Data) == 0:
						datas = append(datas, "")
					case i < len(cs.Entries) && bytes.Equal(r.Data, content(cs.Entries[i].Obj)):
						datas = append(datas, "match")
					default:
						datas = append(datas, "foreign")
					}
				}
			}
		}
	}()
	o["res"], o["code"] = "OK", status.Code(err).String()
	if err != nil {
		o["res"], o["msg"] = "ERR", err.Error()
	}
	stored, intact := []bool{}, []bool{}
	for _, e := range cs.Entries {
		ok, data := be.has(digestOf(content(e.Obj)))
		stored = append(stored, ok)
		intact = append(intact, !ok || bytes.Equal(data, content(e.Obj)))
	}
	o["statuses"], o["datas"], o["stored"], o["storedIntact"], o["before"] = statuses, datas, stored, intact, cs.Before
	return o
}

func TestBatch(t *testing.T) {
	out := os.Getenv("RPC_OUT")
	w := hx.NewWriter(filepath.Join(out, "batch.ndjson"))
	defer w.Close()
	n := 0
	hx.ReadLines(os.Getenv("RPC_CASES"), func(line []byte) {
		var cs bCase
		if err := json.Unmarshal(line, &cs); err != nil {
			t.Fatal(err)
		}
		w.Emit(runBatch(fmt.Sprint(n), &cs))
		n++
	})
	b, _ := json.Marshal(map[string]any{"cases": n})
	os.WriteFile(filepath.Join(out, "batch_summary.json"), b, 0o644)
}

// ---- client and server back to back -------------------------------------------------------------

type swapBackend struct {
	mu sync.Mutex
	be *backend
}

func (s *swapBackend) cur() *backend {
	s.mu.Lock()
	defer s.mu.Unlock()
	return s.be
}
func (s *swapBackend) Get(ctx context.Context, d digest.Digest) buffer.Buffer {
	return s.cur().Get(ctx, d)
}
func (s *swapBackend) GetFromComposite(ctx context.Context, p, c digest.Digest, sl slicing.BlobSlicer) buffer.Buffer {
	panic("unused")
}
func (s *swapBackend) Put(ctx context.Context, d digest.Digest, b buffer.Buffer) error {
	return s.cur().Put(ctx, d, b)
}
func (s *swapBackend) FindMissing(ctx context.Context, ds digest.Set) (digest.Set, error) {
	return s.cur().FindMissing(ctx, ds)
}
func (s *swapBackend) GetCapabilities(ctx context.Context, i digest.InstanceName) (*remoteexecution.ServerCapabilities, error) {
	return s.cur().GetCapabilities(ctx, i)
}

type acBackend struct {
	swapBackend
}

func (a *acBackend) Get(ctx context.Context, d digest.Digest) buffer.Buffer {
	be := a.cur()
	be.mu.Lock()
	defer be.mu.Unlock()
	if be.fails("*") {
		return buffer.NewBufferFromError(status.Error(codes.Unavailable, "injected failure"))
	}
	ar, ok := be.ac[key(d)]
	if !ok {
		return buffer.NewBufferFromError(status.Error(codes.NotFound, "Object not found"))
	}
	return buffer.NewProtoBufferFromProto(ar, buffer.BackendProvided(buffer.Irreparable(d)))
}

func (a *acBackend) Put(ctx context.Context, d digest.Digest, b buffer.Buffer) error {
	be := a.cur()
	be.mu.Lock()
	f := be.fails("*")
	be.mu.Unlock()
	if f {
		b.Discard()
		return status.Error(codes.Unavailable, "injected failure")
	}
	m, err := b.ToProto(&remoteexecution.ActionResult{}, 1<<20)
	if err != nil {
		return err
	}
	be.mu.Lock()
	be.ac[key(d)] = m.(*remoteexecution.ActionResult)
	be.mu.Unlock()
	return nil
}

type wireEnv struct {
	srv  *grpc.Server
	conn *grpc.ClientConn
	sb   *swapBackend
	ab   *acBackend
}

func (w *wireEnv) swap(be *backend) {
	w.sb.mu.Lock()
	w.sb.be = be
	w.sb.mu.Unlock()
	w.ab.mu.Lock()
	w.ab.be = be
	w.ab.mu.Unlock()
}

func (w *wireEnv) close() {
	w.conn.Close()
	w.srv.Stop()
}

func newWireEnv(zstdSupported bool) *wireEnv {
	lis := bufconn.Listen(1 << 20)
	w := &wireEnv{srv: grpc.NewServer(), sb: &swapBackend{be: newBackend()}, ab: &acBackend{}}
	w.ab.be = w.sb.be
	bytestream.RegisterByteStreamServer(w.srv, grpcservers.NewByteStreamServer(w.sb, 64, pool()))
	remoteexecution.RegisterContentAddressableStorageServer(w.srv, grpcservers.NewContentAddressableStorageServer(w.sb, 1<<20))
	remoteexecution.RegisterActionCacheServer(w.srv, grpcservers.NewActionCacheServer(w.ab, 1<<20))
	caps := &remoteexecution.CacheCapabilities{DigestFunctions: digest.SupportedDigestFunctions}
	if zstdSupported {
		caps.SupportedCompressors = []remoteexecution.Compressor_Value{remoteexecution.Compressor_ZSTD}
	}
	remoteexecution.RegisterCapabilitiesServer(w.srv, capabilities.NewServer(capabilities.NewStaticProvider(&remoteexecution.ServerCapabilities{CacheCapabilities: caps})))
	go w.srv.Serve(lis)
	conn, err := grpc.NewClient("passthrough:///bufnet", grpc.WithContextDialer(func(ctx context.Context, s string) (net.Conn, error) { return lis.DialContext(ctx) }),
		grpc.WithTransportCredentials(insecure.NewCredentials()))
	if err != nil {
		panic(err)
	}
	w.conn = conn
	return w
}

type tStep struct {
	Op      string   `json:"op"`
	Objs    []string `json:"objs"`
	B0      []string `json:"b0"`
	Failing bool     `json:"failing"`
	Res     string   `json:"res"`
	Code    string   `json:"code"`
	B1      []string `json:"b1"`
	Missing []string `json:"missing"`
}

func b2bContent(obj string, variant int) []byte {
	switch {
	case obj == "q" && variant%3 == 1:
		return []byte{} // the empty object
	case obj == "q":
		b := make([]byte, 1000+variant)
		for i := range b {
			b[i] = byte((i * 7 / 5) % 11)
		}
		return b
	}
	return []byte("contents of object " + obj)
}

var firstDrifts []any

func runB2B(id string, variant int, steps []tStep, envs map[string]*wireEnv, w *hx.Writer) (drift, compared int) {
	mode := []string{"identity", "zstd"}[variant%2]
	env := envs[mode]
	be := newBackend()
	env.swap(be)
	var zp bb_zstd.Pool
	if mode == "zstd" {
		zp = pool()
	}
	chunk := []int{1, 7, 64, 1 << 16}[variant%4]
	client := grpcclients.NewCASBlobAccess(env.conn, uuid.NewRandom, chunk, zp)
	names := []string{"p", "q"}
	dg := func(n string) digest.Digest {
		d := digestOf(b2bContent(n, variant))
		if n == "q" && variant%3 == 2 {
			// the two objects live under different instance names: one FindMissing call of the client then
			// spans several FindMissingBlobs RPCs whose answers have to be merged (seeded change C14-b)
			return digest.MustNewDigest("inst/other", remoteexecution.DigestFunction_SHA256, d.GetHashString(), d.GetSizeBytes())
		}
		return d
	}
	if len(steps) > 0 {
		for _, n := range steps[0].B0 {
			be.objs[key(dg(n))] = &entry{data: b2bContent(n, variant)}
		}
	}
	contents := func() []string {
		l := []string{}
		for _, n := range names {
			if ok, _ := be.has(dg(n)); ok {
				l = append(l, n)
			}
		}
		return l
	}
	for i, st := range steps {
		be.mu.Lock()
		be.failing = map[string]bool{}
		if st.Failing {
			be.failing["*"] = true
			be.failing["fm"] = true
		}
		be.mu.Unlock()
		ctx, cancel := context.WithTimeout(context.Background(), 20*time.Second)
		o := map[string]any{"ev": "B2B", "id": fmt.Sprintf("%s/%d", id, i), "op": st.Op, "objs": st.Objs, "failing": st.Failing, "b0": contents(),
			"missing": []string{}, "panic": "", "mode": mode, "chunk": chunk, "dataOK": true}
		var err error
		func() {
			defer func() {
				if r := recover(); r != nil {
					o["panic"] = fmt.Sprint(r)
				}
			}()
			switch st.Op {
			case "Get":
				var data []byte
				data, err = client.Get(ctx, dg(st.Objs[0])).ToByteSlice(1 << 20)
				if err == nil {
					o["res"] = "Data"
					o["dataOK"] = bytes.Equal(data, b2bContent(st.Objs[0], variant))
				}
			case "Put":
				data := b2bContent(st.Objs[0], variant)
				err = client.Put(ctx, dg(st.Objs[0]), buffer.NewCASBufferFromByteSlice(dg(st.Objs[0]), data, buffer.UserProvided))
				if err == nil {
					o["res"] = "OK"
				}
			case "PutBad":
				// bytes that do not match the digest; handed over as already validated, so that it is the server that must refuse
				data := append([]byte{}, b2bContent(st.Objs[0], variant)...)
				if len(data) == 0 {
					data = []byte{1}
				} else {
					data[len(data)/2] ^= 0x20
				}
				if variant%5 == 0 && len(data) > 1 {
					data = data[:len(data)-1]
				}
				err = client.Put(ctx, dg(st.Objs[0]), buffer.NewValidatedBufferFromByteSlice(data))
				if err == nil {
					o["res"] = "OK"
				}
			case "Fm":
				sb := digest.NewSetBuilder(0)
				for _, n := range st.Objs {
					sb.Add(dg(n))
				}
				var missing digest.Set
				missing, err = client.FindMissing(ctx, sb.Build())
				if err == nil {
					o["res"] = "OK"
					ms := []string{}
					for _, n := range names {
						for _, d := range missing.Items() {
							if d == dg(n) {
								ms = append(ms, n)
							}
						}
					}
					o["missing"] = ms
				}
			}
		}()
		cancel()
		o["code"] = status.Code(err).String()
		if err != nil {
			o["res"], o["msg"] = "ERR", err.Error()
		}
		o["b1"] = contents()
		w.Emit(o)
		if st.Res != "" {
			compared++
			ms, _ := o["missing"].([]string)
			sort.Strings(st.Missing)
			sort.Strings(st.B1)
			if o["res"] != st.Res || (st.Res == "ERR" && st.Code == "NotFound" && o["code"] != "NotFound") || fmt.Sprint(ms) != fmt.Sprint(st.Missing) || fmt.Sprint(contents()) != fmt.Sprint(st.B1) {
				drift++
				if len(firstDrifts) < 5 {
					firstDrifts = append(firstDrifts, map[string]any{"id": o["id"], "expected": st, "got": o})
				}
			}
		}
	}
	return
}

func TestB2B(t *testing.T) {
	log.SetOutput(io.Discard) // data integrity reports of the client
	out := os.Getenv("RPC_OUT")
	w := hx.NewWriter(filepath.Join(out, "b2b.ndjson"))
	defer w.Close()
	envs := map[string]*wireEnv{"identity": newWireEnv(false), "zstd": newWireEnv(true)}
	defer envs["identity"].close()
	defer envs["zstd"].close()
	n, drift, compared := 0, 0, 0
	hx.ReadLines(os.Getenv("RPC_SCRIPTS"), func(line []byte) {
		var sc struct {
			ID    string  `json:"id"`
			Steps []tStep `json:"steps"`
		}
		if err := json.Unmarshal(line, &sc); err != nil {
			t.Fatal(err)
		}
		for v := 0; v < 2; v++ {
			d, c := runB2B(fmt.Sprintf("%s/v%d", sc.ID, n*2+v), n*2+v, sc.Steps, envs, w)
			drift += d
			compared += c
		}
		n++
	})
	// Action Cache: a result written through the client is read back unchanged; absent entries are NOT_FOUND
	env := envs["identity"]
	be := newBackend()
	env.swap(be)
	ac := grpcclients.NewACBlobAccess(env.conn, 1<<20)
	for i := 0; i < 20; i++ {
		ar := &remoteexecution.ActionResult{ExitCode: int32(i), StdoutRaw: bytes.Repeat([]byte{byte(i)}, i*50)}
		d := digestOf([]byte(fmt.Sprintf("action %d", i)))
		o := map[string]any{"ev": "B2B", "id": fmt.Sprintf("ac/%d", i), "op": "Get", "objs": []string{"a"}, "failing": false, "b0": []string{}, "b1": []string{}, "missing": []string{}, "panic": "", "dataOK": true, "mode": "ac"}
		be.mu.Lock()
		be.failing = map[string]bool{}
		be.mu.Unlock()
		if i%3 != 0 {
			err := ac.Put(context.Background(), d, buffer.NewProtoBufferFromProto(ar, buffer.UserProvided))
			if err != nil {
				t.Fatal(err)
			}
			o["b0"], o["b1"] = []string{"a"}, []string{"a"}
		}
		be.mu.Lock()
		be.failing = map[string]bool{}
		if i%5 == 4 {
			be.failing["*"] = true
			o["failing"] = true
		}
		be.mu.Unlock()
		m, err := ac.Get(context.Background(), d).ToProto(&remoteexecution.ActionResult{}, 1<<20)
		o["code"] = status.Code(err).String()
		if err != nil {
			o["res"], o["msg"] = "ERR", err.Error()
		} else {
			o["res"], o["dataOK"] = "Data", proto.Equal(m, ar)
		}
		w.Emit(o)
	}
	b, _ := json.Marshal(map[string]any{"scripts": n, "compared": compared, "drift": drift, "first_drifts": firstDrifts})
	os.WriteFile(filepath.Join(out, "b2b_summary.json"), b, 0o644)
}
