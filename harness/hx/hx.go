// Package hx holds small helpers shared by the conformance drivers: ndjson
// trace I/O, reading the repository's Prometheus collectors, env parameters.
package hx

import (
	"bufio"
	"encoding/json"
	"os"
	"strconv"
	"sync"

	"github.com/prometheus/client_golang/prometheus"
	"github.com/prometheus/client_golang/prometheus/collectors"
	dto "github.com/prometheus/client_model/go"
)

// Env returns the environment variable or a default.
func Env(name, def string) string {
	if v := os.Getenv(name); v != "" {
		return v
	}
	return def
}

func EnvInt(name string, def int) int {
	if v := os.Getenv(name); v != "" {
		if n, err := strconv.Atoi(v); err == nil {
			return n
		}
	}
	return def
}

// Writer writes one JSON object per line.
type Writer struct {
	mu sync.Mutex
	f  *os.File
	w  *bufio.Writer
	N  int
}

func NewWriter(path string) *Writer {
	f, err := os.Create(path)
	if err != nil {
		panic(err)
	}
	return &Writer{f: f, w: bufio.NewWriterSize(f, 1<<20)}
}

func (w *Writer) Emit(v any) {
	b, err := json.Marshal(v)
	if err != nil {
		panic(err)
	}
	w.mu.Lock()
	w.w.Write(b)
	w.w.WriteByte('\n')
	w.N++
	w.mu.Unlock()
}

func (w *Writer) Close() {
	w.w.Flush()
	w.f.Close()
}

// ReadLines calls fn for every line of an ndjson file.
func ReadLines(path string, fn func(line []byte)) {
	f, err := os.Open(path)
	if err != nil {
		panic(err)
	}
	defer f.Close()
	sc := bufio.NewScanner(f)
	sc.Buffer(make([]byte, 1<<20), 1<<28)
	for sc.Scan() {
		if len(sc.Bytes()) > 0 {
			fn(sc.Bytes())
		}
	}
	if err := sc.Err(); err != nil {
		panic(err)
	}
}

var dropOnce sync.Once

// DropRuntimeCollectors removes the Go/process collectors from the default
// registry so that Gather() only visits the repository's own collectors.
func DropRuntimeCollectors() {
	dropOnce.Do(func() {
		prometheus.Unregister(collectors.NewGoCollector())
		prometheus.Unregister(collectors.NewProcessCollector(collectors.ProcessCollectorOpts{}))
	})
}

// Metric returns the value of a counter / the sample count of a histogram
// registered in the default registry, selected by name and labels; 0 if absent.
func Metric(name string, labels map[string]string) float64 {
	mfs, err := prometheus.DefaultGatherer.Gather()
	if err != nil {
		panic(err)
	}
	for _, mf := range mfs {
		if mf.GetName() != name {
			continue
		}
		for _, m := range mf.GetMetric() {
			if matches(m, labels) {
				switch {
				case m.Counter != nil:
					return m.Counter.GetValue()
				case m.Histogram != nil:
					return float64(m.Histogram.GetSampleCount())
				case m.Gauge != nil:
					return m.Gauge.GetValue()
				}
			}
		}
	}
	return 0
}

// Snapshot returns name{labels} -> value for all metrics whose name has the prefix.
func Snapshot(prefix string) map[string]float64 {
	out := map[string]float64{}
	mfs, err := prometheus.DefaultGatherer.Gather()
	if err != nil {
		panic(err)
	}
	for _, mf := range mfs {
		n := mf.GetName()
		if len(n) < len(prefix) || n[:len(prefix)] != prefix {
			continue
		}
		for _, m := range mf.GetMetric() {
			k := n + "{"
			for _, lp := range m.GetLabel() {
				k += lp.GetName() + "=" + lp.GetValue() + ","
			}
			k += "}"
			switch {
			case m.Counter != nil:
				out[k] = m.Counter.GetValue()
			case m.Histogram != nil:
				out[k] = float64(m.Histogram.GetSampleCount())
			case m.Gauge != nil:
				out[k] = m.Gauge.GetValue()
			}
		}
	}
	return out
}

func matches(m *dto.Metric, labels map[string]string) bool {
	n := 0
	for _, lp := range m.GetLabel() {
		if v, ok := labels[lp.GetName()]; ok {
			if v != lp.GetValue() {
				return false
			}
			n++
		}
	}
	return n == len(labels)
}
