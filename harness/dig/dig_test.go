// Package dig executes the cases of Digests.tla on pkg/digest (C20).
package dig

import (
	"bytes"
	"encoding/json"
	"fmt"
	"math/rand"
	"os"
	"path/filepath"
	"sort"
	"strconv"
	"strings"
	"testing"

	remoteexecution "github.com/bazelbuild/remote-apis/build/bazel/remote/execution/v2"
	"github.com/buildbarn/bb-storage/pkg/digest"
	"github.com/google/uuid"

	"verif/harness/hx"
)

type tok struct {
	K string `json:"k"`
	V string `json:"v"`
}

func hexOfLen(n int, salt byte) string {
	const digits = "0123456789abcdef"
	b := make([]byte, n)
	for i := range b {
		b[i] = digits[(i*7+int(salt)+i/3)%16]
	}
	b[0], b[1] = 'a'+salt%6, 'f' // never all-numeric
	return string(b)
}

var hashStr = map[string]string{
	"h32": hexOfLen(32, 1), "h40": hexOfLen(40, 2), "h64": hexOfLen(64, 3), "h96": hexOfLen(96, 4), "h128": hexOfLen(128, 5),
	"h10": hexOfLen(10, 0), "H64": strings.ToUpper(hexOfLen(64, 3)), "x64": "g" + hexOfLen(63, 3),
}
var sizeStr = map[string]string{"s0": "0", "s123": "123", "smax": "9223372036854775807", "sneg": "-1", "sabc": "abc", "sexp": "1e3",
	"sover": "9223372036854775808", "splus": "+5", "szero7": "007"}

const theUUID = "36ebab65-3c4f-4faf-818b-2eabb4cd1b02"

func (t tok) String() string {
	switch t.K {
	case "hash":
		return hashStr[t.V]
	case "size":
		return sizeStr[t.V]
	case "uuid":
		return theUUID
	case "empty":
		return ""
	}
	return t.V
}

func hashName(s string) string {
	for k, v := range hashStr {
		if v == s {
			return k
		}
	}
	return "?" + s
}

func guard(o map[string]any, f func()) {
	defer func() {
		if r := recover(); r != nil {
			o["panic"] = fmt.Sprint(r)
		}
	}()
	f()
}

func comps(d digest.Digest) []string {
	c := d.GetInstanceName().GetComponents()
	if c == nil {
		c = []string{}
	}
	return c
}

func runPath(cs json.RawMessage) map[string]any {
	var c struct {
		Kind string `json:"kind"`
		Toks []tok  `json:"toks"`
	}
	if err := json.Unmarshal(cs, &c); err != nil {
		panic(err)
	}
	parts := []string{}
	for _, t := range c.Toks {
		parts = append(parts, t.String())
	}
	path := strings.Join(parts, "/")
	o := map[string]any{"ev": "Path", "case": cs, "panic": "", "path": path, "accepted": false, "inst": []string{}, "fn": "", "hash": "", "size": "", "comp": ""}
	guard(o, func() {
		var d digest.Digest
		var comp remoteexecution.Compressor_Value
		var err error
		if c.Kind == "read" {
			d, comp, err = digest.NewDigestFromByteStreamReadPath(path)
		} else {
			d, comp, err = digest.NewDigestFromByteStreamWritePath(path)
		}
		if err != nil {
			o["msg"] = err.Error()
			return
		}
		o["accepted"] = true
		// report instance name components by the name of the token they came from
		inst := []string{}
		for _, comp := range comps(d) {
			name := "?" + comp
			for _, t := range c.Toks {
				if t.String() == comp {
					name = t.V
				}
			}
			inst = append(inst, name)
		}
		o["inst"], o["fn"], o["hash"] = inst, d.GetDigestFunction().GetEnumValue().String(), hashName(d.GetHashString())
		o["size"], o["comp"] = strconv.FormatInt(d.GetSizeBytes(), 10), strings.ToLower(comp.String())
	})
	return o
}

func runInstance(cs json.RawMessage) map[string]any {
	var c struct {
		Comps []string `json:"comps"`
		Lead  bool     `json:"lead"`
		Trail bool     `json:"trail"`
		Dbl   bool     `json:"dbl"`
	}
	json.Unmarshal(cs, &c)
	s := ""
	for i, p := range c.Comps {
		if i == 1 && c.Dbl {
			s += "/"
		}
		if i > 0 {
			s += "/"
		}
		s += p
	}
	if c.Lead {
		s = "/" + s
	}
	if c.Trail {
		s += "/"
	}
	o := map[string]any{"ev": "Instance", "case": cs, "panic": "", "string": s, "accepted": false, "comps": []string{}}
	guard(o, func() {
		in, err := digest.NewInstanceName(s)
		if err != nil {
			o["msg"] = err.Error()
			return
		}
		o["accepted"] = true
		cc := in.GetComponents()
		if cc == nil {
			cc = []string{}
		}
		o["comps"] = cc
		if in.String() != s {
			o["panic"] = "String() does not return the name"
		}
	})
	return o
}

func mustInstance(s string) digest.InstanceName {
	in, err := digest.NewInstanceName(s)
	if err != nil {
		panic(err)
	}
	return in
}

func fnEnum(name string) remoteexecution.DigestFunction_Value {
	return remoteexecution.DigestFunction_Value(remoteexecution.DigestFunction_Value_value[name])
}

func runNewDigest(cs json.RawMessage) map[string]any {
	var c struct {
		Fn   string `json:"fn"`
		Hash string `json:"hash"`
		Size int64  `json:"size"`
	}
	json.Unmarshal(cs, &c)
	o := map[string]any{"ev": "NewDigest", "case": cs, "panic": "", "accepted": false}
	guard(o, func() {
		f, err := mustInstance("a/b").GetDigestFunction(fnEnum(c.Fn), len(hashStr[c.Hash]))
		if err != nil {
			o["msg"] = err.Error()
			return
		}
		d, err := f.NewDigestFromProto(&remoteexecution.Digest{Hash: hashStr[c.Hash], SizeBytes: c.Size})
		if err != nil {
			o["msg"] = err.Error()
			return
		}
		o["accepted"] = true
		if d.GetHashString() != hashStr[c.Hash] || d.GetSizeBytes() != c.Size || d.GetInstanceName().String() != "a/b" {
			o["panic"] = "accessors disagree with the constructor arguments"
		}
	})
	return o
}

type drec struct {
	Inst []string `json:"inst"`
	Fn   string   `json:"fn"`
	Hash string   `json:"hash"`
	Size int64    `json:"size"`
}

func fnLen(fn string) int {
	return map[string]int{"MD5": 32, "SHA1": 40, "SHA256": 64, "SHA384": 96, "SHA512": 128, "SHA256TREE": 64, "BLAKE3": 64, "GITSHA1": 40}[fn]
}

func (r drec) digest() digest.Digest {
	salt := byte(9)
	if r.Hash == "q" {
		salt = 11
	}
	return digest.MustNewDigest(strings.Join(r.Inst, "/"), fnEnum(r.Fn), hexOfLen(fnLen(r.Fn), salt), r.Size)
}

func back(d digest.Digest, err error) any {
	if err != nil {
		return map[string]string{"err": err.Error()}
	}
	fn := d.GetDigestFunction().GetEnumValue().String()
	h := "?"
	if d.GetHashString() == hexOfLen(fnLen(fn), 9) {
		h = "p"
	} else if d.GetHashString() == hexOfLen(fnLen(fn), 11) {
		h = "q"
	}
	return drec{Inst: comps(d), Fn: fn, Hash: h, Size: d.GetSizeBytes()}
}

func runRoundTrip(cs json.RawMessage) map[string]any {
	var r drec
	json.Unmarshal(cs, &r)
	o := map[string]any{"ev": "RoundTrip", "case": cs, "panic": ""}
	guard(o, func() {
		d := r.digest()
		o["proto"] = back(d.GetDigestFunction().NewDigestFromProto(d.GetProto()))
		o["compact"] = back(d.GetInstanceName().NewDigestFromCompactBinary(bytes.NewReader(d.GetCompactBinary())))
		for _, v := range []struct {
			key  string
			comp remoteexecution.Compressor_Value
		}{{"I", remoteexecution.Compressor_IDENTITY}, {"Z", remoteexecution.Compressor_ZSTD}} {
			d1, c1, err := digest.NewDigestFromByteStreamReadPath(d.GetByteStreamReadPath(v.comp))
			o["read"+v.key] = back(d1, err)
			d2, c2, err := digest.NewDigestFromByteStreamWritePath(d.GetByteStreamWritePath(uuid.MustParse(theUUID), v.comp))
			o["write"+v.key] = back(d2, err)
			o["comp"+v.key] = strings.ToLower(c1.String())
			if c1 != c2 {
				o["comp"+v.key] = "read and write paths disagree"
			}
		}
		anc := [][]string{}
		same := true
		for _, a := range d.GetDigestsWithParentInstanceNames() {
			anc = append(anc, comps(a))
			same = same && a.GetHashString() == d.GetHashString() && a.GetSizeBytes() == d.GetSizeBytes() && a.GetDigestFunction().GetEnumValue() == d.GetDigestFunction().GetEnumValue()
		}
		o["ancestors"], o["ancestorsSameObject"] = anc, same
	})
	return o
}

func runKeys(cs json.RawMessage) map[string]any {
	var c struct {
		A drec `json:"a"`
		B drec `json:"b"`
	}
	json.Unmarshal(cs, &c)
	o := map[string]any{"ev": "Keys", "case": cs, "panic": ""}
	guard(o, func() {
		a, b := c.A.digest(), c.B.digest()
		o["keyEq"] = a.GetKey(digest.KeyWithoutInstance) == b.GetKey(digest.KeyWithoutInstance)
		o["keyInstEq"] = a.GetKey(digest.KeyWithInstance) == b.GetKey(digest.KeyWithInstance)
		if (a == b) != (a.GetKey(digest.KeyWithInstance) == b.GetKey(digest.KeyWithInstance)) {
			o["panic"] = "== disagrees with the instance-aware key"
		}
	})
	return o
}

var universe = func() map[string]digest.Digest {
	const emptyHash = "e3b0c44298fc1c149afbf4c8996fb92427ae41e4649b934ca495991b7852b855"
	return map[string]digest.Digest{
		"d1": digest.MustNewDigest("", remoteexecution.DigestFunction_SHA256, hexOfLen(64, 9), 5),
		"d2": digest.MustNewDigest("a", remoteexecution.DigestFunction_SHA256, hexOfLen(64, 9), 5),
		"d3": digest.MustNewDigest("", remoteexecution.DigestFunction_SHA256, emptyHash, 0),
		"d4": digest.MustNewDigest("a", remoteexecution.DigestFunction_SHA256, emptyHash, 0),
		"d5": digest.MustNewDigest("b", remoteexecution.DigestFunction_SHA256, hexOfLen(64, 11), 7),
	}
}()

func nameOf(d digest.Digest) string {
	for n, u := range universe {
		if u == d {
			return n
		}
	}
	return "?" + d.String()
}

func namesOf(s digest.Set) []string {
	out := []string{}
	for _, d := range s.Items() {
		out = append(out, nameOf(d))
	}
	return out
}

func runSets(cs json.RawMessage, rng *rand.Rand) map[string]any {
	var c struct {
		Sets [][]string `json:"sets"`
		Adds []string   `json:"adds"`
	}
	json.Unmarshal(cs, &c)
	o := map[string]any{"ev": "Sets", "case": cs, "panic": ""}
	guard(o, func() {
		build := func(names []string) digest.Set {
			names = append([]string{}, names...)
			rng.Shuffle(len(names), func(a, b int) { names[a], names[b] = names[b], names[a] })
			sb := digest.NewSetBuilder(0)
			for _, n := range names {
				sb.Add(universe[n])
			}
			return sb.Build()
		}
		sets := []digest.Set{}
		for _, s := range c.Sets {
			sets = append(sets, build(s))
		}
		before := [][]string{}
		for _, s := range sets {
			before = append(before, namesOf(s))
		}
		o["union"] = namesOf(digest.GetUnion(sets))
		onlyA, both, onlyB := digest.GetDifferenceAndIntersection(sets[0], sets[1])
		o["onlyA"], o["both"], o["onlyB"] = namesOf(onlyA), namesOf(both), namesOf(onlyB)
		o["nonEmpty"] = namesOf(sets[0].RemoveEmptyBlob())
		part := [][]string{}
		for _, p := range sets[0].PartitionByInstanceName() {
			part = append(part, namesOf(p))
		}
		o["partition"] = part
		sb := digest.NewSetBuilder(0)
		for _, n := range c.Adds {
			sb.Add(universe[n])
		}
		o["built"] = namesOf(sb.Build())
		// use the results once more, then look at the operands again
		_ = digest.GetUnion([]digest.Set{onlyA, both, onlyB, sets[2]})
		intact := true
		for i, s := range sets {
			intact = intact && fmt.Sprint(namesOf(s)) == fmt.Sprint(before[i])
		}
		o["inputsIntact"] = intact
		all := []string{"d1", "d2", "d3", "d4", "d5"}
		sort.Slice(all, func(a, b int) bool { return universe[all[a]].String() < universe[all[b]].String() })
		rank := map[string]int{}
		for i, n := range all {
			rank[n] = i
		}
		o["rank"], o["instOf"], o["emptyOnes"] = rank, map[string]string{"d1": "", "d2": "a", "d3": "", "d4": "a", "d5": "b"}, []string{"d3", "d4"}
	})
	return o
}

func TestCases(t *testing.T) {
	out := os.Getenv("DIG_OUT")
	part := os.Getenv("DIG_PART")
	w := hx.NewWriter(filepath.Join(out, part+".ndjson"))
	defer w.Close()
	rng := rand.New(rand.NewSource(int64(hx.EnvInt("VERIF_SEED", 1))))
	n := 0
	hx.ReadLines(os.Getenv("DIG_CASES"), func(line []byte) {
		cs := json.RawMessage(append([]byte{}, line...))
		switch part {
		case "read", "write":
			w.Emit(runPath(cs))
		case "instance":
			w.Emit(runInstance(cs))
		case "newdigest":
			w.Emit(runNewDigest(cs))
		case "roundtrip":
			w.Emit(runRoundTrip(cs))
		case "keys":
			w.Emit(runKeys(cs))
		case "sets":
			w.Emit(runSets(cs, rng))
		}
		n++
	})
	b, _ := json.Marshal(map[string]any{"cases": n})
	os.WriteFile(filepath.Join(out, part+"_summary.json"), b, 0o644)
}

// TestFuzz feeds arbitrary strings to every parser: none may panic, and whatever is accepted must be stable under
// formatting and parsing again.
func TestFuzz(t *testing.T) {
	out := os.Getenv("DIG_OUT")
	w := hx.NewWriter(filepath.Join(out, "fuzz.ndjson"))
	defer w.Close()
	rng := rand.New(rand.NewSource(int64(hx.EnvInt("VERIF_SEED", 1))*977 + 1))
	runs := hx.EnvInt("DIG_RUNS", 20000)
	seeds := []string{}
	for _, fn := range []string{"MD5", "SHA1", "SHA256", "SHA384", "SHA512", "SHA256TREE", "BLAKE3", "GITSHA1"} {
		d := drec{Inst: []string{"a", "b"}, Fn: fn, Hash: "p", Size: 123}.digest()
		seeds = append(seeds, d.GetByteStreamReadPath(remoteexecution.Compressor_IDENTITY), d.GetByteStreamReadPath(remoteexecution.Compressor_ZSTD),
			d.GetByteStreamWritePath(uuid.MustParse(theUUID), remoteexecution.Compressor_IDENTITY), d.GetByteStreamWritePath(uuid.MustParse(theUUID), remoteexecution.Compressor_ZSTD)+"/some/file.txt")
	}
	frag := []string{"/", "//", "blobs", "uploads", "compressed-blobs", "zstd", "sha256tree", "blake3", "-1", "0", "123", "\x00", "\xff\xfe", "é", " ", "%2f", "..", ".", "9223372036854775808", "ABCDEF", "g"}
	mutate := func(s string) string {
		b := []byte(s)
		for k := 0; k < 1+rng.Intn(3); k++ {
			switch rng.Intn(5) {
			case 0:
				if len(b) > 0 {
					i := rng.Intn(len(b))
					b = append(b[:i], b[i+1+rng.Intn(min(4, len(b)-i)):]...)
				}
			case 1:
				i := rng.Intn(len(b) + 1)
				f := frag[rng.Intn(len(frag))]
				b = append(b[:i], append([]byte(f), b[i:]...)...)
			case 2:
				if len(b) > 0 {
					b[rng.Intn(len(b))] = byte(rng.Intn(256))
				}
			case 3:
				if len(b) > 0 {
					b = b[:rng.Intn(len(b))]
				}
			case 4:
				parts := strings.Split(string(b), "/")
				rng.Shuffle(len(parts), func(x, y int) { parts[x], parts[y] = parts[y], parts[x] })
				b = []byte(strings.Join(parts, "/"))
			}
		}
		return string(b)
	}
	accepted := 0
	for i := 0; i < runs; i++ {
		var s string
		if rng.Intn(10) == 0 {
			b := make([]byte, rng.Intn(40))
			rng.Read(b)
			s = string(b)
		} else {
			s = mutate(seeds[rng.Intn(len(seeds))])
		}
		o := map[string]any{"ev": "Fuzz", "panic": "", "accepted": false, "stable": true, "input": fmt.Sprintf("%q", s)}
		guard(o, func() {
			stable := true
			acc := false
			if d, c, err := digest.NewDigestFromByteStreamReadPath(s); err == nil {
				acc = true
				d2, c2, err2 := digest.NewDigestFromByteStreamReadPath(d.GetByteStreamReadPath(c))
				stable = stable && err2 == nil && d2 == d && c2 == c && d.GetSizeBytes() >= 0 && len(d.GetHashBytes())*2 == len(d.GetHashString())
			}
			if d, c, err := digest.NewDigestFromByteStreamWritePath(s); err == nil {
				acc = true
				d2, c2, err2 := digest.NewDigestFromByteStreamWritePath(d.GetByteStreamWritePath(uuid.MustParse(theUUID), c))
				stable = stable && err2 == nil && d2 == d && c2 == c
				_ = d.GetCompactBinary()
				_ = d.GetDigestsWithParentInstanceNames()
			}
			if in, err := digest.NewInstanceName(s); err == nil {
				acc = true
				in2, err2 := digest.NewInstanceNameFromComponents(in.GetComponents())
				stable = stable && err2 == nil && in2 == in
			}
			in := mustInstance("x")
			if _, err := in.NewDigestFromCompactBinary(bytes.NewReader([]byte(s))); err == nil {
				acc = true
			}
			for _, fn := range digest.SupportedDigestFunctions {
				if f, err := in.GetDigestFunction(fn, 0); err == nil {
					if d, err := f.NewDigestFromProto(&remoteexecution.Digest{Hash: s, SizeBytes: int64(rng.Intn(3)) - 1}); err == nil {
						acc = true
						stable = stable && d.GetHashString() == s
					}
				}
			}
			o["accepted"], o["stable"] = acc, stable
		})
		if o["accepted"].(bool) {
			accepted++
		}
		w.Emit(o)
	}
	b, _ := json.Marshal(map[string]any{"inputs": runs, "accepted_by_some_parser": accepted})
	os.WriteFile(filepath.Join(out, "fuzz_summary.json"), b, 0o644)
}
