// Package sched is the cooperative scheduler used to replay TLC behaviours on
// the real code.  Logical processes are real goroutines inside a
// testing/synctest bubble; they park at labelled gates.  The scheduler
// releases exactly one gate and then waits (synctest.Wait) until every other
// goroutine is durably blocked again, so exactly one process runs at a time
// and the interleaving is the one the script prescribes.
//
// In free-running mode (Coop == false) gates do not park; they only yield the
// processor a random number of times, so that the Go scheduler produces
// varying real interleavings.
package sched

import (
	"context"
	"math/rand"
	"runtime"
	"sort"
	"sync"
	"testing/synctest"
)

type procKey struct{}

// WithProc attaches a logical process name to a context.
func WithProc(ctx context.Context, p string) context.Context {
	return context.WithValue(ctx, procKey{}, p)
}

// Proc returns the logical process name stored in ctx ("" if none).
func Proc(ctx context.Context) string {
	if v, ok := ctx.Value(procKey{}).(string); ok {
		return v
	}
	return ""
}

type Sched struct {
	Coop bool

	mu     sync.Mutex
	parked map[string][]chan struct{}
	rng    *rand.Rand
	// Enabled, if non-nil, restricts which labels actually park (others pass).
	Enabled func(label string) bool
	opened  bool // after OpenAll every gate passes
}

func New(coop bool, seed int64) *Sched {
	return &Sched{Coop: coop, parked: map[string][]chan struct{}{}, rng: rand.New(rand.NewSource(seed))}
}

// Gate parks the calling goroutine under label until Release(label).
func (s *Sched) Gate(label string) {
	if !s.Coop {
		s.mu.Lock()
		n := s.rng.Intn(4)
		s.mu.Unlock()
		for i := 0; i < n; i++ {
			runtime.Gosched()
		}
		return
	}
	s.mu.Lock()
	if s.opened || (s.Enabled != nil && !s.Enabled(label)) {
		s.mu.Unlock()
		return
	}
	ch := make(chan struct{})
	s.parked[label] = append(s.parked[label], ch) // several goroutines may wait at one label (FIFO)
	s.mu.Unlock()
	<-ch
}

// Parked returns the sorted labels of all parked goroutines.
func (s *Sched) Parked() []string {
	s.mu.Lock()
	defer s.mu.Unlock()
	out := make([]string, 0, len(s.parked))
	for l := range s.parked {
		out = append(out, l)
	}
	sort.Strings(out)
	return out
}

func (s *Sched) IsParked(label string) bool {
	s.mu.Lock()
	defer s.mu.Unlock()
	_, ok := s.parked[label]
	return ok
}

// Release lets the goroutine parked under label continue and waits until the
// system is quiescent again.  It returns false if nothing is parked there.
func (s *Sched) Release(label string) bool {
	s.mu.Lock()
	q := s.parked[label]
	if len(q) == 0 {
		s.mu.Unlock()
		return false
	}
	ch := q[0]
	if len(q) == 1 {
		delete(s.parked, label)
	} else {
		s.parked[label] = q[1:]
	}
	s.mu.Unlock()
	close(ch)
	synctest.Wait()
	return true
}

// Settle waits until all goroutines of the bubble are durably blocked.
func (s *Sched) Settle() {
	if s.Coop {
		synctest.Wait()
	}
}

// OpenAll releases every parked goroutine and lets all future gates pass.
func (s *Sched) OpenAll() {
	s.mu.Lock()
	s.opened = true
	chs := s.parked
	s.parked = map[string][]chan struct{}{}
	s.mu.Unlock()
	for _, q := range chs {
		for _, ch := range q {
			close(ch)
		}
	}
	if s.Coop {
		synctest.Wait()
	}
}
