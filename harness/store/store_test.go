package store

import (
	"bytes"
	"context"
	"encoding/json"
	"errors"
	"fmt"
	"io"
	"math/rand"
	"os"
	"path/filepath"
	"sort"
	"strings"
	"sync"
	"testing"
	"testing/synctest"

	"github.com/buildbarn/bb-storage/pkg/blobstore/buffer"
	"github.com/buildbarn/bb-storage/pkg/blobstore/local"
	"github.com/buildbarn/bb-storage/pkg/digest"
	"google.golang.org/grpc/codes"
	"google.golang.org/grpc/status"

	"verif/harness/hx"
	"verif/harness/sched"
)

// KeyDef describes one model key: its content identity and size in bytes.
type KeyDef struct {
	Cid  int `json:"cid"`
	Size int `json:"size"`
}

type Step struct {
	Do    string   `json:"do"` // start | rel | corrupt
	P     string   `json:"p,omitempty"`
	Op    string   `json:"op,omitempty"` // Put | Get | Fm | Comp
	K     string   `json:"k,omitempty"`
	Ks    []string `json:"ks,omitempty"`
	Inst  string   `json:"inst,omitempty"`
	Bad   string   `json:"bad,omitempty"` // "" | content | short | error
	Child int      `json:"child,omitempty"`
	Hold  bool     `json:"hold,omitempty"`
	L     string   `json:"l,omitempty"`
}

type Script struct {
	ID    string            `json:"id"`
	Cfg   Config            `json:"cfg"`
	Keys  map[string]KeyDef `json:"keys"`
	Steps []Step            `json:"steps"`
	Gates []string          `json:"gates"` // yield points that park (others pass)
}

type world struct {
	st    *Store
	sc    *sched.Sched
	log   *Log
	keys  map[string]KeyDef
	known map[string]string // content bytes -> name
	wg    sync.WaitGroup
	srcs  []*GatedReader
}

func (w *world) content(k string) []byte {
	if strings.HasSuffix(k, "#0") || strings.HasSuffix(k, "#1") {
		parent := w.content(k[:len(k)-2])
		h := len(parent) / 2
		if k[len(k)-1] == '0' {
			return parent[:h]
		}
		return parent[h:]
	}
	kd := w.keys[k]
	return Content(kd.Cid, kd.Size)
}

func (w *world) classify(data []byte) string {
	if n, ok := w.known[string(data)]; ok {
		return n
	}
	return "MIX"
}

func codeOf(err error) string {
	if err == nil {
		return "OK"
	}
	return status.Code(err).String()
}

func newWorld(cfg Config, keys map[string]KeyDef, coop bool, seed int64, gates []string, tw *hx.Writer) *world {
	sc := sched.New(coop, seed)
	enabled := map[string]bool{}
	for _, g := range gates {
		enabled[g] = true
	}
	sc.Enabled = func(label string) bool {
		if strings.HasPrefix(label, "yield:") {
			parts := strings.SplitN(label, ":", 3)
			return enabled[parts[2]]
		}
		return true
	}
	log := &Log{W: tw}
	w := &world{sc: sc, log: log, keys: keys, known: map[string]string{}}
	w.st = New(cfg, log, sc)
	for k := range keys {
		w.known[string(w.content(k))] = k
		if keys[k].Size >= 2 {
			w.known[string(w.content(k+"#0"))] = k + "#0"
			w.known[string(w.content(k+"#1"))] = k + "#1"
		}
	}
	return w
}

var yieldMu sync.Mutex
var yieldWorld *world

func installYield(w *world) {
	yieldMu.Lock()
	yieldWorld = w
	yieldMu.Unlock()
	local.VerifYield = func(ctx context.Context, point string) {
		yieldMu.Lock()
		cw := yieldWorld
		yieldMu.Unlock()
		if cw != nil {
			cw.sc.Gate("yield:" + sched.Proc(ctx) + ":" + point)
		}
	}
}

// start launches the operation of a script step as a logical process.
func (w *world) start(s Step) {
	ctx := sched.WithProc(context.Background(), s.P)
	w.wg.Add(1)
	go func() {
		defer w.wg.Done()
		defer func() {
			if r := recover(); r != nil {
				w.log.Emit(map[string]any{"ev": "Panic", "p": s.P, "msg": fmt.Sprint(r)})
			}
		}()
		switch s.Op {
		case "Put":
			w.doPut(ctx, s)
		case "Get":
			w.doGet(ctx, s)
		case "Fm":
			w.doFm(ctx, s)
		case "Comp":
			w.doComp(ctx, s)
		default:
			panic("unknown op " + s.Op)
		}
	}()
}

func (w *world) doPut(ctx context.Context, s Step) {
	good := w.content(s.K)
	d := DigestOf(s.Inst, good)
	data := good
	var items []Item
	switch s.Bad {
	case "content":
		data = append([]byte(nil), good...)
		if len(data) > 0 {
			data[len(data)-1] ^= 0x55
		}
	case "short":
		if len(data) > 0 {
			data = data[:len(data)-1]
		}
	}
	if len(data) > 0 {
		h := (len(data) + 1) / 2
		items = append(items, Item{Data: append([]byte(nil), data[:h]...)})
		if h < len(data) {
			items = append(items, Item{Data: append([]byte(nil), data[h:]...)})
		}
	}
	if s.Bad == "error" {
		items = append(items, Item{Err: status.Error(codes.Aborted, "injected source error")})
	} else {
		items = append(items, Item{Err: io.EOF})
	}
	src := NewGatedReader(w.sc, "src:"+s.P, items)
	w.srcs = append(w.srcs, src)
	w.log.Emit(map[string]any{"ev": "PutStart", "p": s.P, "k": s.K, "inst": s.Inst, "valid": s.Bad == "", "size": len(good)})
	err := w.st.Access.Put(ctx, d, buffer.NewCASBufferFromReader(d, src, buffer.UserProvided))
	msg := ""
	if err != nil {
		msg = err.Error()
	}
	w.log.Emit(map[string]any{"ev": "PutEnd", "p": s.P, "k": s.K, "inst": s.Inst, "valid": s.Bad == "", "res": codeOf(err), "msg": msg, "srcClosed": int(src.Closed.Load())})
}

func (w *world) readResult(b buffer.Buffer) (string, string, string) {
	data, err := b.ToByteSlice(1 << 20)
	if err != nil {
		if status.Code(err) == codes.NotFound {
			return "NotFound", "", ""
		}
		return "Error", status.Code(err).String(), err.Error()
	}
	return "Data", w.classify(data), ""
}

func (w *world) doGet(ctx context.Context, s Step) {
	d := DigestOf(s.Inst, w.content(s.K))
	w.log.Emit(map[string]any{"ev": "GetStart", "p": s.P, "k": s.K, "inst": s.Inst})
	b := w.st.Access.Get(ctx, d)
	if s.Hold {
		w.sc.Gate("consume:" + s.P)
	}
	kind, what, msg := w.readResult(b)
	w.log.Emit(map[string]any{"ev": "GetEnd", "p": s.P, "k": s.K, "inst": s.Inst, "kind": kind, "what": what, "msg": msg})
}

func (w *world) doFm(ctx context.Context, s Step) {
	sb := digest.NewSetBuilder(0)
	byDigest := map[digest.Digest]string{}
	for _, k := range s.Ks {
		d := DigestOf(s.Inst, w.content(k))
		sb.Add(d)
		byDigest[d] = k
	}
	w.log.Emit(map[string]any{"ev": "FmStart", "p": s.P, "ks": s.Ks, "inst": s.Inst})
	missing, err := w.st.Access.FindMissing(ctx, sb.Build())
	names := []string{}
	for _, d := range missing.Items() {
		names = append(names, byDigest[d])
	}
	sort.Strings(names)
	msg := ""
	if err != nil {
		msg = err.Error()
	}
	w.log.Emit(map[string]any{"ev": "FmEnd", "p": s.P, "ks": s.Ks, "inst": s.Inst, "missing": names, "res": codeOf(err), "msg": msg})
}

func (w *world) doComp(ctx context.Context, s Step) {
	parent := DigestOf(s.Inst, w.content(s.K))
	childName := fmt.Sprintf("%s#%d", s.K, s.Child)
	child := DigestOf(s.Inst, w.content(childName))
	w.log.Emit(map[string]any{"ev": "CompStart", "p": s.P, "k": s.K, "child": s.Child, "inst": s.Inst})
	b := w.st.Access.GetFromComposite(ctx, parent, child, NewHalfSlicer(w.sc, "slice:"+s.P, s.Inst))
	kind, what, msg := w.readResult(b)
	w.log.Emit(map[string]any{"ev": "CompEnd", "p": s.P, "k": s.K, "child": s.Child, "inst": s.Inst, "kind": kind, "what": what, "want": childName, "msg": msg})
}

// corrupt flips one byte of the newest stored copy of key k on the data device.
func (w *world) corrupt(k string) bool {
	if w.st.Data == nil {
		return false
	}
	img := w.st.Data.Image()
	c := w.content(k)
	if len(c) == 0 {
		return false
	}
	idx := bytes.LastIndex(img, c)
	if idx < 0 {
		return false
	}
	w.st.Data.Corrupt(int64(idx))
	w.log.Emit(map[string]any{"ev": "Corrupt", "k": k, "off": idx, "blk": 0})
	return true
}

type runStats struct {
	Steps      int
	Infeasible int
	Panics     int
}

func (w *world) finish() {
	w.sc.OpenAll()
	w.wg.Wait()
	closedOnce := true
	for _, s := range w.srcs {
		if s.Closed.Load() != 1 {
			closedOnce = false
		}
	}
	alloc := hx.Metric("buildbarn_blobstore_block_device_backed_block_allocator_allocations_total", map[string]string{"storage_type": w.st.Label})
	rel := hx.Metric("buildbarn_blobstore_block_device_backed_block_allocator_releases_total", map[string]string{"storage_type": w.st.Label})
	w.log.Emit(map[string]any{"ev": "Quiesce", "openReaders": int(w.st.OpenReaders), "srcClosedOnce": closedOnce,
		"devAllocs": int(alloc), "devReleases": int(rel), "dev": w.st.Data != nil, "totalBlocks": w.st.Cfg.Old + w.st.Cfg.Cur + w.st.Cfg.New + w.st.Cfg.Spare})
}

func runScript(t *testing.T, sc *Script, tw *hx.Writer) runStats {
	var rs runStats
	synctest.Test(t, func(t *testing.T) {
		tw.Emit(map[string]any{"ev": "Reset", "id": sc.ID, "cfg": sc.Cfg, "keys": keyNames(sc.Keys)})
		w := newWorld(sc.Cfg, sc.Keys, true, 1, sc.Gates, tw)
		installYield(w)
		for _, s := range sc.Steps {
			rs.Steps++
			switch s.Do {
			case "start":
				w.start(s)
				w.sc.Settle()
			case "rel":
				if !w.sc.Release(s.L) {
					rs.Infeasible++
				}
			case "corrupt":
				if !w.corrupt(s.K) {
					rs.Infeasible++
				}
			default:
				t.Fatalf("unknown step %q", s.Do)
			}
		}
		w.finish()
		installYield(nil)
	})
	return rs
}

func keyNames(keys map[string]KeyDef) []string {
	out := []string{}
	for k := range keys {
		out = append(out, k)
	}
	sort.Strings(out)
	return out
}

// TestScripts replays TLC-generated (or hand-written) scripts under the
// cooperative scheduler and writes the recorded traces.
func TestScripts(t *testing.T) {
	hx.DropRuntimeCollectors()
	out := os.Getenv("STORE_OUT")
	tw := hx.NewWriter(filepath.Join(out, "traces.ndjson"))
	defer tw.Close()
	total := runStats{}
	n := 0
	hx.ReadLines(os.Getenv("STORE_SCRIPTS"), func(line []byte) {
		var sc Script
		if err := json.Unmarshal(line, &sc); err != nil {
			t.Fatal(err)
		}
		rs := runScript(t, &sc, tw)
		total.Steps += rs.Steps
		total.Infeasible += rs.Infeasible
		n++
	})
	b, _ := json.Marshal(map[string]int{"scripts": n, "steps": total.Steps, "infeasible": total.Infeasible})
	os.WriteFile(filepath.Join(out, "summary.json"), b, 0o644)
}

var _ = errors.New
var _ = rand.New
