package store

import (
	"bytes"
	"context"
	"encoding/json"
	"errors"
	"fmt"
	remoteexecution "github.com/bazelbuild/remote-apis/build/bazel/remote/execution/v2"
	"io"
	"math/rand"
	"os"
	"path/filepath"
	"sort"
	"strings"
	"sync"
	"testing"
	"testing/synctest"

	"github.com/buildbarn/bb-storage/pkg/blobstore/buffer"
	"github.com/buildbarn/bb-storage/pkg/blobstore/local"
	"github.com/buildbarn/bb-storage/pkg/digest"
	"google.golang.org/grpc/codes"
	"google.golang.org/grpc/status"

	"verif/harness/hx"
	"verif/harness/sched"
)

// KeyDef describes one model key: its content identity and size in bytes.
type KeyDef struct {
	Cid  int `json:"cid"`
	Size int `json:"size"`
}

type Step struct {
	Do     string   `json:"do"` // start | rel | corrupt
	P      string   `json:"p,omitempty"`
	Op     string   `json:"op,omitempty"` // Put | Get | Fm | Comp
	K      string   `json:"k,omitempty"`
	Ks     []string `json:"ks,omitempty"`
	Inst   string   `json:"inst,omitempty"` // instance name, components separated by "/"
	Bad    string   `json:"bad,omitempty"`  // "" | content | short | error
	Child  int      `json:"child,omitempty"`
	Hold   bool     `json:"hold,omitempty"`
	L      string   `json:"l,omitempty"`
	N      int      `json:"n,omitempty"` // release the gate n times (default 1)
	Exp    []Exp    `json:"exp,omitempty"`
	HasExp bool     `json:"hasExp,omitempty"`
}

// Exp is a completion the design specification expects in a step.
type Exp struct {
	P    string `json:"p"`
	Op   string `json:"op"`
	K    string `json:"k"`
	Res  string `json:"res"`
	What any    `json:"what"`
}

type Script struct {
	ID    string            `json:"id"`
	Cfg   Config            `json:"cfg"`
	Keys  map[string]KeyDef `json:"keys"`
	Steps []Step            `json:"steps"`
	Gates []string          `json:"gates"` // yield points that park (others pass)
}

type world struct {
	st     *Store
	sc     *sched.Sched
	log    *Log
	keys   map[string]KeyDef
	known  map[string]string // content bytes -> name
	wg     sync.WaitGroup
	srcs   []*GatedReader
	busyMu sync.Mutex
	busy   map[string]bool
}

func (w *world) content(k string) []byte {
	if strings.HasSuffix(k, "#0") || strings.HasSuffix(k, "#1") {
		parent := w.content(k[:len(k)-2])
		h := len(parent) / 2
		if k[len(k)-1] == '0' {
			return parent[:h]
		}
		return parent[h:]
	}
	kd := w.keys[k]
	if w.st != nil && w.st.Cfg.Factory == "ac" {
		return ContentAC(kd.Cid, kd.Size)
	}
	return Content(kd.Cid, kd.Size)
}

func (w *world) classify(data []byte) string {
	if n, ok := w.known[string(data)]; ok {
		return n
	}
	return "MIX"
}

func comps(inst string) []string {
	if inst == "" {
		return []string{}
	}
	return strings.Split(inst, "/")
}

func codeOf(err error) string {
	if err == nil {
		return "OK"
	}
	return status.Code(err).String()
}

func newWorld(cfg Config, keys map[string]KeyDef, coop bool, seed int64, gates []string, tw *hx.Writer) *world {
	sc := sched.New(coop, seed)
	enabled := map[string]bool{}
	for _, g := range gates {
		enabled[g] = true
	}
	sc.Enabled = func(label string) bool {
		if strings.HasPrefix(label, "yield:") {
			parts := strings.SplitN(label, ":", 3)
			return enabled[parts[2]]
		}
		return true
	}
	log := &Log{W: tw}
	w := &world{sc: sc, log: log, keys: keys, known: map[string]string{}, busy: map[string]bool{}}
	w.st = New(cfg, log, sc)
	for k := range keys {
		if prev, dup := w.known[string(w.content(k))]; dup {
			panic("ambiguous contents: " + prev + " and " + k)
		}
		w.known[string(w.content(k))] = k
		if keys[k].Size >= 2 && cfg.Factory != "ac" {
			w.known[string(w.content(k+"#0"))] = k + "#0"
			w.known[string(w.content(k+"#1"))] = k + "#1"
		}
	}
	return w
}

var yieldMu sync.Mutex
var yieldWorld *world

func installYield(w *world) {
	yieldMu.Lock()
	yieldWorld = w
	yieldMu.Unlock()
	local.VerifYield = func(ctx context.Context, point string) {
		yieldMu.Lock()
		cw := yieldWorld
		yieldMu.Unlock()
		if cw != nil {
			cw.sc.Gate("yield:" + sched.Proc(ctx) + ":" + point)
		}
	}
}

// start launches the operation of a script step as a logical process.
func (w *world) start(s Step) bool {
	w.busyMu.Lock()
	if w.busy[s.P] {
		w.busyMu.Unlock()
		return false // the process has not finished its previous operation on this code base
	}
	w.busy[s.P] = true
	w.busyMu.Unlock()
	ctx := sched.WithProc(context.Background(), s.P)
	w.wg.Add(1)
	go func() {
		defer w.wg.Done()
		defer func() {
			w.busyMu.Lock()
			w.busy[s.P] = false
			w.busyMu.Unlock()
		}()
		defer func() {
			if r := recover(); r != nil {
				w.log.Emit(map[string]any{"ev": "Panic", "p": s.P, "msg": fmt.Sprint(r)})
			}
		}()
		switch s.Op {
		case "Put":
			w.doPut(ctx, s)
		case "Get":
			w.doGet(ctx, s)
		case "Fm":
			w.doFm(ctx, s)
		case "Comp":
			w.doComp(ctx, s)
		default:
			panic("unknown op " + s.Op)
		}
	}()
	return true
}

func (w *world) doPut(ctx context.Context, s Step) {
	good := w.content(s.K)
	d := DigestOf(s.Inst, good)
	data := good
	var items []Item
	if len(good) == 0 && (s.Bad == "content" || s.Bad == "short") {
		s.Bad = "" // the empty object cannot be truncated or altered
	}
	switch s.Bad {
	case "content":
		data = append([]byte(nil), good...)
		if len(data) > 0 {
			if w.st.Cfg.Factory == "ac" {
				data[0] |= 0x07 // the Action Cache has no checksum: "invalid" means it does not parse (wire type 7)
			} else {
				data[len(data)-1] ^= 0x55
			}
		}
	case "short":
		if len(data) > 0 {
			data = data[:len(data)-1]
		}
	}
	if len(data) > 0 {
		h := (len(data) + 1) / 2
		items = append(items, Item{Data: append([]byte(nil), data[:h]...)})
		if h < len(data) {
			items = append(items, Item{Data: append([]byte(nil), data[h:]...)})
		}
	}
	if s.Bad == "error" {
		items = append(items, Item{Err: status.Error(codes.Aborted, "injected source error")})
	} else {
		items = append(items, Item{Err: io.EOF})
	}
	src := NewGatedReader(w.sc, "src:"+s.P, items)
	w.srcs = append(w.srcs, src)
	w.log.Emit(map[string]any{"ev": "PutStart", "p": s.P, "k": s.K, "inst": comps(s.Inst), "valid": s.Bad == "", "size": len(good)})
	var b buffer.Buffer
	if w.st.Cfg.Factory == "ac" {
		b = buffer.NewProtoBufferFromReader(&remoteexecution.ActionResult{}, src, buffer.UserProvided)
	} else {
		b = buffer.NewCASBufferFromReader(d, src, buffer.UserProvided)
	}
	err := w.st.Access.Put(ctx, d, b)
	msg := ""
	if err != nil {
		msg = err.Error()
	}
	w.log.Emit(map[string]any{"ev": "PutEnd", "p": s.P, "k": s.K, "inst": comps(s.Inst), "valid": s.Bad == "", "res": codeOf(err), "msg": msg, "srcClosed": int(src.Closed.Load())})
}

func (w *world) readResult(b buffer.Buffer) (string, string, string) {
	data, err := b.ToByteSlice(1 << 20)
	if err != nil {
		if status.Code(err) == codes.NotFound {
			return "NotFound", "", ""
		}
		return "Error", status.Code(err).String(), err.Error()
	}
	what := w.classify(data)
	if what == "MIX" {
		return "Data", what, fmt.Sprintf("bytes=%x", data)
	}
	return "Data", what, ""
}

func (w *world) doGet(ctx context.Context, s Step) {
	d := DigestOf(s.Inst, w.content(s.K))
	w.log.Emit(map[string]any{"ev": "GetStart", "p": s.P, "k": s.K, "inst": comps(s.Inst)})
	b := w.st.Access.Get(ctx, d)
	if s.Hold {
		// Only a buffer that carries data is held open; an error (NotFound,
		// failed refresh allocation) is known to the caller at once.
		if _, err := b.GetSizeBytes(); err == nil {
			w.sc.Gate("consume:" + s.P)
		}
	}
	kind, what, msg := w.readResult(b)
	w.log.Emit(map[string]any{"ev": "GetEnd", "p": s.P, "k": s.K, "inst": comps(s.Inst), "kind": kind, "what": what, "msg": msg})
}

func (w *world) doFm(ctx context.Context, s Step) {
	sb := digest.NewSetBuilder(0)
	byDigest := map[digest.Digest]string{}
	for _, k := range s.Ks {
		d := DigestOf(s.Inst, w.content(k))
		sb.Add(d)
		byDigest[d] = k
	}
	w.log.Emit(map[string]any{"ev": "FmStart", "p": s.P, "ks": s.Ks, "inst": comps(s.Inst)})
	missing, err := w.st.Access.FindMissing(ctx, sb.Build())
	names := []string{}
	for _, d := range missing.Items() {
		names = append(names, byDigest[d])
	}
	sort.Strings(names)
	msg := ""
	if err != nil {
		msg = err.Error()
	}
	w.log.Emit(map[string]any{"ev": "FmEnd", "p": s.P, "ks": s.Ks, "inst": comps(s.Inst), "missing": names, "res": codeOf(err), "msg": msg})
}

func (w *world) doComp(ctx context.Context, s Step) {
	parent := DigestOf(s.Inst, w.content(s.K))
	childName := fmt.Sprintf("%s#%d", s.K, s.Child)
	child := DigestOf(s.Inst, w.content(childName))
	w.log.Emit(map[string]any{"ev": "CompStart", "p": s.P, "k": s.K, "child": s.Child, "inst": comps(s.Inst)})
	b := w.st.Access.GetFromComposite(ctx, parent, child, NewHalfSlicer(w.sc, "slice:"+s.P, s.Inst))
	kind, what, msg := w.readResult(b)
	w.log.Emit(map[string]any{"ev": "CompEnd", "p": s.P, "k": s.K, "child": s.Child, "inst": comps(s.Inst), "kind": kind, "what": what, "want": childName, "msg": msg})
}

// corrupt flips one byte of the newest stored copy of key k on the data device.
func (w *world) corrupt(k string) bool {
	if w.st.Data == nil {
		return false
	}
	img := w.st.Data.Image()
	c := w.content(k)
	if len(c) == 0 {
		return false
	}
	idx := bytes.LastIndex(img, c)
	if idx < 0 {
		return false
	}
	if w.st.Cfg.Factory == "ac" {
		w.st.Data.CorruptWith(int64(idx), c[0]^(c[0]|0x07)) // the first tag gets wire type 7 (0x82 -> 0x87, 0x68 -> 0x6f): the message no longer parses
	} else {
		w.st.Data.Corrupt(int64(idx))
	}
	w.log.Emit(map[string]any{"ev": "Corrupt", "k": k, "off": idx, "blk": 0})
	return true
}

type runStats struct {
	Steps      int
	Infeasible int
	Panics     int
	Drift      int
	Ends       int
	FirstDrift map[string]any
}

// normalize maps the End events logged during one step to the design's vocabulary.
func normalize(evs []map[string]any) []string {
	integrity := false
	for _, e := range evs {
		if e["ev"] == "Integrity" && e["ok"] == false {
			integrity = true
		}
	}
	var out []string
	for _, e := range evs {
		switch e["ev"] {
		case "PutEnd":
			out = append(out, fmt.Sprintf("%v/Put/%v/%v/", e["p"], e["k"], e["res"]))
		case "GetEnd", "CompEnd":
			op := "Get"
			if e["ev"] == "CompEnd" {
				op = "Comp"
			}
			res, what := fmt.Sprint(e["kind"]), fmt.Sprint(e["what"])
			if res == "Error" {
				res, what = what, ""
				if res == "Internal" && integrity {
					res = "Integrity"
				}
			}
			out = append(out, fmt.Sprintf("%v/%s/%v/%v/%v", e["p"], op, e["k"], res, what))
		case "FmEnd":
			res := fmt.Sprint(e["res"])
			what := ""
			if res == "OK" {
				what = strings.Join(e["missing"].([]string), ",")
			} else if res == "Internal" && integrity {
				res = "Integrity"
			}
			out = append(out, fmt.Sprintf("%v/Fm//%v/%v", e["p"], res, what))
		}
	}
	sort.Strings(out)
	return out
}

func normalizeExp(exp []Exp) []string {
	var out []string
	for _, e := range exp {
		what := ""
		switch w := e.What.(type) {
		case string:
			what = w
		case []any:
			var xs []string
			for _, x := range w {
				xs = append(xs, fmt.Sprint(x))
			}
			sort.Strings(xs)
			what = strings.Join(xs, ",")
		}
		k := e.K
		if e.Op == "Fm" {
			k = ""
		}
		out = append(out, fmt.Sprintf("%s/%s/%s/%s/%s", e.P, e.Op, k, e.Res, what))
	}
	sort.Strings(out)
	return out
}

func (w *world) finish() {
	w.sc.OpenAll()
	w.wg.Wait()
	closedOnce := true
	for _, s := range w.srcs {
		if s.Closed.Load() != 1 {
			closedOnce = false
		}
	}
	alloc := hx.Metric("buildbarn_blobstore_block_device_backed_block_allocator_allocations_total", map[string]string{"storage_type": w.st.Label})
	rel := hx.Metric("buildbarn_blobstore_block_device_backed_block_allocator_releases_total", map[string]string{"storage_type": w.st.Label})
	w.log.Emit(map[string]any{"ev": "Quiesce", "openReaders": int(w.st.OpenReaders), "srcClosedOnce": closedOnce,
		"devAllocs": int(alloc), "devReleases": int(rel), "dev": w.st.Data != nil, "totalBlocks": w.st.Cfg.Old + w.st.Cfg.Cur + w.st.Cfg.New + w.st.Cfg.Spare})
}

func runScript(t *testing.T, sc *Script, tw *hx.Writer) runStats {
	var rs runStats
	synctest.Test(t, func(t *testing.T) {
		tw.Emit(map[string]any{"ev": "Reset", "id": sc.ID, "cfg": cfgEvent(sc.Cfg, true), "keys": keyNames(sc.Keys)})
		w := newWorld(sc.Cfg, sc.Keys, true, 1, sc.Gates, tw)
		installYield(w)
		for si, s := range sc.Steps {
			rs.Steps++
			mark := len(w.log.Mem)
			switch s.Do {
			case "start":
				w.log.SetCur(s.P)
				if !w.start(s) {
					rs.Infeasible++
				}
				w.sc.Settle()
			case "rel":
				if parts := strings.SplitN(s.L, ":", 3); len(parts) >= 2 {
					w.log.SetCur(parts[1])
				}
				n := s.N
				if n == 0 {
					n = 1
				}
				if n < 0 { // release for as long as the process keeps parking at this gate
					if !w.sc.Release(s.L) {
						rs.Infeasible++
					}
					for w.sc.Release(s.L) {
					}
				} else {
					for i := 0; i < n; i++ {
						if !w.sc.Release(s.L) {
							rs.Infeasible++
							break
						}
					}
				}
			case "corrupt":
				if !w.corrupt(s.K) {
					rs.Infeasible++
				}
			default:
				t.Fatalf("unknown step %q", s.Do)
			}
			if s.HasExp {
				got := normalize(w.log.Mem[mark:])
				want := normalizeExp(s.Exp)
				rs.Ends += len(got)
				if strings.Join(got, ";") != strings.Join(want, ";") {
					rs.Drift++
					if rs.FirstDrift == nil {
						rs.FirstDrift = map[string]any{"script": sc.ID, "step": si, "want": want, "got": got}
					}
					tw.Emit(map[string]any{"ev": "Note", "drift": true, "step": si, "want": strings.Join(want, ";"), "got": strings.Join(got, ";")})
				}
			}
		}
		w.finish()
		installYield(nil)
	})
	return rs
}

func cfgEvent(c Config, coop bool) map[string]any {
	return map[string]any{"access": c.Access, "alloc": c.Alloc, "index": c.Index, "policy": c.Policy, "factory": c.Factory,
		"old": c.Old, "cur": c.Cur, "new": c.New, "spare": c.Spare, "sector": c.Sector, "blockSectors": c.BlockSectors, "coop": coop}
}

func keyNames(keys map[string]KeyDef) []string {
	out := []string{}
	for k := range keys {
		out = append(out, k)
	}
	sort.Strings(out)
	return out
}

// TestScripts replays TLC-generated (or hand-written) scripts under the
// cooperative scheduler and writes the recorded traces.
func TestScripts(t *testing.T) {
	hx.DropRuntimeCollectors()
	out := os.Getenv("STORE_OUT")
	tw := hx.NewWriter(filepath.Join(out, "traces.ndjson"))
	defer tw.Close()
	total := runStats{}
	n, driftScripts := 0, 0
	var drifts []map[string]any
	hx.ReadLines(os.Getenv("STORE_SCRIPTS"), func(line []byte) {
		var sc Script
		if err := json.Unmarshal(line, &sc); err != nil {
			t.Fatal(err)
		}
		rs := runScript(t, &sc, tw)
		total.Steps += rs.Steps
		total.Infeasible += rs.Infeasible
		total.Ends += rs.Ends
		if rs.Drift > 0 {
			driftScripts++
			if len(drifts) < 5 {
				drifts = append(drifts, rs.FirstDrift)
			}
		}
		n++
	})
	b, _ := json.Marshal(map[string]any{"scripts": n, "steps": total.Steps, "infeasible": total.Infeasible,
		"completions_compared": total.Ends, "drift_scripts": driftScripts, "first_drifts": drifts})
	os.WriteFile(filepath.Join(out, "summary.json"), b, 0o644)
}

var _ = errors.New

// ---- seeded random drivers -----------------------------------------------------

func randomConfig(rng *rand.Rand, access string) (Config, map[string]KeyDef, int) {
	unit := 1 + rng.Intn(3)
	bs := 2 + rng.Intn(3) // block size in units
	cfg := Config{Access: access, Policy: []string{"immutable", "mutable"}[rng.Intn(2)], Factory: "cas",
		Old: rng.Intn(3), Cur: rng.Intn(3), New: 1 + rng.Intn(3), Spare: rng.Intn(3),
		IndexSlots: 61, MaxGet: 8, MaxPut: 16}
	if rng.Intn(4) == 0 {
		cfg.Factory = "raw"
	} else if access == "flat" && rng.Intn(4) == 0 {
		cfg.Factory = "ac" // an Action Cache: contents are ActionResult messages
	}
	if rng.Intn(3) == 0 {
		cfg.Alloc, cfg.Sector, cfg.BlockSectors = "mem", 1, bs*unit
	} else {
		cfg.Alloc = "dev"
		secs := []int{}
		for _, s := range []int{1, 2, 3, 4, 6, 8} {
			if (bs*unit)%s == 0 {
				secs = append(secs, s)
			}
		}
		cfg.Sector = secs[rng.Intn(len(secs))]
		cfg.BlockSectors = bs * unit / cfg.Sector
	}
	cfg.Index = []string{"mem", "dev"}[rng.Intn(2)]
	keys := map[string]KeyDef{}
	nk := 3 + rng.Intn(3)
	zero := false
	for i := 0; i < nk; i++ {
		sz := rng.Intn(bs+1) * unit // 0 .. block size
		if i == 0 {
			sz = 2 * unit // the composite parent
		}
		if rng.Intn(5) == 0 && sz > 0 {
			sz-- // sizes that are not multiples of the unit
		}
		if i == 0 && sz < 2 {
			sz = 2
		}
		if sz == 0 {
			if zero {
				sz = 1 // at most one empty object: equal contents are the same CAS object
			}
			zero = true
		}
		if cfg.Factory == "ac" && sz == 1 {
			sz = 2 // no ActionResult is one byte long
		}
		keys[fmt.Sprintf("k%d", i)] = KeyDef{Cid: 10 + i, Size: sz}
	}
	return cfg, keys, unit
}

var hierNames = []string{"", "x", "x/y", "xy", "x/yz", "z"}

func randomOp(rng *rand.Rand, p string, keys []string, access string, corrupt bool) Step {
	k := keys[rng.Intn(len(keys))]
	inst := ""
	if access == "hier" {
		inst = hierNames[rng.Intn(len(hierNames))]
	}
	switch r := rng.Intn(10); {
	case r < 4:
		bad := ""
		if rng.Intn(5) == 0 {
			bad = []string{"content", "short", "error"}[rng.Intn(3)]
		}
		return Step{Do: "start", P: p, Op: "Put", K: k, Inst: inst, Bad: bad}
	case r < 7:
		return Step{Do: "start", P: p, Op: "Get", K: k, Inst: inst, Hold: rng.Intn(2) == 0}
	case r < 9:
		ks := []string{k}
		if k2 := keys[rng.Intn(len(keys))]; k2 != k {
			ks = append(ks, k2)
		}
		return Step{Do: "start", P: p, Op: "Fm", Ks: ks, Inst: inst}
	default:
		return Step{Do: "start", P: p, Op: "Comp", K: "k0", Inst: inst, Child: rng.Intn(2)}
	}
}

// releasable tells whether releasing the gate cannot block on a mutex held by a parked process.
func releasable(label string, parked []string) bool {
	if strings.HasSuffix(label, "flat.GetFromComposite.refresh") || strings.HasSuffix(label, "flat.FindMissing.refresh") {
		for _, q := range parked {
			if strings.HasPrefix(q, "slice:") {
				return false // a process parked in the slicer holds refreshLock (flat store)
			}
		}
	}
	if strings.HasSuffix(label, "syncer.storeLock") {
		for _, q := range parked {
			if q == "state" {
				return false // a syncer loop parked in the state write holds storeLock
			}
		}
	}
	return true
}

// TestRandom runs (1) a random cooperative scheduler: a seeded sequence of
// "start an operation" / "release a parked gate" choices, fully reproducible,
// and (2) free-running goroutines with real parallelism.
func TestRandom(t *testing.T) {
	hx.DropRuntimeCollectors()
	out := os.Getenv("STORE_OUT")
	seed := int64(hx.EnvInt("VERIF_SEED", 1))
	access := hx.Env("STORE_ACCESS", "flat")
	runs := hx.EnvInt("STORE_RUNS", 100)
	nops := hx.EnvInt("STORE_OPS", 12)
	wantCorrupt := hx.EnvInt("STORE_CORRUPT", 0) == 1
	gates := []string{"flat.Get.upgrade", "flat.GetFromComposite.refresh", "flat.FindMissing.refresh", "hier.Get.upgrade", "hier.FindMissing.refresh"}
	tw := hx.NewWriter(filepath.Join(out, "traces.ndjson"))
	defer tw.Close()
	steps, ends := 0, 0
	only := hx.EnvInt("STORE_ONLY_RUN", -1)
	for r := 0; r < runs; r++ {
		if only >= 0 && r != only {
			continue
		}
		rng := rand.New(rand.NewSource(seed*1000003 + int64(r)))
		cfg, keys, _ := randomConfig(rng, access)
		names := keyNames(keys)
		synctest.Test(t, func(t *testing.T) {
			tw.Emit(map[string]any{"ev": "Reset", "id": fmt.Sprintf("randcoop/%d/%d", seed, r), "cfg": cfgEvent(cfg, true), "keys": names})
			w := newWorld(cfg, keys, true, 1, gates, tw)
			installYield(w)
			started := 0
			busy := map[string]bool{}
			procs := []string{"c1", "c2", "c3"}
			for {
				parked := w.sc.Parked()
				var rel []string
				for _, l := range parked {
					if releasable(l, parked) {
						rel = append(rel, l)
					}
				}
				for _, p := range procs { // a process is busy while it has a gate parked
					busy[p] = false
				}
				for _, l := range parked {
					busy[strings.SplitN(l, ":", 3)[1]] = true
				}
				var idle []string
				for _, p := range procs {
					if !busy[p] {
						idle = append(idle, p)
					}
				}
				canStart := started < nops && len(idle) > 0
				if !canStart && len(rel) == 0 {
					break
				}
				steps++
				if canStart && (len(rel) == 0 || rng.Intn(2) == 0) {
					if wantCorrupt && cfg.Alloc == "dev" && (cfg.Factory == "cas" || cfg.Factory == "ac") && rng.Intn(6) == 0 {
						w.corrupt(names[rng.Intn(len(names))])
						continue
					}
					p := idle[rng.Intn(len(idle))]
					w.log.SetCur(p)
					op := randomOp(rng, p, names, access, false)
					if cfg.Factory == "ac" && op.Op == "Comp" {
						op = Step{Do: "start", P: p, Op: "Get", K: op.K, Inst: op.Inst} // no composites in an Action Cache
					}
					w.start(op)
					w.sc.Settle()
					started++
				} else {
					l := rel[rng.Intn(len(rel))]
					w.log.SetCur(strings.SplitN(l, ":", 3)[1])
					w.sc.Release(l)
				}
			}
			w.finish()
			installYield(nil)
			for _, e := range w.log.Mem {
				if ev := e["ev"].(string); strings.HasSuffix(ev, "End") && ev != "WriterEnd" {
					ends++
				}
			}
		})
	}
	// free-running: real goroutines, gates only perturb the Go scheduler
	freeRuns := hx.EnvInt("STORE_FREE_RUNS", 10)
	freeOps := hx.EnvInt("STORE_FREE_OPS", 40)
	for r := 0; r < freeRuns; r++ {
		rng := rand.New(rand.NewSource(seed*7000003 + int64(r)))
		cfg, keys, _ := randomConfig(rng, access)
		names := keyNames(keys)
		tw.Emit(map[string]any{"ev": "Reset", "id": fmt.Sprintf("randfree/%d/%d", seed, r), "cfg": cfgEvent(cfg, false), "keys": names})
		w := newWorld(cfg, keys, false, seed+int64(r), gates, tw)
		installYield(w)
		var wg sync.WaitGroup
		for pi := 0; pi < 4; pi++ {
			p := fmt.Sprintf("c%d", pi+1)
			prng := rand.New(rand.NewSource(seed*31 + int64(r)*7 + int64(pi)))
			wg.Add(1)
			go func() {
				defer wg.Done()
				for i := 0; i < freeOps; i++ {
					s := randomOp(prng, p, names, access, false)
					if cfg.Factory == "ac" && s.Op == "Comp" {
						s = Step{Do: "start", P: p, Op: "Get", K: s.K, Inst: s.Inst}
					}
					ctx := sched.WithProc(context.Background(), p)
					func() {
						defer func() {
							if rec := recover(); rec != nil {
								w.log.Emit(map[string]any{"ev": "Panic", "p": p, "msg": fmt.Sprint(rec)})
							}
						}()
						switch s.Op {
						case "Put":
							w.doPut(ctx, s)
						case "Get":
							w.doGet(ctx, s)
						case "Fm":
							w.doFm(ctx, s)
						case "Comp":
							w.doComp(ctx, s)
						}
					}()
					steps++
					ends++
				}
			}()
		}
		wg.Wait()
		w.finish()
		installYield(nil)
	}
	b, _ := json.Marshal(map[string]any{"coop_runs": runs, "free_runs": freeRuns, "steps": steps, "completions": ends})
	os.WriteFile(filepath.Join(out, "summary.json"), b, 0o644)
}
