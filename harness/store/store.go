// Package store assembles the real local blob store of bb-storage
// (flat / hierarchical access, old-current-new block map, volatile block list,
// in-memory or block-device-backed allocator and index) over simulated media
// and records what it does as trace events.
package store

import (
	"context"
	"crypto/sha256"
	"encoding/binary"
	"encoding/hex"
	"fmt"
	"io"
	"sync"
	"sync/atomic"

	remoteexecution "github.com/bazelbuild/remote-apis/build/bazel/remote/execution/v2"
	"github.com/buildbarn/bb-storage/pkg/blobstore"
	"github.com/buildbarn/bb-storage/pkg/blobstore/buffer"
	"github.com/buildbarn/bb-storage/pkg/blobstore/local"
	"github.com/buildbarn/bb-storage/pkg/blobstore/slicing"
	"github.com/buildbarn/bb-storage/pkg/digest"
	pb "github.com/buildbarn/bb-storage/pkg/proto/blobstore/local"

	"verif/harness/hx"
	"verif/harness/sched"
	"verif/harness/sim"
)

// Config selects one of the supported assemblies and its geometry.
type Config struct {
	Access       string `json:"access"`  // flat | hier
	Alloc        string `json:"alloc"`   // mem | dev
	Index        string `json:"index"`   // mem | dev
	Policy       string `json:"policy"`  // immutable | mutable
	Factory      string `json:"factory"` // cas (validating reads) | raw (bytes as stored) | ac (Action Cache: contents are ActionResult messages, reads fail when they no longer parse)
	Old          int    `json:"old"`
	Cur          int    `json:"cur"`
	New          int    `json:"new"`
	Spare        int    `json:"spare"`
	Sector       int    `json:"sector"`       // bytes per sector (dev allocator)
	BlockSectors int    `json:"blockSectors"` // sectors per block
	IndexSlots   int    `json:"indexSlots"`
	MaxGet       int    `json:"maxGet"`
	MaxPut       int    `json:"maxPut"`
}

func (c *Config) BlockBytes() int { return c.Sector * c.BlockSectors }

// ---- content identities ------------------------------------------------------

// Content returns the deterministic payload of content identity cid.
func Content(cid, size int) []byte {
	out := make([]byte, size)
	var seed [8]byte
	binary.LittleEndian.PutUint64(seed[:], uint64(cid)*0x9e3779b97f4a7c15+1)
	h := sha256.Sum256(seed[:])
	for i := range out {
		if i%32 == 0 && i > 0 {
			h = sha256.Sum256(h[:])
		}
		// Bytes after the first are >= 0x40, the first byte is 1+cid (< 0x40): no
		// content is a half of another one and distinct cids never collide, even
		// for one-byte objects. The zero byte of a fresh device never occurs.
		out[i] = 0x40 | h[i%32]
	}
	if size > 0 {
		if cid < 0 || cid > 61 {
			panic("cid out of range")
		}
		out[0] = byte(1 + cid)
	}
	return out
}

var digestFunction = digest.MustNewFunction("", remoteexecution.DigestFunction_SHA256)

// DigestOf returns the CAS digest of data under the given instance name.
// ContentAC is Content for Action Cache stores: a valid serialized ActionResult of exactly size bytes (size 1
// does not exist: the caller must not ask for it) that consists of one unknown field, so that it survives
// unmarshalling and marshalling unchanged.  Flipping the low bits of its first byte yields an invalid wire type.
func ContentAC(cid, size int) []byte {
	switch {
	case size == 0:
		return []byte{}
	case size == 1:
		panic("no ActionResult is one byte long")
	case size == 2:
		return []byte{13<<3 | 0, byte(1 + cid)} // field 13, varint
	case size == 3:
		return []byte{13<<3 | 0, 0x80 | byte(1+cid), 0x01} // field 13, two-byte varint
	}
	body := Content(cid, size-3)
	return append([]byte{0x82, 0x01, byte(size - 3)}, body...) // field 16, length-delimited
}

func DigestOf(instance string, data []byte) digest.Digest {
	sum := sha256.Sum256(data)
	return digest.MustNewDigest(instance, remoteexecution.DigestFunction_SHA256, hex.EncodeToString(sum[:]), int64(len(data)))
}

// ---- event log ---------------------------------------------------------------

type Log struct {
	mu    sync.Mutex
	seq   int
	W     *hx.Writer
	Mem   []map[string]any
	cur   string // process released last by the cooperative scheduler ("" if unknown)
	muted bool   // set when the simulated machine / process died: nothing after that instant is observable
}

// Mute stops recording: whatever the goroutines do while they are being torn
// down after a simulated crash never happened as far as the property is concerned.
func (l *Log) Mute() {
	l.mu.Lock()
	l.muted = true
	l.mu.Unlock()
}

// SetCur records which logical process the scheduler lets run (cooperative mode).
func (l *Log) SetCur(p string) {
	l.mu.Lock()
	l.cur = p
	l.mu.Unlock()
}

// Cur returns the process currently running under the cooperative scheduler.
func (l *Log) Cur() string {
	l.mu.Lock()
	defer l.mu.Unlock()
	return l.cur
}

func (l *Log) Emit(ev map[string]any) {
	l.mu.Lock()
	if l.muted {
		l.mu.Unlock()
		return
	}
	l.seq++
	ev["seq"] = l.seq
	if l.W != nil {
		l.W.Emit(ev)
	}
	l.Mem = append(l.Mem, ev)
	l.mu.Unlock()
}

// ---- recording decorators ------------------------------------------------------

type errorLogger struct{ log *Log }

func (e errorLogger) Log(err error) {
	e.log.Emit(map[string]any{"ev": "ErrorLog", "msg": err.Error()})
}

// recAllocator logs block hand-outs and releases.
type recAllocator struct {
	base local.BlockAllocator
	log  *Log
	st   *Store
}

func (a *recAllocator) NewBlock() (local.Block, *pb.BlockLocation, error) {
	b, loc, err := a.base.NewBlock()
	if err != nil {
		a.log.Emit(map[string]any{"ev": "NewBlockFail"})
		return nil, nil, err
	}
	n := int(atomic.AddInt64(&a.st.blockSeq, 1))
	region := -1
	if loc != nil {
		region = int(loc.OffsetBytes / loc.SizeBytes)
	}
	atomic.AddInt64(&a.st.Allocs, 1)
	a.log.Emit(map[string]any{"ev": "NewBlock", "blk": n, "region": region})
	return &recBlock{base: b, id: n, region: region, a: a}, loc, nil
}

func (a *recAllocator) NewBlockAtLocation(location *pb.BlockLocation, writeOffsetBytes int64) (local.Block, bool) {
	b, ok := a.base.NewBlockAtLocation(location, writeOffsetBytes)
	if !ok {
		return nil, false
	}
	n := int(atomic.AddInt64(&a.st.blockSeq, 1))
	region := int(location.OffsetBytes / location.SizeBytes)
	a.log.Emit(map[string]any{"ev": "NewBlockAt", "blk": n, "region": region, "woff": writeOffsetBytes})
	return &recBlock{base: b, id: n, region: region, a: a}, true
}

type recBlock struct {
	base   local.Block
	id     int
	region int
	a      *recAllocator
}

func (b *recBlock) Get(d digest.Digest, offsetBytes, sizeBytes int64, cb buffer.DataIntegrityCallback) buffer.Buffer {
	// The reader's lifetime is logged by the recording ReadBufferFactory; tag it
	// with this block through a goroutine-free side channel (the call is synchronous).
	b.a.st.getMu.Lock()
	defer b.a.st.getMu.Unlock()
	b.a.st.curBlock.Store(int64(b.id))
	defer b.a.st.curBlock.Store(0)
	return b.base.Get(d, offsetBytes, sizeBytes, cb)
}
func (b *recBlock) HasSpace(sizeBytes int64) bool { return b.base.HasSpace(sizeBytes) }
func (b *recBlock) Put(sizeBytes int64) local.BlockPutWriter {
	w := b.base.Put(sizeBytes)
	b.a.log.Emit(map[string]any{"ev": "WriterStart", "blk": b.id, "region": b.region, "size": sizeBytes, "p": b.a.log.Cur()})
	return func(buf buffer.Buffer) local.BlockPutFinalizer {
		f := w(buf)
		b.a.log.Emit(map[string]any{"ev": "WriterEnd", "blk": b.id, "region": b.region})
		return f
	}
}
func (b *recBlock) Release() {
	b.a.log.Emit(map[string]any{"ev": "ListRelease", "blk": b.id, "region": b.region})
	b.base.Release()
}

// recFactory wraps the read buffer factory: logs reader open/close and
// integrity verdicts.
type recFactory struct {
	base blobstore.ReadBufferFactory
	log  *Log
	st   *Store
}

type recReaderAt struct {
	buffer.ReadAtCloser
	f      *recFactory
	id     int
	blk    int
	closed atomic.Int32
}

func (r *recReaderAt) Close() error {
	n := r.closed.Add(1)
	r.f.log.Emit(map[string]any{"ev": "ReaderClose", "rd": r.id, "blk": r.blk, "n": int(n)})
	atomic.AddInt64(&r.f.st.OpenReaders, -1)
	return r.ReadAtCloser.Close()
}

func (f *recFactory) wrapCB(cb buffer.DataIntegrityCallback, blk int) buffer.DataIntegrityCallback {
	return func(ok bool) {
		f.log.Emit(map[string]any{"ev": "Integrity", "ok": ok, "blk": blk})
		cb(ok)
	}
}

func (f *recFactory) NewBufferFromByteSlice(d digest.Digest, data []byte, cb buffer.DataIntegrityCallback) buffer.Buffer {
	return f.base.NewBufferFromByteSlice(d, data, f.wrapCB(cb, int(f.st.curBlock.Load())))
}

func (f *recFactory) NewBufferFromReader(d digest.Digest, r io.ReadCloser, cb buffer.DataIntegrityCallback) buffer.Buffer {
	return f.base.NewBufferFromReader(d, r, f.wrapCB(cb, int(f.st.curBlock.Load())))
}

func (f *recFactory) NewBufferFromReaderAt(d digest.Digest, r buffer.ReadAtCloser, sizeBytes int64, cb buffer.DataIntegrityCallback) buffer.Buffer {
	id := int(atomic.AddInt64(&f.st.readerSeq, 1))
	blk := int(f.st.curBlock.Load())
	atomic.AddInt64(&f.st.OpenReaders, 1)
	f.log.Emit(map[string]any{"ev": "ReaderOpen", "rd": id, "blk": blk, "p": f.log.Cur()})
	return f.base.NewBufferFromReaderAt(d, &recReaderAt{ReadAtCloser: r, f: f, id: id, blk: blk}, sizeBytes, f.wrapCB(cb, blk))
}

// rawFactory performs no validation: consumers observe the bytes as stored.
type rawFactory struct{}

func (rawFactory) NewBufferFromByteSlice(d digest.Digest, data []byte, cb buffer.DataIntegrityCallback) buffer.Buffer {
	return buffer.NewValidatedBufferFromByteSlice(data)
}

func (rawFactory) NewBufferFromReader(d digest.Digest, r io.ReadCloser, cb buffer.DataIntegrityCallback) buffer.Buffer {
	data, err := io.ReadAll(r)
	r.Close()
	if err != nil {
		return buffer.NewBufferFromError(err)
	}
	return buffer.NewValidatedBufferFromByteSlice(data)
}

func (rawFactory) NewBufferFromReaderAt(d digest.Digest, r buffer.ReadAtCloser, sizeBytes int64, cb buffer.DataIntegrityCallback) buffer.Buffer {
	return buffer.NewValidatedBufferFromReaderAt(r, sizeBytes)
}

// recBlockList logs rotations of the block list (design-level events).
type recBlockList struct {
	local.BlockList
	log *Log
}

func (b *recBlockList) PopFront() {
	b.BlockList.PopFront()
	b.log.Emit(map[string]any{"ev": "PopFront"})
}

func (b *recBlockList) PushBack() error {
	err := b.BlockList.PushBack()
	b.log.Emit(map[string]any{"ev": "PushBack", "ok": err == nil})
	return err
}

// recKLM logs index insertions (design-level event).
type recKLM struct {
	base local.KeyLocationMap
	log  *Log
	st   *Store
}

func (k *recKLM) Get(key local.Key) (local.Location, error) { return k.base.Get(key) }
func (k *recKLM) Put(key local.Key, loc local.Location) error {
	err := k.base.Put(key, loc)
	k.log.Emit(map[string]any{"ev": "IndexPut", "rel": loc.BlockIndex, "off": loc.OffsetBytes, "size": loc.SizeBytes})
	return err
}

// ---- the assembled store -------------------------------------------------------

type Store struct {
	Cfg    Config
	Log    *Log
	Sched  *sched.Sched
	Access blobstore.BlobAccess
	Lock   *sync.RWMutex
	Data   *sim.Device // nil for the in-memory allocator
	Idx    *sim.Device // nil for the in-memory index
	LBM    *local.OldCurrentNewLocationBlobMap
	Label  string
	P      *Persist // nil for a volatile store

	getMu       sync.Mutex
	blockSeq    int64
	readerSeq   int64
	curBlock    atomic.Int64
	Allocs      int64
	OpenReaders int64
}

var storeCounter int64

type noCapabilities struct{}

func (noCapabilities) GetCapabilities(ctx context.Context, instanceName digest.InstanceName) (*remoteexecution.ServerCapabilities, error) {
	return &remoteexecution.ServerCapabilities{}, nil
}

// New assembles a store exactly the way pkg/blobstore/configuration does for a
// non-persistent local backend.
func New(cfg Config, log *Log, sc *sched.Sched) *Store {
	st := &Store{Cfg: cfg, Log: log, Sched: sc, Lock: &sync.RWMutex{}}
	st.Label = fmt.Sprintf("verif%d", atomic.AddInt64(&storeCounter, 1))
	var base blobstore.ReadBufferFactory
	switch cfg.Factory {
	case "raw":
		base = rawFactory{}
	case "ac":
		base = blobstore.ACReadBufferFactory
	default:
		base = blobstore.CASReadBufferFactory
	}
	factory := &recFactory{base: base, log: log, st: st}
	var alloc local.BlockAllocator
	blockCount := cfg.Old + cfg.Cur + cfg.New + cfg.Spare
	switch cfg.Alloc {
	case "dev":
		st.Data = sim.NewDevice(cfg.Sector, cfg.BlockSectors*blockCount)
		alloc = local.NewBlockDeviceBackedBlockAllocator(st.Data, factory, cfg.Sector, int64(cfg.BlockSectors), blockCount, st.Label)
	default:
		alloc = local.NewInMemoryBlockAllocator(cfg.BlockBytes())
	}
	ralloc := &recAllocator{base: alloc, log: log, st: st}
	blockList := &recBlockList{BlockList: local.NewVolatileBlockList(ralloc), log: log}
	var policy local.BlockListGrowthPolicy
	if cfg.Policy == "mutable" {
		policy = local.NewMutableBlockListGrowthPolicy(cfg.Cur)
	} else {
		policy = local.NewImmutableBlockListGrowthPolicy(cfg.Cur, cfg.New)
	}
	st.LBM = local.NewOldCurrentNewLocationBlobMap(blockList, policy, errorLogger{log}, st.Label, int64(cfg.BlockBytes()), cfg.Old, cfg.New, 0)
	var arr local.LocationRecordArray
	switch cfg.Index {
	case "dev":
		st.Idx = sim.NewDevice(local.BlockDeviceBackedLocationRecordSize, cfg.IndexSlots)
		arr = local.NewBlockDeviceBackedLocationRecordArray(st.Idx, st.LBM)
	default:
		arr = local.NewInMemoryLocationRecordArray(cfg.IndexSlots, st.LBM)
	}
	klm := &recKLM{base: local.NewHashingKeyLocationMap(arr, cfg.IndexSlots, 0xcbf29ce484222325, uint32(cfg.MaxGet), cfg.MaxPut, st.Label), log: log, st: st}
	switch cfg.Access {
	case "hier":
		st.Access = local.NewHierarchicalCASBlobAccess(klm, st.LBM, st.Lock, noCapabilities{})
	default:
		st.Access = local.NewFlatBlobAccess(klm, st.LBM, digest.KeyWithoutInstance, st.Lock, st.Label, noCapabilities{})
	}
	return st
}

// ---- gated upload source ---------------------------------------------------------

// Item is one scripted result of a Read on an upload source.
type Item struct {
	Data []byte
	Err  error // io.EOF or an injected error
}

type GatedReader struct {
	sc     *sched.Sched
	label  string
	items  []Item
	pos    int
	Closed atomic.Int32
	Reads  int
}

func NewGatedReader(sc *sched.Sched, label string, items []Item) *GatedReader {
	return &GatedReader{sc: sc, label: label, items: items}
}

func (g *GatedReader) Read(p []byte) (int, error) {
	g.sc.Gate(g.label)
	g.Reads++
	if g.pos >= len(g.items) {
		return 0, io.EOF
	}
	it := &g.items[g.pos]
	if it.Err != nil && len(it.Data) == 0 {
		g.pos++
		return 0, it.Err
	}
	n := copy(p, it.Data)
	it.Data = it.Data[n:]
	if len(it.Data) == 0 {
		err := it.Err
		g.pos++
		return n, err
	}
	return n, nil
}

func (g *GatedReader) Close() error {
	g.Closed.Add(1)
	return nil
}

// ---- gated slicer -----------------------------------------------------------------

// HalfSlicer cuts a parent into two halves [0,n/2) and [n/2,n).
type HalfSlicer struct {
	sc       *sched.Sched
	label    string
	Instance string
}

func NewHalfSlicer(sc *sched.Sched, label, instance string) *HalfSlicer {
	return &HalfSlicer{sc: sc, label: label, Instance: instance}
}

func (s *HalfSlicer) Slice(b buffer.Buffer, childDigest digest.Digest) (buffer.Buffer, []slicing.BlobSlice) {
	s.sc.Gate(s.label)
	data, err := b.ToByteSlice(1 << 20)
	if err != nil {
		return buffer.NewBufferFromError(err), nil
	}
	h := len(data) / 2
	parts := [][2]int{{0, h}, {h, len(data)}}
	var slices []slicing.BlobSlice
	var child buffer.Buffer
	for _, p := range parts {
		d := DigestOf(s.Instance, data[p[0]:p[1]])
		slices = append(slices, slicing.BlobSlice{Digest: d, OffsetBytes: int64(p[0]), SizeBytes: int64(p[1] - p[0])})
		if child == nil && d == childDigest {
			child = buffer.NewValidatedBufferFromByteSlice(data[p[0]:p[1]])
		}
	}
	if child == nil {
		return buffer.NewBufferFromError(fmt.Errorf("child not part of parent")), slices
	}
	return child, slices
}
