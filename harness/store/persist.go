package store

import (
	"context"
	"fmt"
	"sync"
	"sync/atomic"
	"time"

	"github.com/buildbarn/bb-storage/pkg/blobstore"
	"github.com/buildbarn/bb-storage/pkg/blobstore/local"
	"github.com/buildbarn/bb-storage/pkg/digest"
	pb "github.com/buildbarn/bb-storage/pkg/proto/blobstore/local"
	"github.com/buildbarn/bb-storage/pkg/random"

	"verif/harness/sched"
	"verif/harness/sim"
)

// Media are the durable images a persistent store is (re)started from.
type Media struct {
	Data  []byte
	Idx   []byte
	Files map[string][]byte
}

// Persist holds the persistence machinery of a persistent store.
type Persist struct {
	Dir     *sim.Dir
	Clock   *sim.Clock
	Machine *sim.Machine
	PBL     *local.PersistentBlockList
	Syncer  *local.PeriodicSyncer
	Source  *recSource
	Cancel  context.CancelFunc
	stop    chan struct{} // closed to let the syncer loops end (after a crash / at the end of a run)
	stopped atomic.Bool
	wg      sync.WaitGroup
	MinEpoch, RetryInterval time.Duration
	Restored int
	// failure injection for the next data sync / state write
	FailSync  atomic.Int32
	FailState atomic.Int32
	lastWasError atomic.Bool  // the previous syncer-side event was an error being logged (-> retry timer)
	retryTimers  sync.Map     // timer id -> true for timers created by logErrorAndSleep
}

// PendingRetryTimers counts retry timers that have not fired yet.
func (p *Persist) PendingRetryTimers() int {
	n := 0
	for _, t := range p.Clock.Pending() {
		if _, ok := p.retryTimers.Load(t.ID); ok {
			n++
		}
	}
	return n
}

// syncerErrorLogger marks the timer that logErrorAndSleep creates next as a retry timer.
type syncerErrorLogger struct {
	log *Log
	p   *Persist
}

func (e syncerErrorLogger) Log(err error) {
	e.log.Emit(map[string]any{"ev": "ErrorLog", "msg": err.Error()})
	e.p.lastWasError.Store(true)
}

// ---- deterministic seeds ---------------------------------------------------------

type seedGen struct {
	mu sync.Mutex
	x  uint64
}

func (g *seedGen) next() uint64 {
	g.mu.Lock()
	g.x += 0x9e3779b97f4a7c15
	z := g.x
	g.mu.Unlock()
	z = (z ^ (z >> 30)) * 0xbf58476d1ce4e5b9
	z = (z ^ (z >> 27)) * 0x94d049bb133111eb
	return z ^ (z >> 31)
}
func (g *seedGen) Float64() float64      { return float64(g.next()>>11) / (1 << 53) }
func (g *seedGen) Int64N(n int64) int64  { return int64(g.next() % uint64(n)) }
func (g *seedGen) IntN(n int) int        { return int(g.next() % uint64(n)) }
func (g *seedGen) Uint32() uint32        { return uint32(g.next()) }
func (g *seedGen) Uint64() uint64        { return g.next() }
func (g *seedGen) IsThreadSafe()         {}
func (g *seedGen) Shuffle(n int, swap func(i, j int)) {
	for i := n - 1; i > 0; i-- {
		swap(i, g.IntN(i+1))
	}
}
func (g *seedGen) Read(p []byte) (int, error) {
	for i := range p {
		p[i] = byte(g.next())
	}
	return len(p), nil
}

var installSeeds sync.Once

// InstallDeterministicSeeds replaces the repository's crypto generator (epoch
// hash seeds, hash initialisation) by a reproducible one.
func InstallDeterministicSeeds() {
	installSeeds.Do(func() { random.CryptoThreadSafeGenerator = &seedGen{x: 12345} })
}

// ---- recording PersistentStateSource ------------------------------------------------

type recSource struct {
	base local.PersistentStateSource
	st   *Store
	p    *Persist
}

// forward returns a channel that is closed when ch is closed or the run stops.
func (s *recSource) forward(ch <-chan struct{}) <-chan struct{} {
	out := make(chan struct{})
	select {
	case <-ch:
		// already closed: the caller's non-blocking select must see that at once
		close(out)
		return out
	default:
	}
	go func() {
		select {
		case <-ch:
		case <-s.p.stop:
		}
		close(out)
	}()
	return out
}

func (s *recSource) GetBlockReleaseWakeup() <-chan struct{} {
	ch := s.base.GetBlockReleaseWakeup()
	s.st.Log.Emit(map[string]any{"ev": "RelFetch", "ch": fmt.Sprintf("%p", ch)})
	return s.forward(ch)
}

func (s *recSource) GetBlockPutWakeup() <-chan struct{} {
	ch := s.base.GetBlockPutWakeup()
	s.st.Log.Emit(map[string]any{"ev": "PutFetch", "ch": fmt.Sprintf("%p", ch)})
	return s.forward(ch)
}

func (s *recSource) NotifySyncStarting(isFinalSync bool) {
	s.base.NotifySyncStarting(isFinalSync)
	s.st.Log.Emit(map[string]any{"ev": "SyncStarting", "final": isFinalSync, "t": s.p.Clock.Now().Unix()})
}

func (s *recSource) NotifySyncCompleted() {
	s.base.NotifySyncCompleted()
	s.st.Log.Emit(map[string]any{"ev": "SyncCompleted"})
}

func (s *recSource) GetPersistentState() (uint32, []*pb.BlockState) {
	id, blocks := s.base.GetPersistentState()
	regions := []int{}
	woffs := []int64{}
	nseeds := []int{}
	for _, b := range blocks {
		regions = append(regions, int(b.BlockLocation.OffsetBytes/b.BlockLocation.SizeBytes))
		woffs = append(woffs, b.WriteOffsetBytes)
		nseeds = append(nseeds, len(b.EpochHashSeeds))
	}
	s.st.Log.Emit(map[string]any{"ev": "GetState", "oldestEpoch": int(id), "regions": regions, "woffs": woffs, "epochs": nseeds})
	return id, blocks
}

func (s *recSource) NotifyPersistentStateWritten() {
	s.base.NotifyPersistentStateWritten()
	s.st.Log.Emit(map[string]any{"ev": "StateWritten"})
}

type recStateStore struct {
	base local.PersistentStateStore
	st   *Store
	p    *Persist
}

func (s *recStateStore) ReadPersistentState() (*pb.PersistentState, error) {
	return s.base.ReadPersistentState()
}

func (s *recStateStore) WritePersistentState(ps *pb.PersistentState) error {
	s.st.Sched.Gate("state")
	s.st.Log.Emit(map[string]any{"ev": "StateWriteStart"})
	var err error
	if s.p.FailState.Load() > 0 {
		s.p.FailState.Add(-1)
		err = fmt.Errorf("injected state write failure")
	} else {
		err = s.base.WritePersistentState(ps)
	}
	s.st.Log.Emit(map[string]any{"ev": "StateWriteEnd", "ok": err == nil})
	return err
}

// PersistConfig are the extra parameters of a persistent store.
type PersistConfig struct {
	MinEpoch time.Duration
	CrashAt  int
}

// NewPersistent assembles a persistent local store the way
// pkg/blobstore/configuration does: state directory -> ReadPersistentState ->
// PersistentBlockList -> PeriodicSyncer -> block map, index, access.
func NewPersistent(cfg Config, log *Log, sc *sched.Sched, media *Media, pc PersistConfig) *Store {
	InstallDeterministicSeeds()
	st := &Store{Cfg: cfg, Log: log, Sched: sc, Lock: &sync.RWMutex{}}
	st.Label = fmt.Sprintf("verif%d", atomic.AddInt64(&storeCounter, 1))
	p := &Persist{Clock: sim.NewClock(), Machine: &sim.Machine{CrashAt: pc.CrashAt}, stop: make(chan struct{}),
		MinEpoch: pc.MinEpoch, RetryInterval: 10 * time.Second}
	st.P = p
	blockCount := cfg.Old + cfg.Cur + cfg.New + cfg.Spare
	if media != nil {
		st.Data = sim.NewDeviceFromImage(cfg.Sector, media.Data)
		st.Idx = sim.NewDeviceFromImage(local.BlockDeviceBackedLocationRecordSize, media.Idx)
		p.Dir = sim.NewDirFromFiles(media.Files)
	} else {
		st.Data = sim.NewDevice(cfg.Sector, cfg.BlockSectors*blockCount)
		st.Idx = sim.NewDevice(local.BlockDeviceBackedLocationRecordSize, cfg.IndexSlots)
		p.Dir = sim.NewDir()
	}
	tick := func(name string) func(op string, off int64, n int) error {
		return func(op string, off int64, n int) error {
			if op == "R" {
				if p.Machine.Crashed() {
					return sim.ErrCrashed
				}
				return nil
			}
			return p.Machine.Tick(fmt.Sprintf("%s %s %d+%d", name, op, off, n))
		}
	}
	st.Data.Hooks.Before = tick("data")
	st.Idx.Hooks.Before = tick("idx")
	p.Dir.Hook = func(op string) error { return p.Machine.Tick("dir " + op) }
	p.Machine.Trace = func(n int, what string) { log.Emit(map[string]any{"ev": "IO", "n": n, "what": what}) }
	p.Machine.OnCrash = func(n int, what string) {
		log.Emit(map[string]any{"ev": "CrashPoint", "n": n, "what": what})
		log.Mute()
	}
	p.Clock.OnTimer = func(t *sim.Timer) {
		retry := p.lastWasError.Swap(false)
		if retry {
			p.retryTimers.Store(t.ID, true)
		}
		log.Emit(map[string]any{"ev": "TimerNew", "id": t.ID, "d": int64(t.Duration / time.Second), "t": p.Clock.Now().Unix(), "retry": retry})
	}

	var base blobstore.ReadBufferFactory = blobstore.CASReadBufferFactory
	if cfg.Factory == "raw" {
		base = rawFactory{}
	}
	factory := &recFactory{base: base, log: log, st: st}
	alloc := local.NewBlockDeviceBackedBlockAllocator(st.Data, factory, cfg.Sector, int64(cfg.BlockSectors), blockCount, st.Label)
	ralloc := &recAllocator{base: alloc, log: log, st: st}

	stateStore := &recStateStore{base: local.NewDirectoryBackedPersistentStateStore(p.Dir), st: st, p: p}
	state, err := stateStore.ReadPersistentState()
	if err != nil {
		panic(err)
	}
	p.PBL, p.Restored = local.NewPersistentBlockList(ralloc, state.OldestEpochId, state.Blocks)
	log.Emit(map[string]any{"ev": "Restored", "blocks": p.Restored, "listed": len(state.Blocks), "oldestEpoch": int(state.OldestEpochId)})
	p.Source = &recSource{base: p.PBL, st: st, p: p}
	dataSyncer := func() error {
		sc.Gate("sync")
		log.Emit(map[string]any{"ev": "DataSyncStart", "t": p.Clock.Now().Unix()})
		var err error
		if p.FailSync.Load() > 0 {
			p.FailSync.Add(-1)
			err = fmt.Errorf("injected sync failure")
		} else {
			err = st.Data.Sync()
		}
		log.Emit(map[string]any{"ev": "DataSyncEnd", "ok": err == nil})
		return err
	}
	p.Syncer = local.NewPeriodicSyncer(p.Source, st.Lock, stateStore, p.Clock, syncerErrorLogger{log, p}, p.RetryInterval, p.MinEpoch,
		state.KeyLocationMapHashInitialization, dataSyncer)

	var policy local.BlockListGrowthPolicy
	if cfg.Policy == "mutable" {
		policy = local.NewMutableBlockListGrowthPolicy(cfg.Cur)
	} else {
		policy = local.NewImmutableBlockListGrowthPolicy(cfg.Cur, cfg.New)
	}
	st.LBM = local.NewOldCurrentNewLocationBlobMap(&recBlockList{BlockList: p.PBL, log: log}, policy, errorLogger{log}, st.Label, int64(cfg.BlockBytes()), cfg.Old, cfg.New, p.Restored)
	arr := local.NewBlockDeviceBackedLocationRecordArray(st.Idx, st.LBM)
	klm := &recKLM{base: local.NewHashingKeyLocationMap(arr, cfg.IndexSlots, state.KeyLocationMapHashInitialization, uint32(cfg.MaxGet), cfg.MaxPut, st.Label), log: log, st: st}
	switch cfg.Access {
	case "hier":
		st.Access = local.NewHierarchicalCASBlobAccess(klm, st.LBM, st.Lock, noCapabilities{})
	default:
		st.Access = local.NewFlatBlobAccess(klm, st.LBM, digest.KeyWithoutInstance, st.Lock, st.Label, noCapabilities{})
	}
	return st
}

// StartSyncers launches the two loops of the PeriodicSyncer as goroutines.
func (st *Store) StartSyncers() {
	p := st.P
	ctx, cancel := context.WithCancel(context.Background())
	p.Cancel = cancel
	guard := func(name string, f func()) {
		p.wg.Add(1)
		go func() {
			defer p.wg.Done()
			defer func() {
				if r := recover(); r != nil {
					if _, ok := r.(sim.CrashSentinel); !ok {
						st.Log.Emit(map[string]any{"ev": "Panic", "p": name, "msg": fmt.Sprint(r)})
					}
				}
			}()
			f()
		}()
	}
	guard("putloop", func() {
		for p.Syncer.ProcessBlockPut(ctx) {
		}
		st.Log.Emit(map[string]any{"ev": "ShutdownComplete"})
	})
	guard("relloop", func() {
		for !p.stopped.Load() {
			p.Syncer.ProcessBlockRelease()
		}
	})
}

// StopSyncers ends the syncer loops: wake-up channels are closed, timers panic
// with the crash sentinel, I/O fails.  Used after a crash and at the end of a run.
func (st *Store) StopSyncers() {
	p := st.P
	if p.stopped.Swap(true) {
		return
	}
	st.Log.Mute()
	p.Machine.CrashNow()
	p.Clock.Dead = true
	if p.Cancel != nil {
		p.Cancel()
	}
	close(p.stop)
	st.Sched.OpenAll()
	for _, t := range p.Clock.Pending() {
		p.Clock.Fire(t.ID)
	}
	p.wg.Wait()
}

// CrashMedia materialises one admissible post-crash medium.
//   dataKeep / idxKeep select the surviving unsynced sector / record writes,
//   fsOps is the number of unsynced namespace operations that reached the disk,
//   fsData tells whether un-fsynced file contents survived.
func (st *Store) CrashMedia(dataKeep, idxKeep func(i int) bool, fsOps int, fsData bool) *Media {
	return &Media{
		Data:  st.Data.CrashImage(dataKeep),
		Idx:   st.Idx.CrashImage(idxKeep),
		Files: st.P.Dir.CrashFiles(fsOps, fsData),
	}
}

// ProcessMedia is what a restarted process finds when only the process died:
// every write that was issued is there.
func (st *Store) ProcessMedia() *Media {
	return &Media{Data: st.Data.Image(), Idx: st.Idx.Image(), Files: st.P.Dir.Files()}
}
