package store

import (
	"encoding/json"
	"fmt"
	"math/rand"
	"os"
	"path/filepath"
	"strings"
	"testing"
	"testing/synctest"
	"time"

	"verif/harness/hx"
)

// ---- persistent worlds ---------------------------------------------------------------

func newPersistentWorld(cfg Config, keys map[string]KeyDef, media *Media, pc PersistConfig, log *Log) *world {
	w := newWorld(cfg, keys, true, 1, []string{"flat.Get.upgrade", "flat.GetFromComposite.refresh", "flat.FindMissing.refresh", "syncer.storeLock"}, nil)
	// newWorld built a volatile store; replace it by the persistent assembly (same scheduler and log)
	w.log = log
	w.st = NewPersistent(cfg, log, w.sc, media, pc)
	return w
}

type pRun struct {
	Seed     int64
	Cfg      Config
	Keys     map[string]KeyDef
	Ops      int
	MinEpoch time.Duration
	// ShutdownAt / StopAt: step numbers (0 = never)
	ShutdownAt int
	StopAt     int
	CrashAt    int
	Faults     bool
}

type pResult struct {
	Events   []map[string]any
	IOOps    int
	Steps    int
	Crashed  bool
	Shutdown bool
	w        *world
}

func persistentConfig(rng *rand.Rand) (Config, map[string]KeyDef) {
	sector := []int{1, 2, 4}[rng.Intn(3)]
	bsecs := 2 + rng.Intn(2)
	cfg := Config{Access: "flat", Alloc: "dev", Index: "dev", Policy: []string{"immutable", "mutable"}[rng.Intn(2)], Factory: "cas",
		Old: rng.Intn(2), Cur: rng.Intn(2), New: 1 + rng.Intn(2), Spare: 1 + rng.Intn(2),
		Sector: sector, BlockSectors: bsecs, IndexSlots: 31, MaxGet: 8, MaxPut: 16}
	bb := cfg.BlockBytes()
	keys := map[string]KeyDef{}
	nk := 4 + rng.Intn(2)
	for i := 0; i < nk; i++ {
		sz := 1 + rng.Intn(bb)
		keys[fmt.Sprintf("k%d", i)] = KeyDef{Cid: 20 + i, Size: sz}
	}
	return cfg, keys
}

// runPersistent drives one seeded cooperative schedule over a persistent store.
// It must be called inside a synctest bubble.
func runPersistent(pr pRun, media *Media) *pResult {
	rng := rand.New(rand.NewSource(pr.Seed))
	log := &Log{}
	w := newPersistentWorld(pr.Cfg, pr.Keys, media, PersistConfig{MinEpoch: pr.MinEpoch, CrashAt: pr.CrashAt}, log)
	installYield(w)
	defer installYield(nil)
	res := &pResult{w: w}
	p := w.st.P
	w.st.StartSyncers()
	w.sc.Settle()
	names := keyNames(pr.Keys)
	procs := []string{"c1", "c2"}
	started := 0
	step := 0
	for {
		if p.Machine.Crashed() {
			res.Crashed = true
			break
		}
		step++
		if pr.StopAt > 0 && step >= pr.StopAt {
			break
		}
		if pr.ShutdownAt > 0 && step == pr.ShutdownAt && !res.Shutdown {
			res.Shutdown = true
			log.Emit(map[string]any{"ev": "Shutdown"})
			p.Cancel()
			w.sc.Settle()
			continue
		}
		parked := w.sc.Parked()
		busy := map[string]bool{}
		var rel []string
		for _, l := range parked {
			parts := strings.SplitN(l, ":", 3)
			if len(parts) >= 2 {
				busy[parts[1]] = true
			}
			if releasable(l, parked) {
				rel = append(rel, l)
			}
		}
		var idle []string
		for _, q := range procs {
			if !busy[q] {
				idle = append(idle, q)
			}
		}
		timers := p.Clock.Pending()
		canStart := started < pr.Ops && len(idle) > 0
		nchoices := len(rel) + len(timers)
		if !canStart && nchoices == 0 {
			break
		}
		if canStart && (nchoices == 0 || rng.Intn(3) != 0) {
			q := idle[rng.Intn(len(idle))]
			k := names[rng.Intn(len(names))]
			var s Step
			switch r := rng.Intn(10); {
			case r < 6:
				bad := ""
				if rng.Intn(8) == 0 {
					bad = []string{"content", "short", "error"}[rng.Intn(3)]
				}
				s = Step{Do: "start", P: q, Op: "Put", K: k, Bad: bad}
			case r < 8:
				s = Step{Do: "start", P: q, Op: "Get", K: k, Hold: rng.Intn(2) == 0}
			default:
				s = Step{Do: "start", P: q, Op: "Fm", Ks: []string{k}}
			}
			log.SetCur(q)
			w.start(s)
			w.sc.Settle()
			started++
			continue
		}
		if pr.Faults && rng.Intn(12) == 0 {
			if rng.Intn(2) == 0 {
				p.FailSync.Add(1)
			} else {
				p.FailState.Add(1)
			}
		}
		c := rng.Intn(nchoices)
		if c < len(rel) {
			l := rel[c]
			if parts := strings.SplitN(l, ":", 3); len(parts) >= 2 {
				log.SetCur(parts[1])
			} else {
				log.SetCur("syncer")
			}
			w.sc.Release(l)
		} else {
			t := timers[c-len(rel)]
			log.SetCur("syncer")
			log.Emit(map[string]any{"ev": "TimerFire", "id": t.ID})
			p.Clock.Fire(t.ID)
			w.sc.Settle()
		}
	}
	res.Steps = step
	res.IOOps = p.Machine.Ops
	return res
}

// drain runs everything that can run without firing timers, then (optionally) with timers.
func drain(w *world, fireTimers bool) {
	p := w.st.P
	for i := 0; i < 10000; i++ {
		if p.Machine.Crashed() {
			return
		}
		parked := w.sc.Parked()
		var l string
		for _, q := range parked {
			if releasable(q, parked) {
				l = q
				break
			}
		}
		if l != "" {
			w.log.SetCur("drain")
			w.sc.Release(l)
			continue
		}
		if fireTimers {
			if ts := p.Clock.Pending(); len(ts) > 0 {
				w.log.Emit(map[string]any{"ev": "TimerFire", "id": ts[0].ID})
				p.Clock.Fire(ts[0].ID)
				w.sc.Settle()
				continue
			}
		}
		return
	}
	panic("drain does not terminate")
}

func (w *world) quiesceEvent(name string) {
	alloc := hx.Metric("buildbarn_blobstore_block_device_backed_block_allocator_allocations_total", map[string]string{"storage_type": w.st.Label})
	rel := hx.Metric("buildbarn_blobstore_block_device_backed_block_allocator_releases_total", map[string]string{"storage_type": w.st.Label})
	w.log.Emit(map[string]any{"ev": name, "openReaders": int(w.st.OpenReaders), "devAllocs": int(alloc), "devReleases": int(rel),
		"pendingTimers": len(w.st.P.Clock.Pending()), "pendingRetry": w.st.P.PendingRetryTimers()})
}

// verifyRestart starts a store from media, reads everything back, uploads new
// objects and reads again; returns the recorded events.
func verifyRestart(t *testing.T, pr pRun, media *Media, fresh int) []map[string]any {
	var events []map[string]any
	synctest.Test(t, func(t *testing.T) {
		log := &Log{}
		w := newPersistentWorld(pr.Cfg, pr.Keys, media, PersistConfig{MinEpoch: pr.MinEpoch}, log)
		installYield(nil)
		w.st.StartSyncers()
		w.sc.Settle()
		names := keyNames(pr.Keys)
		readAll := func() {
			for _, k := range names {
				w.log.SetCur("r1")
				w.start(Step{Do: "start", P: "r1", Op: "Fm", Ks: []string{k}})
				w.sc.Settle()
				drain(w, false)
				w.start(Step{Do: "start", P: "r1", Op: "Get", K: k})
				w.sc.Settle()
				drain(w, false)
			}
		}
		readAll()
		// uploads accepted after the restart must not damage what survived
		if fresh > 0 {
			fresh = len(names) + 2 // enough to rotate blocks and to land other contents at old offsets
		}
		for i := 0; i < fresh; i++ {
			k := names[(i*3+1)%len(names)]
			w.log.SetCur("r1")
			w.start(Step{Do: "start", P: "r1", Op: "Put", K: k})
			w.sc.Settle()
			drain(w, false)
		}
		readAll()
		drain(w, true)
		w.st.StopSyncers()
		w.finish()
		events = log.Mem
	})
	return events
}

type crashPlan struct {
	Kind     string `json:"kind"` // machine | process | graceful
	N        int    `json:"n"`
	DataKeep []int  `json:"dataKeep"`
	IdxKeep  []int  `json:"idxKeep"`
	DataLen  int    `json:"dataLen"`
	IdxLen   int    `json:"idxLen"`
	FsOps    int    `json:"fsOps"`
	FsLen    int    `json:"fsLen"`
	FsData   bool   `json:"fsData"`
}

func keepSet(n int, mode string, rng *rand.Rand) []int {
	var out []int
	for i := 0; i < n; i++ {
		switch mode {
		case "all":
			out = append(out, i)
		case "none":
		default:
			if rng.Intn(2) == 0 {
				out = append(out, i)
			}
		}
	}
	return out
}

func inSet(s []int) func(int) bool {
	m := map[int]bool{}
	for _, i := range s {
		m[i] = true
	}
	return func(i int) bool { return m[i] }
}

func emitTrace(tw *hx.Writer, id string, pr pRun, pre []map[string]any, plan crashPlan, post []map[string]any) {
	if only := os.Getenv("CRASH_ONLY"); only != "" && only != id {
		return
	}
	cfg := cfgEvent(pr.Cfg, true)
	cfg["persistent"] = true
	cfg["minEpoch"] = int64(pr.MinEpoch / time.Second)
	tw.Emit(map[string]any{"ev": "Reset", "id": id, "cfg": cfg, "keys": keyNames(pr.Keys)})
	for _, e := range pre {
		tw.Emit(e)
	}
	if plan.Kind != "" {
		tw.Emit(map[string]any{"ev": "Crash", "kind": plan.Kind, "plan": plan})
		tw.Emit(map[string]any{"ev": "Restart", "kind": plan.Kind})
		for _, e := range post {
			tw.Emit(e)
		}
	}
}

// TestCrash enumerates crash points and admissible post-crash media of seeded
// workloads (C02), graceful shutdowns and process crashes (C03), and complete
// crash-free runs driven to quiescence (C07).
func TestCrash(t *testing.T) {
	hx.DropRuntimeCollectors()
	out := os.Getenv("STORE_OUT")
	seed := int64(hx.EnvInt("VERIF_SEED", 1))
	workloads := hx.EnvInt("CRASH_WORKLOADS", 3)
	masks := hx.EnvInt("CRASH_MASKS", 6)
	maxPoints := hx.EnvInt("CRASH_MAX_POINTS", 1000)
	mode := hx.Env("CRASH_MODE", "machine") // machine | shutdown | live
	tw := hx.NewWriter(filepath.Join(out, "traces.ndjson"))
	defer tw.Close()
	stats := map[string]int{}
	for wl := 0; wl < workloads; wl++ {
		rng := rand.New(rand.NewSource(seed*99991 + int64(wl)))
		cfg, keys := persistentConfig(rng)
		pr := pRun{Seed: seed*7 + int64(wl), Cfg: cfg, Keys: keys, Ops: hx.EnvInt("CRASH_OPS_MIN", 6) + rng.Intn(5), MinEpoch: 60 * time.Second, Faults: mode == "live"}
		// reference run without a crash
		var ref *pResult
		synctest.Test(t, func(t *testing.T) {
			ref = runPersistent(pr, nil)
			if mode == "live" {
				drain(ref.w, false)
				ref.w.quiesceEvent("QuiesceNoTimer")
				drain(ref.w, true)
				ref.w.quiesceEvent("QuiescePersistent")
			}
			ref.w.st.StopSyncers()
			ref.w.finish()
			ref.Events = ref.w.log.Mem
		})
		stats["workloads"]++
		stats["io_ops"] += ref.IOOps
		id := fmt.Sprintf("crash/%d/%d", seed, wl)
		switch mode {
		case "live":
			emitTrace(tw, id+"/live", pr, ref.Events, crashPlan{}, nil)
			stats["traces"]++
		case "shutdown":
			// graceful shutdown requested at every step of the schedule; process crash at every step
			for s := 1; s <= ref.Steps && s <= maxPoints; s++ {
				for _, kind := range []string{"graceful", "process"} {
					pr2 := pr
					if kind == "graceful" {
						pr2.ShutdownAt = s
					} else {
						pr2.StopAt = s
					}
					var media *Media
					var pre []map[string]any
					synctest.Test(t, func(t *testing.T) {
						r := runPersistent(pr2, nil)
						if kind == "graceful" {
							if !r.Shutdown {
								r.w.log.Emit(map[string]any{"ev": "Shutdown"})
								r.w.st.P.Cancel()
								r.w.sc.Settle()
							}
							drain(r.w, true) // in-flight uploads and the final syncs run to completion
						}
						media = r.w.st.ProcessMedia()
						r.w.st.StopSyncers()
						r.w.finish()
						pre = r.w.log.Mem
					})
					post := verifyRestart(t, pr, media, 0)
					emitTrace(tw, fmt.Sprintf("%s/%s@%d", id, kind, s), pr, pre, crashPlan{Kind: kind, N: s}, post)
					stats["traces"]++
				}
			}
		default:
			for n := 1; n <= ref.IOOps && n <= maxPoints; n++ {
				pr2 := pr
				pr2.CrashAt = n
				var r *pResult
				var plans []crashPlan
				var medias []*Media
				var pre []map[string]any
				synctest.Test(t, func(t *testing.T) {
					r = runPersistent(pr2, nil)
					dl, il, fl := r.w.st.Data.JournalLen(), r.w.st.Idx.JournalLen(), r.w.st.P.Dir.JournalLen()
					mrng := rand.New(rand.NewSource(seed*131 + int64(wl)*977 + int64(n)))
					for m := 0; m < masks; m++ {
						modeD, modeI := "rand", "rand"
						fsOps, fsData := mrng.Intn(fl+1), mrng.Intn(2) == 0
						switch m {
						case 0:
							modeD, modeI, fsOps, fsData = "all", "all", fl, true
						case 1:
							modeD, modeI, fsOps, fsData = "none", "none", 0, false
						case 2:
							modeD, modeI = "none", "all"
						case 3:
							modeD, modeI = "all", "none"
						}
						pl := crashPlan{Kind: "machine", N: n, DataKeep: keepSet(dl, modeD, mrng), IdxKeep: keepSet(il, modeI, mrng),
							DataLen: dl, IdxLen: il, FsOps: fsOps, FsLen: fl, FsData: fsData}
						plans = append(plans, pl)
						medias = append(medias, r.w.st.CrashMedia(inSet(pl.DataKeep), inSet(pl.IdxKeep), pl.FsOps, pl.FsData))
					}
					r.w.st.StopSyncers()
					r.w.finish()
					pre = r.w.log.Mem
				})
				stats["crash_points"]++
				for m, pl := range plans {
					post := verifyRestart(t, pr, medias[m], 3)
					emitTrace(tw, fmt.Sprintf("%s/io%d/m%d", id, n, m), pr, pre, pl, post)
					stats["traces"]++
				}
			}
		}
	}
	if mode == "machine" {
		directedEpochReuse(t, tw, seed, stats)
		directedUploadDuringSync(t, tw, seed, stats)
	}
	b, _ := json.Marshal(stats)
	os.WriteFile(filepath.Join(out, "summary.json"), b, 0o644)
}

// directedEpochReuse replays the shortest counterexample TLC finds for the design mutant
// "constant_seed" of CrashEpochs.tla: an upload whose epoch was never committed is forgotten by
// a crash although its index record survives; after the restart the epoch number is used again
// by an upload that lands at the same place.  The stale record must not validate.
func directedEpochReuse(t *testing.T, tw *hx.Writer, seed int64, stats map[string]int) {
	for variant, sector := range []int{1, 2} {
		cfg := Config{Access: "flat", Alloc: "dev", Index: "dev", Policy: "immutable", Factory: "cas", Old: 0, Cur: 1, New: 1, Spare: 1,
			Sector: sector, BlockSectors: 8 / sector, IndexSlots: 31, MaxGet: 8, MaxPut: 16}
		keys := map[string]KeyDef{"k0": {Cid: 30, Size: 2}, "k1": {Cid: 31, Size: 2}, "k2": {Cid: 32, Size: 2}}
		pr := pRun{Seed: seed, Cfg: cfg, Keys: keys, MinEpoch: 60 * time.Second}
		for _, keepData := range []bool{false, true} {
			var media *Media
			var pre []map[string]any
			synctest.Test(t, func(t *testing.T) {
				log := &Log{}
				w := newPersistentWorld(cfg, keys, nil, PersistConfig{MinEpoch: pr.MinEpoch}, log)
				installYield(w)
				defer installYield(nil)
				w.st.StartSyncers()
				w.sc.Settle()
				put := func(k string) {
					w.log.SetCur("c1")
					w.start(Step{Do: "start", P: "c1", Op: "Put", K: k})
					w.sc.Settle()
					drain(w, false)
				}
				put("k0")
				drain(w, true) // the epoch of k0 is committed
				put("k1")      // a new epoch, never committed
				w.st.P.Machine.CrashNow()
				w.log.Emit(map[string]any{"ev": "CrashPoint", "n": w.st.P.Machine.Ops, "what": "directed: after an uncommitted upload"})
				w.log.Mute()
				media = w.st.CrashMedia(func(int) bool { return keepData }, func(int) bool { return true }, w.st.P.Dir.JournalLen(), true)
				w.st.StopSyncers()
				w.finish()
				pre = log.Mem
			})
			var post []map[string]any
			synctest.Test(t, func(t *testing.T) {
				log := &Log{}
				w := newPersistentWorld(cfg, keys, media, PersistConfig{MinEpoch: pr.MinEpoch}, log)
				installYield(nil)
				w.st.StartSyncers()
				w.sc.Settle()
				run := func(s Step) {
					w.log.SetCur("r1")
					w.start(s)
					w.sc.Settle()
					drain(w, false)
				}
				run(Step{Do: "start", P: "r1", Op: "Put", K: "k2"}) // reuses the forgotten epoch number and the same space
				for _, k := range []string{"k1", "k2", "k0"} {
					run(Step{Do: "start", P: "r1", Op: "Fm", Ks: []string{k}})
					run(Step{Do: "start", P: "r1", Op: "Get", K: k})
				}
				w.st.StopSyncers()
				w.finish()
				post = log.Mem
			})
			emitTrace(tw, fmt.Sprintf("crash/%d/directed-epoch-reuse/v%d-data%v", seed, variant, keepData), pr, pre,
				crashPlan{Kind: "machine", N: -1, FsData: true}, post)
			stats["traces"]++
			stats["directed"]++
		}
	}
}


// directedUploadDuringSync: an upload is finalized while a data sync is in flight (after NotifySyncStarting,
// before NotifySyncCompleted).  Its data is not covered by that sync, so the state written after the sync must
// not make its index record valid: after a crash that loses the unsynced data but keeps the index record, the
// object must be gone, not served with whatever lies at its location.
func directedUploadDuringSync(t *testing.T, tw *hx.Writer, seed int64, stats map[string]int) {
	for variant, sector := range []int{1, 2} {
		cfg := Config{Access: "flat", Alloc: "dev", Index: "dev", Policy: "immutable", Factory: "cas", Old: 0, Cur: 1, New: 1, Spare: 1,
			Sector: sector, BlockSectors: 8 / sector, IndexSlots: 31, MaxGet: 8, MaxPut: 16}
		keys := map[string]KeyDef{"k0": {Cid: 40, Size: 2}, "k1": {Cid: 41, Size: 2}, "k2": {Cid: 42, Size: 3}}
		pr := pRun{Seed: seed, Cfg: cfg, Keys: keys, MinEpoch: 60 * time.Second}
		var media *Media
		var pre []map[string]any
		synctest.Test(t, func(t *testing.T) {
			log := &Log{}
			w := newPersistentWorld(cfg, keys, nil, PersistConfig{MinEpoch: pr.MinEpoch}, log)
			installYield(w)
			defer installYield(nil)
			w.st.StartSyncers()
			w.sc.Settle()
			// release everything that is parked except the data sync itself
			drainButSync := func() {
				for i := 0; i < 1000; i++ {
					parked := w.sc.Parked()
					l := ""
					for _, q := range parked {
						if q != "sync" && releasable(q, parked) {
							l = q
							break
						}
					}
					if l == "" {
						return
					}
					w.log.SetCur("drain")
					w.sc.Release(l)
				}
			}
			put := func(k string) {
				w.log.SetCur("c1")
				w.start(Step{Do: "start", P: "c1", Op: "Put", K: k})
				w.sc.Settle()
				drainButSync()
			}
			put("k0") // wakes the syncer; once the epoch timer has expired it parks inside the data sync
			for i := 0; i < 20 && !w.sc.IsParked("sync"); i++ {
				if ts := w.st.P.Clock.Pending(); len(ts) > 0 {
					w.log.Emit(map[string]any{"ev": "TimerFire", "id": ts[0].ID})
					w.st.P.Clock.Fire(ts[0].ID)
					w.sc.Settle()
				}
				drainButSync()
			}
			inSync := w.sc.IsParked("sync")
			put("k1") // finalized while that sync is in flight
			w.log.Emit(map[string]any{"ev": "Note", "what": "directed: upload finalized during a data sync", "syncWasInFlight": inSync})
			drain(w, false) // the sync completes, the state is written; no timer fires, so no further sync
			w.st.P.Machine.CrashNow()
			w.log.Emit(map[string]any{"ev": "CrashPoint", "n": w.st.P.Machine.Ops, "what": "directed: after the commit that raced with an upload"})
			w.log.Mute()
			// unsynced data writes are lost, every index record write survives
			media = w.st.CrashMedia(func(int) bool { return false }, func(int) bool { return true }, w.st.P.Dir.JournalLen(), true)
			w.st.StopSyncers()
			w.finish()
			pre = log.Mem
		})
		var post []map[string]any
		synctest.Test(t, func(t *testing.T) {
			log := &Log{}
			w := newPersistentWorld(cfg, keys, media, PersistConfig{MinEpoch: pr.MinEpoch}, log)
			installYield(nil)
			w.st.StartSyncers()
			w.sc.Settle()
			run := func(s Step) {
				w.log.SetCur("r1")
				w.start(s)
				w.sc.Settle()
				drain(w, false)
			}
			for _, k := range []string{"k1", "k0"} {
				run(Step{Do: "start", P: "r1", Op: "Fm", Ks: []string{k}})
				run(Step{Do: "start", P: "r1", Op: "Get", K: k})
			}
			run(Step{Do: "start", P: "r1", Op: "Put", K: "k2"}) // lands where the lost upload was
			for _, k := range []string{"k1", "k2", "k0"} {
				run(Step{Do: "start", P: "r1", Op: "Fm", Ks: []string{k}})
				run(Step{Do: "start", P: "r1", Op: "Get", K: k})
			}
			w.st.StopSyncers()
			w.finish()
			post = log.Mem
		})
		emitTrace(tw, fmt.Sprintf("crash/%d/directed-upload-during-sync/v%d", seed, variant), pr, pre,
			crashPlan{Kind: "machine", N: -1, FsData: true}, post)
		stats["traces"]++
		stats["directed"]++
	}
}
