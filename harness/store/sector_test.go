package store

import (
	"encoding/json"
	"fmt"
	"github.com/buildbarn/bb-storage/pkg/blobstore"
	"io"
	"os"
	"path/filepath"
	"sync"
	"testing"
	"testing/synctest"

	"github.com/buildbarn/bb-storage/pkg/blobstore/buffer"
	"github.com/buildbarn/bb-storage/pkg/blobstore/local"

	"verif/harness/hx"
	"verif/harness/sched"
	"verif/harness/sim"
)

// TestSector replays behaviours of SectorWriter.tla on the real block-device backed block: objects are
// allocated back to back in one block, their writers run as goroutines fed chunk by chunk in the order of the
// script, and after every step the device is compared with what the writers that have returned were given.
func TestSector(t *testing.T) {
	out := os.Getenv("STORE_OUT")
	w := hx.NewWriter(filepath.Join(out, "sector.ndjson"))
	defer w.Close()
	n := 0
	hx.ReadLines(os.Getenv("STORE_SCRIPTS"), func(line []byte) {
		var sc struct {
			S     int   `json:"s"`
			Sizes []int `json:"sizes"`
			Steps []struct {
				K int `json:"k"`
				N int `json:"n"`
			} `json:"steps"`
		}
		if err := json.Unmarshal(line, &sc); err != nil {
			t.Fatal(err)
		}
		o := map[string]any{"ev": "Sector", "id": n, "s": sc.S, "sizes": sc.Sizes, "panic": ""}
		func() {
			defer func() {
				if r := recover(); r != nil {
					o["panic"] = fmt.Sprint(r)
					if _, ok := o["snaps"]; !ok {
						o["snaps"], o["offsets"], o["errors"], o["reads"] = []any{map[string]any{"flushed": []int{}, "dev": []any{}}}, []int{}, []string{}, []string{}
					}
				}
			}()
			synctest.Test(t, func(t *testing.T) {
				total := 0
				for _, s := range sc.Sizes {
					total += s
				}
				sectors := (total+sc.S-1)/sc.S + 1
				dev := sim.NewDevice(sc.S, sectors)
				alloc := local.NewBlockDeviceBackedBlockAllocator(dev, blobstore.CASReadBufferFactory, sc.S, int64(sectors), 1, fmt.Sprintf("sector%d", n))
				blk, _, err := alloc.NewBlock()
				if err != nil {
					panic(err)
				}
				sch := sched.New(true, 1)
				nobj := len(sc.Sizes)
				// the chunks each writer receives, in the order of its steps in the script
				chunks := make([][]Item, nobj)
				sent := make([]int, nobj)
				for _, st := range sc.Steps {
					if st.N > 0 {
						data := make([]byte, st.N)
						for i := range data {
							data[i] = byte(st.K*16 + sent[st.K-1] + i + 1)
						}
						sent[st.K-1] += st.N
						chunks[st.K-1] = append(chunks[st.K-1], Item{Data: data})
					}
				}
				var mu sync.Mutex
				flushed := []int{}
				offsets := make([]int, nobj)
				errs := make([]string, nobj)
				var wg sync.WaitGroup
				for k := 1; k <= nobj; k++ {
					pw := blk.Put(int64(sc.Sizes[k-1])) // allocations happen in order, under the store lock in real life
					content := make([]byte, sc.Sizes[k-1])
					for i := range content {
						content[i] = byte(k*16 + i + 1)
					}
					src := NewGatedReader(sch, fmt.Sprintf("src:%d", k), chunks[k-1])
					wg.Add(1)
					go func() {
						defer wg.Done()
						fin := pw(buffer.NewCASBufferFromReader(DigestOf("", content), src, buffer.UserProvided))
						off, err := fin()
						mu.Lock()
						flushed = append(flushed, k)
						offsets[k-1] = int(off)
						if err != nil {
							errs[k-1] = err.Error()
						}
						mu.Unlock()
					}()
				}
				sch.Settle()
				snaps := []any{}
				snap := func() {
					img := dev.Image()
					decoded := make([][2]int, len(img))
					for i, b := range img {
						decoded[i] = [2]int{int(b) / 16, int(b) % 16}
					}
					mu.Lock()
					f := append([]int{}, flushed...)
					mu.Unlock()
					snaps = append(snaps, map[string]any{"flushed": f, "dev": decoded})
				}
				snap()
				for _, st := range sc.Steps {
					if sch.Release(fmt.Sprintf("src:%d", st.K)) {
						sch.Settle()
						snap()
					}
				}
				// whatever is still parked (the validating layer probes for the end of the stream) runs to completion
				for i := 0; i < 1000; i++ {
					parked := sch.Parked()
					if len(parked) == 0 {
						break
					}
					sch.Release(parked[0])
					sch.Settle()
					snap()
				}
				wg.Wait()
				o["snaps"], o["offsets"], o["errors"] = snaps, offsets, errs
				// read every object back through the block, validated against its digest, as the store would
				reads := make([]string, nobj)
				for k := 1; k <= nobj; k++ {
					content := make([]byte, sc.Sizes[k-1])
					for i := range content {
						content[i] = byte(k*16 + i + 1)
					}
					data, err := blk.Get(DigestOf("", content), int64(offsets[k-1]), int64(sc.Sizes[k-1]), func(bool) {}).ToByteSlice(1 << 20)
					switch {
					case err != nil:
						reads[k-1] = "ERR " + err.Error()
					case string(data) != string(content):
						reads[k-1] = "WRONGDATA"
					default:
						reads[k-1] = "ok"
					}
				}
				o["reads"] = reads
				blk.Release()
			})
		}()
		w.Emit(o)
		n++
	})
	b, _ := json.Marshal(map[string]any{"scripts": n})
	os.WriteFile(filepath.Join(out, "sector_summary.json"), b, 0o644)
	_ = io.EOF
}
