package comp

import (
	"context"
	"encoding/json"
	"fmt"
	"os"
	"path/filepath"
	"sort"
	"strings"
	"testing"

	"github.com/buildbarn/bb-storage/pkg/blobstore"
	"github.com/buildbarn/bb-storage/pkg/blobstore/buffer"
	"github.com/buildbarn/bb-storage/pkg/blobstore/mirrored"
	"github.com/buildbarn/bb-storage/pkg/blobstore/replication"
	"google.golang.org/grpc/codes"
	"google.golang.org/grpc/status"

	"verif/harness/hx"
)

type mirrorStep struct {
	Op    string   `json:"op"`
	Objs  []string `json:"objs"`
	PlanA []string `json:"planA"`
	PlanB []string `json:"planB"`
	A0    []string `json:"a0"`
	B0    []string `json:"b0"`
	// design expectation
	Res     string   `json:"res"`
	Code    string   `json:"code"`
	A1      []string `json:"a1"`
	B1      []string `json:"b1"`
	Missing []string `json:"missing"`
	First   string   `json:"first"`
}

var firstDrifts []any

func sorted(xs []string) []string {
	out := append([]string{}, xs...)
	sort.Strings(out)
	return out
}

func named(msg string) []string {
	out := []string{}
	if strings.Contains(msg, "Backend A") || strings.Contains(msg, "backend A") {
		out = append(out, "A")
	}
	if strings.Contains(msg, "Backend B") || strings.Contains(msg, "backend B") {
		out = append(out, "B")
	}
	if strings.Contains(msg, "Replication failed") {
		out = append(out, "repl")
	}
	if strings.Contains(msg, "synchroniz") {
		out = append(out, "sync")
	}
	return out
}

func replicatorFor(kind string, source, sink blobstore.BlobAccess) replication.BlobReplicator {
	switch kind {
	case "noop":
		return replication.NewNoopBlobReplicator(source)
	default:
		return replication.NewLocalBlobReplicator(source, sink)
	}
}

// runMirrorScript executes a sequence of operations of Mirrored.tla on the real
// composite over two model replicas.
func runMirrorScript(id string, variant int, repl string, steps []mirrorStep, w *hx.Writer) (drift int, compared int) {
	u := NewUniverse([]string{"p", "q", "r"})
	log := &CallLog{}
	a := NewModelBackend("A", u, log)
	b := NewModelBackend("B", u, log)
	// what kind of buffer the replicas hand out and how the caller consumes it varies per script
	a.Stream = []string{"", "reader", "chunks"}[variant%3]
	b.Stream = []string{"", "reader", "chunks"}[(variant/3)%3]
	if len(steps) > 0 {
		for _, n := range steps[0].A0 {
			a.Store(n, "")
		}
		for _, n := range steps[0].B0 {
			b.Store(n, "")
		}
	}
	m := mirrored.NewMirroredBlobAccess(a, b, replicatorFor(repl, a, b), replicatorFor(repl, b, a))
	ctx := context.Background()
	gets := 0
	comparing := true
	for i, st := range steps {
		a.mu.Lock()
		a.Plan, a.ncall = st.PlanA, 0
		a.mu.Unlock()
		b.mu.Lock()
		b.Plan, b.ncall = st.PlanB, 0
		b.mu.Unlock()
		a0, b0 := a.Contents(), b.Contents()
		mark := len(log.Snapshot())
		o := map[string]any{"ev": "Mirror", "id": fmt.Sprintf("%s/%d", id, i), "op": st.Op, "objs": st.Objs, "repl": repl, "a0": a0, "b0": b0,
			"missing": []string{}, "panic": "", "first": "-"}
		var err error
		func() {
			defer func() {
				if r := recover(); r != nil {
					o["panic"] = fmt.Sprint(r)
				}
			}()
			switch st.Op {
			case "Get":
				gets++
				var data []byte
				if (variant/27)%2 == 1 {
					// the same read through the composite path: the child is the whole parent
					d := u.Digest(st.Objs[0], "")
					data, err = Consume(m.GetFromComposite(ctx, d, d, identitySlicer{}), variant/9)
				} else {
					data, err = Consume(m.Get(ctx, u.Digest(st.Objs[0], "")), variant/9)
				}
				// the replica consulted first is the one that received the first call of this read
				for _, c := range log.Snapshot()[mark:] {
					if c.Op == "Get" || c.Op == "GetFromComposite" {
						o["first"] = c.Backend
						break
					}
				}
				if err == nil {
					if string(data) == string(u.Data(st.Objs[0])) {
						o["res"] = "Data"
					} else {
						o["res"] = "WRONGDATA"
					}
				}
			case "Put":
				d := u.Digest(st.Objs[0], "")
				err = m.Put(ctx, d, buffer.NewCASBufferFromByteSlice(d, u.Data(st.Objs[0]), buffer.UserProvided))
				if err == nil {
					o["res"] = "OK"
				}
			case "Fm":
				missing, e := m.FindMissing(ctx, u.Set(st.Objs, ""))
				err = e
				if err == nil {
					o["res"] = "OK"
					o["missing"] = u.Names(missing)
				}
			}
		}()
		o["code"] = status.Code(err).String()
		o["named"] = []string{}
		if err != nil {
			o["res"] = "ERR"
			o["msg"] = err.Error()
			o["named"] = named(err.Error())
		}
		failed := map[string]bool{}
		calls := log.Snapshot()[mark:]
		for _, c := range calls {
			if c.Failed {
				failed[c.Backend] = true
			}
		}
		fl := []string{}
		for k := range failed {
			fl = append(fl, k)
		}
		o["failed"] = sorted(fl)
		// replicas whose failing call was the operation's own call (not a copy made to repair / synchronise)
		direct := []string{}
		for _, c := range calls {
			own := map[string]bool{"Get": c.Op == "Get" || c.Op == "GetFromComposite", "Put": c.Op == "Put", "Fm": c.Op == "FindMissing"}[st.Op]
			if c.Failed && own {
				direct = append(direct, c.Backend)
			}
		}
		o["directFailed"] = sorted(direct)
		o["a1"], o["b1"] = a.Contents(), b.Contents()
		o["calls"] = calls
		if o["panic"] != "" {
			o["res"], o["code"] = "PANIC", "PANIC"
		}
		w.Emit(o)
		if st.Res != "" && comparing {
			compared++
			if st.Res == "ERR" && (st.Op == "Fm" || st.Op == "Put") {
				// the parallel branches may have got further than the design says: the rest of the
				// script starts from a different placement and is not compared any more
				comparing = false
			}
			same := o["res"] == st.Res && (st.Res != "ERR" || o["code"] == st.Code)
			if st.Res != "ERR" { // after a failed synchronisation the design does not say how far the copying got
				same = same && strings.Join(a.Contents(), ",") == strings.Join(sorted(st.A1), ",") && strings.Join(b.Contents(), ",") == strings.Join(sorted(st.B1), ",") &&
					strings.Join(o["missing"].([]string), ",") == strings.Join(sorted(st.Missing), ",")
			}
			if !same {
				drift++
				if len(firstDrifts) < 5 {
					firstDrifts = append(firstDrifts, map[string]any{"id": o["id"], "expected": st, "got": o})
				}
			}
		}
	}
	return
}

// TestMirror replays the behaviours of Mirrored.tla.
func TestMirror(t *testing.T) {
	out := os.Getenv("COMP_OUT")
	w := hx.NewWriter(filepath.Join(out, "mirror.ndjson"))
	defer w.Close()
	n, drift, compared := 0, 0, 0
	hx.ReadLines(os.Getenv("COMP_SCRIPTS"), func(line []byte) {
		var sc struct {
			ID    string       `json:"id"`
			Repl  string       `json:"repl"`
			Steps []mirrorStep `json:"steps"`
		}
		if err := json.Unmarshal(line, &sc); err != nil {
			t.Fatal(err)
		}
		d, c := runMirrorScript(sc.ID, n, sc.Repl, sc.Steps, w)
		drift += d
		compared += c
		n++
	})
	b, _ := json.Marshal(map[string]any{"scripts": n, "compared": compared, "drift": drift, "first_drifts": firstDrifts})
	os.WriteFile(filepath.Join(out, "mirror_summary.json"), b, 0o644)
	_ = codes.OK
}
