package comp

import (
	"context"
	"encoding/json"
	"fmt"
	"os"
	"path/filepath"
	"sort"
	"testing"

	"github.com/buildbarn/bb-storage/pkg/auth"
	"github.com/buildbarn/bb-storage/pkg/blobstore"
	"github.com/buildbarn/bb-storage/pkg/blobstore/buffer"
	"github.com/buildbarn/bb-storage/pkg/digest"
	"google.golang.org/grpc/codes"
	"google.golang.org/grpc/status"

	"verif/harness/hx"
)

type authTree struct {
	Kind    string            `json:"kind"`
	Tab     map[string]string `json:"tab"`
	Members []authTree        `json:"members"`
}

type authCase struct {
	Op    string   `json:"op"`
	Names []string `json:"names"`
	Tree  authTree `json:"tree"`
}

type tableAuthorizer struct{ tab map[string]string }

func (a tableAuthorizer) Authorize(ctx context.Context, instanceNames []digest.InstanceName) []error {
	errs := make([]error, 0, len(instanceNames))
	for _, n := range instanceNames {
		switch a.tab[n.String()] {
		case "allow":
			errs = append(errs, nil)
		case "err":
			errs = append(errs, status.Error(codes.Internal, "authorizer unavailable"))
		default:
			errs = append(errs, status.Error(codes.PermissionDenied, "Permission denied"))
		}
	}
	return errs
}

func buildAuthorizer(t authTree) auth.Authorizer {
	if t.Kind == "leaf" {
		// pure allow/deny tables also exercise the repository's static authorizer
		static := true
		for _, v := range t.Tab {
			if v == "err" {
				static = false
			}
		}
		if static {
			tab := t.Tab
			return auth.NewStaticAuthorizer(func(n digest.InstanceName) bool { return tab[n.String()] == "allow" })
		}
		return tableAuthorizer{tab: t.Tab}
	}
	var ms []auth.Authorizer
	for _, m := range t.Members {
		ms = append(ms, buildAuthorizer(m))
	}
	return auth.NewAnyAuthorizer(ms)
}

var denyAll = auth.NewStaticAuthorizer(func(digest.InstanceName) bool { return false })

// TestAuth replays the cases of Authorizing.tla: the authorizer under test
// guards the operation kind of the case; the other two kinds are guarded by a
// deny-all authorizer, so that consulting the wrong authorizer shows.
func TestAuth(t *testing.T) {
	out := os.Getenv("COMP_OUT")
	w := hx.NewWriter(filepath.Join(out, "auth.ndjson"))
	defer w.Close()
	n := 0
	hx.ReadLines(os.Getenv("COMP_CASES"), func(line []byte) {
		var c authCase
		if err := json.Unmarshal(line, &c); err != nil {
			t.Fatal(err)
		}
		sort.Strings(c.Names)
		u := NewUniverse([]string{"p", "q"})
		log := &CallLog{}
		be := NewModelBackend("X", u, log)
		be.InstanceAware = true
		for _, inst := range []string{"a", "b"} {
			be.Store("p", inst)
			be.Store("q", inst)
		}
		a := buildAuthorizer(c.Tree)
		getA, putA, fmA := denyAll, denyAll, denyAll
		switch c.Op {
		case "Get", "Comp":
			getA = a
		case "Put":
			putA = a
		case "Fm":
			fmA = a
		}
		var ba blobstore.BlobAccess = blobstore.NewAuthorizingBlobAccess(be, getA, putA, fmA)
		ctx := context.Background()
		var err error
		srcClosed := 0
		panicked := ""
		func() {
			defer func() {
				if r := recover(); r != nil {
					panicked = fmt.Sprint(r)
				}
			}()
			switch c.Op {
			case "Get":
				_, err = ba.Get(ctx, u.Digest("p", c.Names[0])).ToByteSlice(1 << 20)
			case "Comp":
				d := u.Digest("p", c.Names[0])
				_, err = ba.GetFromComposite(ctx, d, d, identitySlicer{}).ToByteSlice(1 << 20)
			case "Put":
				d := u.Digest("q", c.Names[0])
				src := &countingReader{data: u.Data("q")}
				err = ba.Put(ctx, d, buffer.NewCASBufferFromReader(d, src, buffer.UserProvided))
				srcClosed = src.closed
			case "Fm":
				sb := digest.NewSetBuilder(0)
				for i, inst := range c.Names {
					sb.Add(u.Digest([]string{"p", "q"}[i%2], inst))
				}
				_, err = ba.FindMissing(ctx, sb.Build())
			}
		}()
		names := c.Names
		if names == nil {
			names = []string{}
		}
		o := map[string]any{"ev": "Auth", "op": c.Op, "names": names, "tree": c.Tree, "code": status.Code(err).String(),
			"backendCalls": len(log.Snapshot()), "srcClosed": srcClosed, "res": "OK"}
		if err != nil {
			o["res"], o["msg"] = "ERR", err.Error()
		}
		if panicked != "" {
			o["res"], o["msg"] = "PANIC", panicked
		}
		w.Emit(o)
		n++
	})
	b, _ := json.Marshal(map[string]any{"cases": n})
	os.WriteFile(filepath.Join(out, "auth_summary.json"), b, 0o644)
}
