package comp

import (
	"encoding/json"
	"fmt"
	"math/rand"
	"os"
	"path/filepath"
	"testing"

	"github.com/buildbarn/bb-storage/pkg/eviction"

	"verif/harness/hx"
)

// TestEviction executes the operation sequences of Eviction.tla on the real replacement sets. After every
// step it peeks, and (seeded) sometimes removes what it peeked, as a cache that is over capacity would.
func TestEviction(t *testing.T) {
	out := os.Getenv("COMP_OUT")
	w := hx.NewWriter(filepath.Join(out, "eviction.ndjson"))
	defer w.Close()
	rng := rand.New(rand.NewSource(int64(hx.EnvInt("VERIF_SEED", 1))))
	n := 0
	hx.ReadLines(os.Getenv("COMP_CASES"), func(line []byte) {
		var c struct {
			Ops []struct {
				Op string `json:"op"`
				X  string `json:"x"`
			} `json:"ops"`
		}
		if err := json.Unmarshal(line, &c); err != nil {
			t.Fatal(err)
		}
		for _, policy := range []string{"LRU", "FIFO", "RR"} {
			var s eviction.Set[string]
			switch policy {
			case "LRU":
				s = eviction.NewLRUSet[string]()
			case "FIFO":
				s = eviction.NewFIFOSet[string]()
			default:
				s = eviction.NewRRSet[string]()
			}
			o := map[string]any{"policy": policy, "panic": "", "id": n}
			steps := []any{}
			present := map[string]bool{}
			func() {
				defer func() {
					if r := recover(); r != nil {
						o["panic"] = fmt.Sprint(r)
					}
				}()
				for _, op := range c.Ops {
					if op.Op == "insert" {
						if present[op.X] {
							return // the model's sequence assumed an element that this run already removed
						}
						s.Insert(op.X)
						present[op.X] = true
					} else {
						if !present[op.X] {
							return
						}
						s.Touch(op.X)
					}
					st := map[string]any{"op": op.Op, "x": op.X, "peek": "", "removed": false}
					if len(present) > 0 {
						p := s.Peek()
						st["peek"] = p
						if rng.Intn(3) == 0 {
							s.Remove()
							delete(present, p)
							st["removed"] = true
						}
					}
					steps = append(steps, st)
				}
			}()
			o["steps"] = steps
			w.Emit(o)
		}
		n++
	})
}
