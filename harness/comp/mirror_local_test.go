package comp

import (
	"context"
	"fmt"
	"github.com/buildbarn/bb-storage/pkg/blobstore"
	"os"
	"path/filepath"
	"testing"

	"github.com/buildbarn/bb-storage/pkg/blobstore/buffer"
	"github.com/buildbarn/bb-storage/pkg/blobstore/mirrored"
	"github.com/buildbarn/bb-storage/pkg/blobstore/replication"
	"github.com/buildbarn/bb-storage/pkg/digest"
	"google.golang.org/grpc/status"

	"verif/harness/hx"
	"verif/harness/sched"
	"verif/harness/store"
)

// TestMirrorLocalStores mirrors two *real* local stores.  The object to be
// repaired lives in an "old" block of the replica that has it, so that
// replica's Get returns a buffer whose refresh is still in progress; the local
// replicator stream-clones that buffer into the other replica's Put.
func TestMirrorLocalStores(t *testing.T) {
	out := os.Getenv("COMP_OUT")
	w := hx.NewWriter(filepath.Join(out, "mirror_local.ndjson"))
	defer w.Close()
	for variant, alloc := range []string{"dev", "mem"} {
		cfg := store.Config{Access: "flat", Alloc: alloc, Index: "mem", Policy: "immutable", Factory: "cas", Old: 1, Cur: 1, New: 1, Spare: 2,
			Sector: 1, BlockSectors: 8, IndexSlots: 61, MaxGet: 8, MaxPut: 16}
		sc := sched.New(false, 1)
		la, lb := &store.Log{}, &store.Log{}
		sa, sb := store.New(cfg, la, sc), store.New(cfg, lb, sc)
		ctx := context.Background()
		content := func(i int) []byte { return store.Content(40+i, 4) }
		dg := func(i int) digest.Digest { return store.DigestOf("", content(i)) }
		put := func(s *store.Store, i int) error {
			return s.Access.Put(ctx, dg(i), buffer.NewCASBufferFromByteSlice(dg(i), content(i), buffer.UserProvided))
		}
		has := func(s *store.Store, i int) bool {
			missing, err := s.Access.FindMissing(ctx, dg(i).ToSingletonSet())
			return err == nil && missing.Length() == 0
		}
		// object 0 only in A; then fill A until object 0 sits in an old block
		if err := put(sa, 0); err != nil {
			t.Fatal(err)
		}
		for i := 1; i <= 4; i++ {
			if err := put(sa, i); err != nil {
				t.Fatal(err)
			}
			if err := put(sb, i); err != nil {
				t.Fatal(err)
			}
		}
		var order []string
		ra, rb := &getRecorder{BlobAccess: sa.Access, name: "A", order: &order}, &getRecorder{BlobAccess: sb.Access, name: "B", order: &order}
		m := mirrored.NewMirroredBlobAccess(ra, rb, replication.NewLocalBlobReplicator(sa.Access, sb.Access), replication.NewLocalBlobReplicator(sb.Access, sa.Access))
		names := func(s *store.Store) []string {
			// contents are probed with Get on a scratch basis: FindMissing would refresh; good enough for "has object 0"
			o := []string{}
			if has(s, 0) {
				o = append(o, "p")
			}
			return o
		}
		for round := range []int{0, 1} {
			a0, b0 := names(sa), names(sb)
			first := "-"
			order = nil
			o := map[string]any{"ev": "Mirror", "id": fmt.Sprintf("local/%d/%s", variant, first), "op": "Get", "objs": []string{"p"}, "repl": "local", "first": first,
				"a0": a0, "b0": b0, "missing": []string{}, "panic": "", "failed": []string{}, "named": []string{}, "lossy": true}
			var err error
			func() {
				defer func() {
					if r := recover(); r != nil {
						o["panic"] = fmt.Sprint(r)
					}
				}()
				var data []byte
				data, err = m.Get(ctx, dg(0)).ToByteSlice(1 << 20)
				if len(order) > 0 {
					first = order[0] // the replica that was consulted first
				}
				o["first"] = first
				o["id"] = fmt.Sprintf("local/%d/%d-%s", variant, round, first)
				if err == nil {
					if string(data) == string(content(0)) {
						o["res"] = "Data"
					} else {
						o["res"] = "WRONGDATA"
					}
				}
			}()
			o["code"] = status.Code(err).String()
			if err != nil {
				o["res"], o["msg"] = "ERR", err.Error()
			}
			if o["panic"] != "" {
				o["res"], o["code"] = "PANIC", "PANIC"
			}
			o["a1"], o["b1"] = names(sa), names(sb)
			w.Emit(o)
			_ = round
		}
	}
}

// getRecorder notes the order in which replicas are consulted.
type getRecorder struct {
	blobstore.BlobAccess
	name  string
	order *[]string
}

func (r *getRecorder) Get(ctx context.Context, d digest.Digest) buffer.Buffer {
	*r.order = append(*r.order, r.name)
	return r.BlobAccess.Get(ctx, d)
}
