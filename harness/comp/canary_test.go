package comp

import (
	"context"
	"fmt"
	"io"
	"math/rand"
	"os"
	"path/filepath"
	"sync"
	"testing"
	"time"

	remoteexecution "github.com/bazelbuild/remote-apis/build/bazel/remote/execution/v2"
	"github.com/buildbarn/bb-storage/pkg/blobstore"
	"github.com/buildbarn/bb-storage/pkg/blobstore/buffer"
	"github.com/buildbarn/bb-storage/pkg/blobstore/slicing"
	"github.com/buildbarn/bb-storage/pkg/digest"
	"github.com/buildbarn/bb-storage/pkg/eviction"
	"google.golang.org/grpc/codes"
	"google.golang.org/grpc/status"

	"verif/harness/hx"
	"verif/harness/sim"
)

// ---- beyond the listed properties: readCanaryingBlobAccess ---------------------------------------
//
// Seeded random single-threaded schedules of three steps per read, mirroring ReadCanary.tla:
// Decide (Get() is called and returns a buffer), Answer (the buffer is consumed: a replica answers when it is
// consumed, healthy or not at that moment), interleaved over several clients, with clock ticks and health flips.

type canaryBackend struct {
	mu      sync.Mutex
	name    string
	healthy *bool
	calls   *[]string
	has     map[string]bool
}

type lazyReader struct {
	be   *canaryBackend
	data []byte
	done bool
}

func (r *lazyReader) Read(p []byte) (int, error) {
	if r.done {
		return 0, io.EOF
	}
	r.done = true
	if r.be.healthy != nil && !*r.be.healthy {
		return 0, status.Error(codes.Unavailable, "replica is down")
	}
	return copy(p, r.data), io.EOF
}
func (r *lazyReader) Close() error { return nil }

func (b *canaryBackend) Get(ctx context.Context, d digest.Digest) buffer.Buffer {
	*b.calls = append(*b.calls, b.name)
	if !b.has[d.GetHashString()] {
		return buffer.NewBufferFromError(status.Error(codes.NotFound, "Object not found"))
	}
	return buffer.NewCASBufferFromReader(d, &lazyReader{be: b, data: []byte("x")}, buffer.BackendProvided(buffer.Irreparable(d)))
}
func (b *canaryBackend) GetFromComposite(ctx context.Context, p, c digest.Digest, s slicing.BlobSlicer) buffer.Buffer {
	panic("unused")
}
func (b *canaryBackend) Put(ctx context.Context, d digest.Digest, buf buffer.Buffer) error {
	buf.Discard()
	return nil
}
func (b *canaryBackend) FindMissing(ctx context.Context, ds digest.Set) (digest.Set, error) {
	return digest.EmptySet, nil
}
func (b *canaryBackend) GetCapabilities(ctx context.Context, i digest.InstanceName) (*remoteexecution.ServerCapabilities, error) {
	panic("unused")
}

type nullLogger struct{}

func (nullLogger) Log(err error) {}

func TestCanary(t *testing.T) {
	out := os.Getenv("COMP_OUT")
	w := hx.NewWriter(filepath.Join(out, "canary.ndjson"))
	defer w.Close()
	seed := int64(hx.EnvInt("VERIF_SEED", 1))
	runs := hx.EnvInt("COMP_RUNS", 300)
	for r := 0; r < runs; r++ {
		rng := rand.New(rand.NewSource(seed*6151 + int64(r)))
		duration := 1 + rng.Intn(3)
		maxSize := rng.Intn(3)
		w.Emit(map[string]any{"ev": "Reset", "id": fmt.Sprint(r), "duration": duration, "maxSize": maxSize})
		healthy := rng.Intn(2) == 0
		var calls []string
		dg := func(name string) digest.Digest {
			return digest.MustNewDigest(name, remoteexecution.DigestFunction_SHA256, "2d711642b726b04401627ca9fbac32f5c8530fb1903cc4db02258717921a4881", 1)
		}
		has := map[string]bool{dg("").GetHashString(): true}
		source := &canaryBackend{name: "source", calls: &calls, has: has}
		replica := &canaryBackend{name: "replica", calls: &calls, has: has, healthy: &healthy}
		clk := sim.NewClock()
		var ba blobstore.BlobAccess
		func() {
			defer func() {
				if rec := recover(); rec != nil {
					w.Emit(map[string]any{"ev": "Panic", "msg": fmt.Sprint(rec)})
				}
			}()
			ba = blobstore.NewReadCanaryingBlobAccess(source, replica, clk, eviction.NewLRUSet[string](), maxSize, time.Duration(duration)*time.Second, nullLogger{})
			now := 0
			type pending struct {
				b    buffer.Buffer
				name string
				to   string
			}
			inflight := map[string]*pending{}
			clients := []string{"c1", "c2", "c3"}
			names := []string{"n1", "n2", "n3", "n4"}
			for step := 0; step < 40; step++ {
				switch k := rng.Intn(10); {
				case k < 4: // a client that is idle starts a read
					c := clients[rng.Intn(len(clients))]
					if inflight[c] != nil {
						continue
					}
					n := names[rng.Intn(len(names))]
					mark := len(calls)
					b := ba.Get(context.Background(), dg(n))
					to := "source"
					if len(calls) > mark && calls[mark] == "replica" {
						to = "replica"
					}
					inflight[c] = &pending{b: b, name: n, to: to}
					w.Emit(map[string]any{"ev": "Decide", "c": c, "name": n, "to": to, "t": now})
				case k < 8: // a pending read is consumed
					c := clients[rng.Intn(len(clients))]
					p := inflight[c]
					if p == nil {
						continue
					}
					delete(inflight, c)
					h := healthy
					_, err := p.b.ToByteSlice(10)
					if p.to == "replica" {
						w.Emit(map[string]any{"ev": "Answer", "c": c, "name": p.name, "infra": !h, "t": now})
					}
					w.Emit(map[string]any{"ev": "Finish", "c": c, "ok": err == nil, "sourceHas": true, "msg": fmt.Sprint(err)})
				case k < 9:
					clk.Advance(time.Second)
					now++
				default:
					healthy = !healthy
				}
			}
			for c, p := range inflight {
				h := healthy
				_, err := p.b.ToByteSlice(10)
				if p.to == "replica" {
					w.Emit(map[string]any{"ev": "Answer", "c": c, "name": p.name, "infra": !h, "t": now})
				}
				w.Emit(map[string]any{"ev": "Finish", "c": c, "ok": err == nil, "sourceHas": true, "msg": fmt.Sprint(err)})
			}
		}()
	}
}
