package comp

import (
	"context"
	"crypto/sha256"
	"encoding/binary"
	"encoding/hex"
	"encoding/json"
	"fmt"
	"math"
	"math/rand"
	"os"
	"path/filepath"
	"sort"
	"strings"
	"sync"
	"testing"

	remoteexecution "github.com/bazelbuild/remote-apis/build/bazel/remote/execution/v2"
	"github.com/buildbarn/bb-storage/pkg/blobstore/buffer"
	"github.com/buildbarn/bb-storage/pkg/blobstore/sharding"
	"github.com/buildbarn/bb-storage/pkg/blobstore/slicing"
	"github.com/buildbarn/bb-storage/pkg/digest"
	"google.golang.org/grpc/codes"
	"google.golang.org/grpc/status"

	"verif/harness/hx"
)

// ---- C12 (a): the shard selector -------------------------------------------------------------

func keyHash(key string) uint64 {
	h := sha256.Sum256([]byte(key))
	return binary.BigEndian.Uint64(h[:8])
}

// inverse of the splitmix64 finaliser used by the selector, so that hashes can be crafted that make
// the mixed value (the argument of the fixed-point logarithm) hit chosen numbers
func unxorshift(x uint64, s uint) uint64 {
	r := x
	for i := s; i < 64; i += s {
		r = x ^ (r >> s)
	}
	return r
}

func invSplitmix64(x uint64) uint64 {
	x = unxorshift(x, 31)
	x *= 0x319642b2d24d8ec3 // inverse of 0x94d049bb133111eb mod 2^64
	x = unxorshift(x, 27)
	x *= 0x96de1b173f119089 // inverse of 0xbf58476d1ce4e5b9 mod 2^64
	x = unxorshift(x, 30)
	return x
}

func splitmix64(x uint64) uint64 {
	x ^= x >> 30
	x *= 0xbf58476d1ce4e5b9
	x ^= x >> 27
	x *= 0x94d049bb133111eb
	x ^= x >> 31
	return x
}

func edgeValues(rng *rand.Rand) []uint64 {
	xs := []uint64{0, 1, 2, 3, math.MaxUint64, math.MaxUint64 - 1, 1 << 63, 1<<63 - 1, 1<<63 + 1, 1 << 32, 1<<32 - 1}
	for k := uint(1); k < 64; k += uint(1 + rng.Intn(6)) {
		xs = append(xs, 1<<k, 1<<k-1, 1<<k+1)
		// boundaries of the 64-entry lookup table below the leading bit
		if k >= 7 {
			idx := uint64(rng.Intn(64))
			xs = append(xs, 1<<k|idx<<(k-6), (1<<k|idx<<(k-6))-1, 1<<k|idx<<(k-6)|(1<<(k-6)-1))
		}
	}
	return xs
}

func chosenKey(shards []sharding.Shard, h uint64) (key string, pan string) {
	defer func() {
		if r := recover(); r != nil {
			pan = fmt.Sprint(r)
		}
	}()
	sel, err := sharding.NewRendezvousShardSelector(shards)
	if err != nil {
		return "", "constructor: " + err.Error()
	}
	i := sel.GetShard(h)
	if i < 0 || i >= len(shards) {
		return "", fmt.Sprintf("index %d out of range", i)
	}
	return shards[i].Key, ""
}

func randomKey(rng *rand.Rand, used map[string]bool) string {
	for {
		var k string
		switch rng.Intn(4) {
		case 0:
			k = fmt.Sprintf("shard-%d", rng.Intn(1000))
		case 1:
			b := make([]byte, 1+rng.Intn(6))
			rng.Read(b)
			k = string(b)
		case 2:
			k = strings.Repeat("a", 1+rng.Intn(4))
		default:
			k = fmt.Sprintf("%d", rng.Intn(10))
		}
		if !used[k] {
			used[k] = true
			return k
		}
	}
}

func randomWeight(rng *rand.Rand) uint32 {
	switch rng.Intn(6) {
	case 0:
		return 1
	case 1:
		return math.MaxUint32
	case 2:
		return uint32(1 + rng.Intn(4))
	case 3:
		return math.MaxUint32 - uint32(rng.Intn(3))
	default:
		return 1 + uint32(rng.Int63n(math.MaxUint32))
	}
}

func TestSelector(t *testing.T) {
	out := os.Getenv("COMP_OUT")
	w := hx.NewWriter(filepath.Join(out, "selector.ndjson"))
	defer w.Close()
	seed := int64(hx.EnvInt("VERIF_SEED", 1))
	rng := rand.New(rand.NewSource(seed*31337 + 5))
	maps := hx.EnvInt("COMP_RUNS", 300)
	n, ties := 0, 0
	for m := 0; m < maps; m++ {
		used := map[string]bool{}
		nshards := 1 + rng.Intn(6)
		shards := make([]sharding.Shard, nshards)
		keys := []string{}
		for i := range shards {
			shards[i] = sharding.Shard{Key: randomKey(rng, used), Weight: randomWeight(rng)}
			keys = append(keys, hex.EncodeToString([]byte(shards[i].Key)))
		}
		if rng.Intn(4) == 0 { // equal weights everywhere
			for i := range shards {
				shards[i].Weight = shards[0].Weight
			}
		}
		hashes := []uint64{0, math.MaxUint64, rng.Uint64(), rng.Uint64(), rng.Uint64()}
		for _, x := range edgeValues(rng) {
			// make shard s's mixed value equal to x
			s := shards[rng.Intn(nshards)]
			hashes = append(hashes, keyHash(s.Key)^invSplitmix64(x))
		}
		// hunt for hashes at which the two best shards have EQUAL scores (the harness's own copy of the score
		// formula only steers the search; verdicts never depend on it): ties are where listing order could leak
		if nshards > 1 && m%2 == 0 {
			ws := uint32(1 + rng.Intn(3))
			for i := range shards {
				shards[i].Weight = ws
			}
			found := 0
			for tries := 0; tries < 200000 && found < 6; tries++ {
				h := rng.Uint64()
				var s1, s2 uint64
				for _, s := range shards {
					sc := (uint64(s.Weight) << 32) / (uint64(64)<<16 - sharding.Log2Fixed(splitmix64(keyHash(s.Key)^h)))
					if sc > s1 {
						s1, s2 = sc, s1
					} else if sc > s2 {
						s2 = sc
					}
				}
				if s1 == s2 {
					hashes = append(hashes, h)
					found++
					ties++
				}
			}
		}
		for _, h := range hashes {
			o := map[string]any{"ev": "Selector", "id": fmt.Sprintf("%d/%x", m, h), "keys": keys, "panic": "", "hash": fmt.Sprintf("%016x", h)}
			weights := []uint32{}
			for _, s := range shards {
				weights = append(weights, s.Weight)
			}
			o["weights"] = weights
			pan := ""
			note := func(p string) {
				if p != "" && pan == "" {
					pan = p
				}
			}
			hexk := func(k string) string { return hex.EncodeToString([]byte(k)) }
			base, p := chosenKey(shards, h)
			note(p)
			o["base"] = hexk(base)
			again := []string{}
			for i := 0; i < 2; i++ {
				k, p := chosenKey(shards, h)
				note(p)
				again = append(again, hexk(k))
			}
			o["again"] = again
			perms := []string{}
			for i := 0; i < 4 && nshards > 1; i++ {
				ps := append([]sharding.Shard{}, shards...)
				if i == 0 {
					for a, b := 0, len(ps)-1; a < b; a, b = a+1, b-1 {
						ps[a], ps[b] = ps[b], ps[a]
					}
				} else {
					rng.Shuffle(len(ps), func(a, b int) { ps[a], ps[b] = ps[b], ps[a] })
				}
				k, p := chosenKey(ps, h)
				note(p)
				perms = append(perms, hexk(k))
			}
			o["perms"] = perms
			removals := []any{}
			for i := 0; i < nshards && nshards > 1; i++ {
				rs := append(append([]sharding.Shard{}, shards[:i]...), shards[i+1:]...)
				if rng.Intn(2) == 0 {
					rng.Shuffle(len(rs), func(a, b int) { rs[a], rs[b] = rs[b], rs[a] })
				}
				k, p := chosenKey(rs, h)
				note(p)
				removals = append(removals, map[string]string{"removed": hexk(shards[i].Key), "choice": hexk(k)})
			}
			o["removals"] = removals
			additions := []any{}
			for i := 0; i < 3; i++ {
				nk := randomKey(rng, used)
				delete(used, nk)
				if usedIn(shards, nk) {
					continue
				}
				as := append(append([]sharding.Shard{}, shards...), sharding.Shard{Key: nk, Weight: randomWeight(rng)})
				rng.Shuffle(len(as), func(a, b int) { as[a], as[b] = as[b], as[a] })
				k, p := chosenKey(as, h)
				note(p)
				additions = append(additions, map[string]string{"added": hexk(nk), "choice": hexk(k)})
			}
			o["additions"] = additions
			o["panic"] = pan
			w.Emit(o)
			n++
		}
	}
	// self-check of the harness's inverse mixer
	for i := 0; i < 1000; i++ {
		x := rng.Uint64()
		if splitmix64(invSplitmix64(x)) != x {
			t.Fatalf("inverse mixer is wrong for %x", x)
		}
	}
	b, _ := json.Marshal(map[string]any{"observations": n, "maps": maps, "tie_hashes": ties})
	os.WriteFile(filepath.Join(out, "selector_summary.json"), b, 0o644)
}

func usedIn(shards []sharding.Shard, k string) bool {
	for _, s := range shards {
		if s.Key == k {
			return true
		}
	}
	return false
}

// ---- C12 (b): the sharding composite ------------------------------------------------------------

type shCall struct {
	Key  string   `json:"key"`
	Op   string   `json:"op"`
	Objs []string `json:"objs"`
}

type shWorld struct {
	mu     sync.Mutex
	calls  []shCall
	byPref map[uint64]string // leading hash bytes -> model object name
}

func (w *shWorld) name(d digest.Digest) string {
	hb := d.GetHashBytes()
	if n, ok := w.byPref[binary.BigEndian.Uint64(hb[:8])]; ok {
		return n
	}
	return "?" + d.GetHashString()
}

type shBackend struct {
	w        *shWorld
	key      string
	contents map[string]bool
	failing  bool
}

func (b *shBackend) record(op string, objs []string) {
	sort.Strings(objs)
	b.w.mu.Lock()
	b.w.calls = append(b.w.calls, shCall{Key: b.key, Op: op, Objs: objs})
	b.w.mu.Unlock()
}

func (b *shBackend) Get(ctx context.Context, d digest.Digest) buffer.Buffer {
	n := b.w.name(d)
	b.record("Get", []string{n})
	if b.failing {
		return buffer.NewBufferFromError(status.Error(codes.Unavailable, "injected failure"))
	}
	b.w.mu.Lock()
	ok := b.contents[n]
	b.w.mu.Unlock()
	if !ok {
		return buffer.NewBufferFromError(status.Error(codes.NotFound, "Object not found"))
	}
	return buffer.NewValidatedBufferFromByteSlice([]byte("object-" + n))
}

func (b *shBackend) GetFromComposite(ctx context.Context, p, c digest.Digest, s slicing.BlobSlicer) buffer.Buffer {
	panic("unused")
}

func (b *shBackend) Put(ctx context.Context, d digest.Digest, buf buffer.Buffer) error {
	n := b.w.name(d)
	b.record("Put", []string{n})
	if b.failing {
		buf.Discard()
		return status.Error(codes.Unavailable, "injected failure")
	}
	if _, err := buf.ToByteSlice(1 << 20); err != nil {
		return err
	}
	b.w.mu.Lock()
	b.contents[n] = true
	b.w.mu.Unlock()
	return nil
}

func (b *shBackend) FindMissing(ctx context.Context, digests digest.Set) (digest.Set, error) {
	objs := []string{}
	sb := digest.NewSetBuilder(0)
	b.w.mu.Lock()
	for _, d := range digests.Items() {
		n := b.w.name(d)
		objs = append(objs, n)
		if !b.contents[n] {
			sb.Add(d)
		}
	}
	b.w.mu.Unlock()
	b.record("Fm", objs)
	if b.failing {
		return digest.EmptySet, status.Error(codes.Unavailable, "injected failure")
	}
	return sb.Build(), nil
}

func (b *shBackend) GetCapabilities(ctx context.Context, i digest.InstanceName) (*remoteexecution.ServerCapabilities, error) {
	panic("unused")
}

type shStep struct {
	Op      string              `json:"op"`
	Objs    []string            `json:"objs"`
	Failing []string            `json:"failing"`
	ShardOf map[string]string   `json:"shardOf"`
	Before  map[string][]string `json:"before"`
	After   map[string][]string `json:"after"`
	Res     string              `json:"res"`
	Code    string              `json:"code"`
	Missing []string            `json:"missing"`
}

// a digest whose hash starts with the given eight bytes; everything else varies
func shDigest(rng *rand.Rand, pref uint64) digest.Digest {
	fns := []struct {
		f remoteexecution.DigestFunction_Value
		n int
	}{{remoteexecution.DigestFunction_SHA256, 32}, {remoteexecution.DigestFunction_MD5, 16}, {remoteexecution.DigestFunction_SHA1, 20}, {remoteexecution.DigestFunction_SHA512, 64}}
	f := fns[rng.Intn(len(fns))]
	hb := make([]byte, f.n)
	rng.Read(hb)
	binary.BigEndian.PutUint64(hb[:8], pref)
	inst := []string{"", "a", "a/b", "other"}[rng.Intn(4)]
	return digest.MustNewDigest(inst, f.f, hex.EncodeToString(hb), int64(rng.Intn(1000)))
}

func runShardScript(id string, seed int64, steps []shStep, w *hx.Writer) (drift, compared int) {
	if len(steps) == 0 {
		return
	}
	rng := rand.New(rand.NewSource(seed))
	keys := []string{}
	for k := range steps[0].Before {
		keys = append(keys, k)
	}
	sort.Strings(keys)
	rng.Shuffle(len(keys), func(a, b int) { keys[a], keys[b] = keys[b], keys[a] }) // configuration order is arbitrary
	world := &shWorld{byPref: map[uint64]string{}}
	shards := []sharding.Shard{}
	backends := []sharding.ShardBackend{}
	bes := map[string]*shBackend{}
	for _, k := range keys {
		shards = append(shards, sharding.Shard{Key: k, Weight: uint32(1 + rng.Intn(4))}) // comparable weights, so that every shard gets objects
		be := &shBackend{w: world, key: k, contents: map[string]bool{}}
		for _, n := range steps[0].Before[k] {
			be.contents[n] = true
		}
		bes[k] = be
		backends = append(backends, sharding.ShardBackend{Backend: be, Key: k})
	}
	sel, err := sharding.NewRendezvousShardSelector(shards)
	if err != nil {
		panic(err)
	}
	// an independently built selector (other listing order) is the oracle for "the shard of these leading bytes"
	oshards := append([]sharding.Shard{}, shards...)
	rng.Shuffle(len(oshards), func(a, b int) { oshards[a], oshards[b] = oshards[b], oshards[a] })
	oracle, _ := sharding.NewRendezvousShardSelector(oshards)
	// realise the model's object -> shard map with real leading bytes
	prefOf := map[string]uint64{}
	for obj, want := range steps[0].ShardOf {
		for tries := 0; ; tries++ {
			p := rng.Uint64()
			if _, taken := world.byPref[p]; taken {
				continue
			}
			if oshards[oracle.GetShard(p)].Key == want {
				prefOf[obj] = p
				world.byPref[p] = obj
				break
			}
			if tries > 100000 {
				panic("cannot realise shard map")
			}
		}
	}
	ba := sharding.NewShardingBlobAccess(backends, sel)
	ctx := context.Background()
	contents := func() map[string][]string {
		m := map[string][]string{}
		for k, be := range bes {
			l := []string{}
			for n := range be.contents {
				l = append(l, n)
			}
			sort.Strings(l)
			m[k] = l
		}
		return m
	}
	for i, st := range steps {
		for k, be := range bes {
			be.failing = false
			for _, f := range st.Failing {
				if f == k {
					be.failing = true
				}
			}
		}
		world.calls = nil
		shardOf := map[string]string{}
		for obj, p := range prefOf {
			shardOf[obj] = oshards[oracle.GetShard(p)].Key
		}
		o := map[string]any{"ev": "Shard", "id": fmt.Sprintf("%s/%d", id, i), "op": st.Op, "objs": st.Objs, "failing": st.Failing, "shardOf": shardOf,
			"before": contents(), "missing": []string{}, "panic": "", "order": keys}
		var err error
		func() {
			defer func() {
				if r := recover(); r != nil {
					o["panic"] = fmt.Sprint(r)
				}
			}()
			switch st.Op {
			case "Get":
				var data []byte
				data, err = ba.Get(ctx, shDigest(rng, prefOf[st.Objs[0]])).ToByteSlice(1 << 20)
				if err == nil {
					o["res"] = "Data"
					if string(data) != "object-"+st.Objs[0] {
						o["res"] = "WRONGDATA"
					}
				}
			case "Put":
				err = ba.Put(ctx, shDigest(rng, prefOf[st.Objs[0]]), buffer.NewValidatedBufferFromByteSlice([]byte("object-"+st.Objs[0])))
				if err == nil {
					o["res"] = "OK"
				}
			case "Fm":
				sb := digest.NewSetBuilder(0)
				for _, n := range st.Objs {
					sb.Add(shDigest(rng, prefOf[n]))
				}
				var missing digest.Set
				missing, err = ba.FindMissing(ctx, sb.Build())
				if err == nil {
					o["res"] = "OK"
					ms := []string{}
					for _, d := range missing.Items() {
						ms = append(ms, world.name(d))
					}
					sort.Strings(ms)
					o["missing"] = ms
				}
			}
		}()
		o["code"] = status.Code(err).String()
		named := []string{}
		if err != nil {
			o["res"], o["msg"] = "ERR", err.Error()
			for _, k := range keys {
				if strings.Contains(err.Error(), "Shard "+k) {
					named = append(named, k)
				}
			}
		}
		o["named"] = named
		calls := append([]shCall{}, world.calls...)
		sort.Slice(calls, func(a, b int) bool { return calls[a].Key < calls[b].Key })
		o["calls"] = calls
		o["after"] = contents()
		w.Emit(o)
		if st.Res != "" {
			compared++
			same := o["res"] == st.Res && o["code"] == st.Code
			if st.Res != "ERR" {
				same = same && strings.Join(o["missing"].([]string), ",") == strings.Join(sorted(st.Missing), ",")
				for k, l := range contents() {
					same = same && strings.Join(l, ",") == strings.Join(sorted(st.After[k]), ",")
				}
			}
			if !same {
				drift++
				if len(firstDrifts) < 5 {
					firstDrifts = append(firstDrifts, map[string]any{"id": o["id"], "expected": st, "got": o})
				}
			}
		}
	}
	return
}

func TestShard(t *testing.T) {
	out := os.Getenv("COMP_OUT")
	w := hx.NewWriter(filepath.Join(out, "shard.ndjson"))
	defer w.Close()
	seed := int64(hx.EnvInt("VERIF_SEED", 1))
	firstDrifts = nil
	n, drift, compared := 0, 0, 0
	hx.ReadLines(os.Getenv("COMP_SCRIPTS"), func(line []byte) {
		var sc struct {
			ID    string   `json:"id"`
			Steps []shStep `json:"steps"`
		}
		if err := json.Unmarshal(line, &sc); err != nil {
			t.Fatal(err)
		}
		d, c := runShardScript(sc.ID, seed*1000003+int64(n), sc.Steps, w)
		drift += d
		compared += c
		n++
	})
	b, _ := json.Marshal(map[string]any{"scripts": n, "compared": compared, "drift": drift, "first_drifts": firstDrifts})
	os.WriteFile(filepath.Join(out, "shard_summary.json"), b, 0o644)
}
