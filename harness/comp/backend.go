// Package comp holds the conformance drivers for the composite BlobAccess
// implementations (mirrored, sharding, read caching / fallback, replicators,
// existence caching, authorizing, demultiplexing, hierarchical instance names,
// completeness checking).  They run over model back ends: in-memory maps with
// a scripted fault plan and a shared call log.
package comp

import (
	"bytes"
	"context"
	"crypto/sha256"
	"encoding/hex"
	"fmt"
	"io"
	"sort"
	"sync"

	remoteexecution "github.com/bazelbuild/remote-apis/build/bazel/remote/execution/v2"
	"github.com/buildbarn/bb-storage/pkg/blobstore/buffer"
	"github.com/buildbarn/bb-storage/pkg/blobstore/slicing"
	"github.com/buildbarn/bb-storage/pkg/digest"
	"google.golang.org/grpc/codes"
	"google.golang.org/grpc/status"
)

// Universe maps model object names to real digests and back.
type Universe struct {
	byName map[string][]byte
	byHash map[string]string // hash string -> name
}

func NewUniverse(names []string) *Universe {
	u := &Universe{byName: map[string][]byte{}, byHash: map[string]string{}}
	for _, n := range names {
		data := []byte("object-" + n)
		u.byName[n] = data
		sum := sha256.Sum256(data)
		u.byHash[hex.EncodeToString(sum[:])] = n
	}
	return u
}

func (u *Universe) Digest(name, instance string) digest.Digest {
	data := u.byName[name]
	sum := sha256.Sum256(data)
	return digest.MustNewDigest(instance, remoteexecution.DigestFunction_SHA256, hex.EncodeToString(sum[:]), int64(len(data)))
}

func (u *Universe) Data(name string) []byte { return u.byName[name] }
func (u *Universe) Name(d digest.Digest) string {
	if n, ok := u.byHash[d.GetHashString()]; ok {
		return n
	}
	return "?"
}

func (u *Universe) Set(names []string, instance string) digest.Set {
	sb := digest.NewSetBuilder(0)
	for _, n := range names {
		sb.Add(u.Digest(n, instance))
	}
	return sb.Build()
}

func (u *Universe) Names(s digest.Set) []string {
	out := []string{}
	for _, d := range s.Items() {
		out = append(out, u.Name(d))
	}
	sort.Strings(out)
	return out
}

// Call is one call a composite made on a model back end.
type Call struct {
	Backend string   `json:"backend"`
	Op      string   `json:"op"`
	Objs    []string `json:"objs"`
	Inst    string   `json:"inst"`
	Failed  bool     `json:"failed"`
}

type CallLog struct {
	mu    sync.Mutex
	Calls []Call
}

func (l *CallLog) add(c Call) {
	l.mu.Lock()
	l.Calls = append(l.Calls, c)
	l.mu.Unlock()
}

func (l *CallLog) Snapshot() []Call {
	l.mu.Lock()
	defer l.mu.Unlock()
	return append([]Call{}, l.Calls...)
}

// ModelBackend is an in-memory BlobAccess.  Objects are keyed by name and,
// if InstanceAware, by instance name.
type ModelBackend struct {
	Name          string
	U             *Universe
	Log           *CallLog
	InstanceAware bool
	// Plan is consumed one entry per call: "ok" or "fail"; calls beyond it succeed.
	Plan []string
	// Stream selects the kind of buffer Get returns: "" = byte slice, "reader" = stream backed by an io.Reader,
	// "chunks" = stream backed by a ChunkReader (as a gRPC back end or a block under refresh would return)
	Stream string
	// Gate, if set, is called at the start of every call (scheduling point).
	Gate func(label string)
	// GateCtx, if set, is called for FindMissing with the objects asked about and those present.
	GateCtx func(ctx context.Context, op string, objs, present []string)

	mu    sync.Mutex
	data  map[string]bool
	ncall int
}

func NewModelBackend(name string, u *Universe, log *CallLog) *ModelBackend {
	return &ModelBackend{Name: name, U: u, Log: log, data: map[string]bool{}}
}

var ErrInjected = status.Error(codes.Unavailable, "injected backend failure")

func (b *ModelBackend) key(d digest.Digest) string {
	if b.InstanceAware {
		return d.GetInstanceName().String() + "|" + b.U.Name(d)
	}
	return b.U.Name(d)
}

func (b *ModelBackend) Store(name, instance string) {
	b.mu.Lock()
	if b.InstanceAware {
		b.data[instance+"|"+name] = true
	} else {
		b.data[name] = true
	}
	b.mu.Unlock()
}

func (b *ModelBackend) Contents() []string {
	b.mu.Lock()
	defer b.mu.Unlock()
	out := []string{}
	for k := range b.data {
		out = append(out, k)
	}
	sort.Strings(out)
	return out
}

// enter registers the call and tells whether the plan makes it fail.
func (b *ModelBackend) enter(op string, objs []string, inst string) bool {
	if b.Gate != nil {
		b.Gate(b.Name + "." + op)
	}
	b.mu.Lock()
	b.ncall++
	fail := b.ncall <= len(b.Plan) && b.Plan[b.ncall-1] == "fail"
	b.mu.Unlock()
	b.Log.add(Call{Backend: b.Name, Op: op, Objs: objs, Inst: inst, Failed: fail})
	return fail
}

func (b *ModelBackend) Get(ctx context.Context, d digest.Digest) buffer.Buffer {
	if b.enter("Get", []string{b.U.Name(d)}, d.GetInstanceName().String()) {
		return buffer.NewBufferFromError(ErrInjected)
	}
	b.mu.Lock()
	ok := b.data[b.key(d)]
	b.mu.Unlock()
	if !ok {
		return buffer.NewBufferFromError(status.Error(codes.NotFound, "Object not found"))
	}
	data := b.U.Data(b.U.Name(d))
	switch b.Stream {
	case "reader":
		return buffer.NewCASBufferFromReader(d, io.NopCloser(bytes.NewReader(data)), buffer.BackendProvided(buffer.Irreparable(d)))
	case "chunks":
		return buffer.NewCASBufferFromChunkReader(d, &sliceChunkReader{data: data, n: 3}, buffer.BackendProvided(buffer.Irreparable(d)))
	}
	return buffer.NewCASBufferFromByteSlice(d, data, buffer.BackendProvided(buffer.Irreparable(d)))
}

type sliceChunkReader struct {
	data []byte
	n    int
}

func (r *sliceChunkReader) Read() ([]byte, error) {
	if len(r.data) == 0 {
		return nil, io.EOF
	}
	n := min(r.n, len(r.data))
	c := r.data[:n]
	r.data = r.data[n:]
	return c, nil
}

func (r *sliceChunkReader) Close() {}

// Consume reads a buffer to the end in one of several ways (selected by variant) and returns the data.
func Consume(b buffer.Buffer, variant int) ([]byte, error) {
	switch variant % 3 {
	case 1:
		var w bytes.Buffer
		err := b.IntoWriter(&w)
		return w.Bytes(), err
	case 2:
		r := b.ToReader()
		data, err := io.ReadAll(r)
		if cerr := r.Close(); err == nil {
			err = cerr
		}
		return data, err
	}
	return b.ToByteSlice(1 << 20)
}

func (b *ModelBackend) GetFromComposite(ctx context.Context, parentDigest, childDigest digest.Digest, slicer slicing.BlobSlicer) buffer.Buffer {
	if b.enter("GetFromComposite", []string{b.U.Name(parentDigest)}, parentDigest.GetInstanceName().String()) {
		return buffer.NewBufferFromError(ErrInjected)
	}
	b.mu.Lock()
	ok := b.data[b.key(parentDigest)]
	b.mu.Unlock()
	if !ok {
		return buffer.NewBufferFromError(status.Error(codes.NotFound, "Object not found"))
	}
	bc, _ := slicer.Slice(buffer.NewCASBufferFromByteSlice(parentDigest, b.U.Data(b.U.Name(parentDigest)), buffer.BackendProvided(buffer.Irreparable(parentDigest))), childDigest)
	return bc
}

func (b *ModelBackend) Put(ctx context.Context, d digest.Digest, buf buffer.Buffer) error {
	if _, err := buf.GetSizeBytes(); err != nil {
		// a buffer in a known error state: the upload fails with that error whatever the plan says
		b.Log.add(Call{Backend: b.Name, Op: "PutOfError", Objs: []string{b.U.Name(d)}, Inst: d.GetInstanceName().String()})
		b.mu.Lock()
		b.ncall++
		b.mu.Unlock()
		buf.Discard()
		return err
	}
	if b.enter("Put", []string{b.U.Name(d)}, d.GetInstanceName().String()) {
		buf.Discard()
		return ErrInjected
	}
	data, err := buf.ToByteSlice(1 << 20)
	if err != nil {
		return err
	}
	if string(data) != string(b.U.Data(b.U.Name(d))) {
		return fmt.Errorf("model backend %s: wrong bytes for %s", b.Name, b.U.Name(d))
	}
	b.mu.Lock()
	b.data[b.key(d)] = true
	b.mu.Unlock()
	return nil
}

func (b *ModelBackend) FindMissing(ctx context.Context, digests digest.Set) (digest.Set, error) {
	inst := ""
	if digests.Length() > 0 {
		inst = digests.Items()[0].GetInstanceName().String()
	}
	if b.enter("FindMissing", b.U.Names(digests), inst) {
		return digest.EmptySet, ErrInjected
	}
	sb := digest.NewSetBuilder(0)
	present := []string{}
	b.mu.Lock()
	for _, d := range digests.Items() {
		if !b.data[b.key(d)] {
			sb.Add(d)
		} else {
			present = append(present, b.U.Name(d))
		}
	}
	b.mu.Unlock()
	if b.GateCtx != nil {
		b.GateCtx(ctx, "FindMissing", b.U.Names(digests), present)
	}
	return sb.Build(), nil
}

func (b *ModelBackend) GetCapabilities(ctx context.Context, instanceName digest.InstanceName) (*remoteexecution.ServerCapabilities, error) {
	return &remoteexecution.ServerCapabilities{}, nil
}

// identitySlicer returns the parent as the child.
type identitySlicer struct{}

func (identitySlicer) Slice(b buffer.Buffer, childDigest digest.Digest) (buffer.Buffer, []slicing.BlobSlice) {
	return b, nil
}

// countingReader is an upload source that counts Close calls.
type countingReader struct {
	data   []byte
	pos    int
	closed int
}

func (r *countingReader) Read(p []byte) (int, error) {
	if r.pos >= len(r.data) {
		return 0, io.EOF
	}
	n := copy(p, r.data[r.pos:])
	r.pos += n
	return n, nil
}

func (r *countingReader) Close() error { r.closed++; return nil }
