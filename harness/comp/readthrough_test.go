package comp

import (
	"context"
	"encoding/json"
	"fmt"
	"math/rand"
	"os"
	"path/filepath"
	"sort"
	"strings"
	"sync"
	"testing"
	"testing/synctest"
	"time"

	"github.com/buildbarn/bb-storage/pkg/blobstore"
	"github.com/buildbarn/bb-storage/pkg/blobstore/buffer"
	"github.com/buildbarn/bb-storage/pkg/blobstore/readcaching"
	"github.com/buildbarn/bb-storage/pkg/blobstore/readfallback"
	"github.com/buildbarn/bb-storage/pkg/blobstore/replication"
	"github.com/buildbarn/bb-storage/pkg/blobstore/slicing"
	"github.com/buildbarn/bb-storage/pkg/digest"
	"github.com/buildbarn/bb-storage/pkg/eviction"
	"golang.org/x/sync/semaphore"
	"google.golang.org/grpc/status"

	"verif/harness/hx"
	"verif/harness/sched"
	"verif/harness/sim"
)

// ---- (a) read caching / read fallback -----------------------------------------------------

type rtStep struct {
	Kind    string   `json:"kind"`
	Op      string   `json:"op"`
	Objs    []string `json:"objs"`
	PlanF   []string `json:"planF"`
	PlanS   []string `json:"planS"`
	F0      []string `json:"f0"`
	S0      []string `json:"s0"`
	Res     string   `json:"res"`
	Code    string   `json:"code"`
	F1      []string `json:"f1"`
	S1      []string `json:"s1"`
	Missing []string `json:"missing"`
}

func runReadThrough(id string, variant int, kind, repl string, steps []rtStep, w *hx.Writer) (drift, compared int) {
	u := NewUniverse([]string{"p", "q", "r"})
	log := &CallLog{}
	f := NewModelBackend("F", u, log)
	s := NewModelBackend("S", u, log)
	f.Stream = []string{"", "reader", "chunks"}[variant%3]
	s.Stream = []string{"", "reader", "chunks"}[(variant/3)%3]
	if len(steps) > 0 {
		for _, n := range steps[0].F0 {
			f.Store(n, "")
		}
		for _, n := range steps[0].S0 {
			s.Store(n, "")
		}
	}
	var ba blobstore.BlobAccess
	if kind == "caching" {
		ba = readcaching.NewReadCachingBlobAccess(s, f, replicatorFor(repl, s, f))
	} else {
		ba = readfallback.NewReadFallbackBlobAccess(f, s, replicatorFor(repl, s, f))
	}
	ctx := context.Background()
	comparing := true
	for i, st := range steps {
		f.mu.Lock()
		f.Plan, f.ncall = st.PlanF, 0
		f.mu.Unlock()
		s.mu.Lock()
		s.Plan, s.ncall = st.PlanS, 0
		s.mu.Unlock()
		f0, s0 := f.Contents(), s.Contents()
		mark := len(log.Snapshot())
		o := map[string]any{"ev": "ReadThrough", "id": fmt.Sprintf("%s/%d", id, i), "kind": kind, "op": st.Op, "objs": st.Objs, "repl": repl,
			"f0": f0, "s0": s0, "missing": []string{}, "panic": ""}
		var err error
		func() {
			defer func() {
				if r := recover(); r != nil {
					o["panic"] = fmt.Sprint(r)
				}
			}()
			switch st.Op {
			case "Get":
				var data []byte
				if (variant/27)%2 == 1 {
					// the same read through the composite path: the child is the whole parent
					d := u.Digest(st.Objs[0], "")
					data, err = Consume(ba.GetFromComposite(ctx, d, d, identitySlicer{}), variant/9)
				} else {
					data, err = Consume(ba.Get(ctx, u.Digest(st.Objs[0], "")), variant/9)
				}
				if err == nil {
					o["res"] = "Data"
					if string(data) != string(u.Data(st.Objs[0])) {
						o["res"] = "WRONGDATA"
					}
				}
			case "Put":
				d := u.Digest(st.Objs[0], "")
				err = ba.Put(ctx, d, buffer.NewCASBufferFromByteSlice(d, u.Data(st.Objs[0]), buffer.UserProvided))
				if err == nil {
					o["res"] = "OK"
				}
			case "Fm":
				missing, e := ba.FindMissing(ctx, u.Set(st.Objs, ""))
				err = e
				if err == nil {
					o["res"] = "OK"
					o["missing"] = u.Names(missing)
				}
			}
		}()
		o["code"] = status.Code(err).String()
		if err != nil {
			o["res"], o["msg"] = "ERR", err.Error()
		}
		failed := map[string]bool{}
		for _, c := range log.Snapshot()[mark:] {
			if c.Failed {
				failed[c.Backend] = true
			}
		}
		fl := []string{}
		for k := range failed {
			fl = append(fl, k)
		}
		sort.Strings(fl)
		o["failed"] = fl
		o["f1"], o["s1"] = f.Contents(), s.Contents()
		w.Emit(o)
		if st.Res != "" && comparing {
			compared++
			same := o["res"] == st.Res && (st.Res != "ERR" || o["code"] == st.Code)
			if st.Res != "ERR" {
				same = same && strings.Join(f.Contents(), ",") == strings.Join(sorted(st.F1), ",") && strings.Join(s.Contents(), ",") == strings.Join(sorted(st.S1), ",") &&
					strings.Join(o["missing"].([]string), ",") == strings.Join(sorted(st.Missing), ",")
			} else if st.Op == "Fm" {
				comparing = false
			}
			if !same {
				drift++
				if len(firstDrifts) < 5 {
					firstDrifts = append(firstDrifts, map[string]any{"id": o["id"], "expected": st, "got": o})
				}
			}
		}
	}
	return
}

func TestReadThrough(t *testing.T) {
	out := os.Getenv("COMP_OUT")
	w := hx.NewWriter(filepath.Join(out, "readthrough.ndjson"))
	defer w.Close()
	firstDrifts = nil
	n, drift, compared := 0, 0, 0
	hx.ReadLines(os.Getenv("COMP_SCRIPTS"), func(line []byte) {
		var sc struct {
			ID    string   `json:"id"`
			Kind  string   `json:"kind"`
			Repl  string   `json:"repl"`
			Steps []rtStep `json:"steps"`
		}
		if err := json.Unmarshal(line, &sc); err != nil {
			t.Fatal(err)
		}
		d, c := runReadThrough(sc.ID, n, sc.Kind, sc.Repl, sc.Steps, w)
		drift += d
		compared += c
		n++
	})
	b, _ := json.Marshal(map[string]any{"scripts": n, "compared": compared, "drift": drift, "first_drifts": firstDrifts})
	os.WriteFile(filepath.Join(out, "readthrough_summary.json"), b, 0o644)
}

// ---- (b) replicator decorators under concurrent callers --------------------------------------

type recBase struct {
	mu        sync.Mutex
	u         *Universe
	sink      *ModelBackend
	sc        *sched.Sched
	active    map[string]int
	total     int
	MaxTotal  int
	MaxSame   int
	failNext  int
	clock     *int
	confirmed map[string]int
}

func (b *recBase) ReplicateSingle(ctx context.Context, d digest.Digest) buffer.Buffer {
	panic("unused")
}
func (b *recBase) ReplicateComposite(ctx context.Context, p, c digest.Digest, s slicing.BlobSlicer) buffer.Buffer {
	panic("unused")
}

func (b *recBase) ReplicateMultiple(ctx context.Context, digests digest.Set) error {
	names := b.u.Names(digests)
	b.mu.Lock()
	for _, n := range names {
		b.active[n]++
		if b.active[n] > b.MaxSame {
			b.MaxSame = b.active[n]
		}
	}
	b.total++
	if b.total > b.MaxTotal {
		b.MaxTotal = b.total
	}
	b.mu.Unlock()
	b.sc.Gate("copy:" + sched.Proc(ctx))
	b.mu.Lock()
	fail := b.failNext > 0
	if fail {
		b.failNext--
	}
	for _, n := range names {
		b.active[n]--
		if !fail {
			*b.clock++
			b.confirmed[n] = *b.clock
		}
	}
	b.total--
	b.mu.Unlock()
	if fail {
		return ErrInjected
	}
	for _, n := range names {
		b.sink.Store(n, "")
	}
	return nil
}

// directed: the schedule of the known finding "a waiter joins a replication whose confirmation precedes its own
// request": c1 checks the sink (the answer is computed, c1 has not yet taken the lock again), c2 asks for the same
// object, then c1 finishes.
func runReplicators(t *testing.T, id string, seed int64, coop bool, directed ...bool) (o map[string]any) {
	isDirected := len(directed) > 0 && directed[0]
	rng := rand.New(rand.NewSource(seed))
	dec := []string{"dedup", "limit", "queued", "dedup+limit"}[rng.Intn(4)]
	if isDirected {
		dec = "dedup"
	}
	limit := 1 + rng.Intn(2)
	o = map[string]any{"ev": "Replicator", "id": id, "dec": dec, "limit": limit, "panic": "", "hang": false, "callers": []any{}}
	if dec == "queued" {
		limit = 1
		o["limit"] = 1
	}
	type callerRes struct {
		Objs              []string `json:"objs"`
		Res               string   `json:"res"`
		ConfirmedAfterAsk bool     `json:"confirmedAfterAsk"`
		// every object was confirmed after the start of some request for it that was still running when this
		// caller asked (the caller may have joined that request's replication)
		ConfirmedWithinOverlap bool `json:"confirmedWithinOverlap"`
		ask, end               int
		done                   bool
	}
	var results []*callerRes
	var base *recBase
	defer func() {
		if r := recover(); r != nil {
			o["hang"] = true
			o["panic"] = ""
			_ = r
		}
		cs := []any{}
		for _, c := range results {
			if !c.done {
				o["hang"] = true
			}
			cs = append(cs, c)
		}
		o["callers"] = cs
		if base != nil {
			o["maxConcurrent"], o["maxConcurrentSame"] = base.MaxTotal, base.MaxSame
		}
	}()
	body := func() {
		u := NewUniverse([]string{"p", "q", "r"})
		log := &CallLog{}
		sc := sched.New(coop, seed)
		sink := NewModelBackend("sink", u, log)
		source := NewModelBackend("source", u, log)
		for _, n := range []string{"p", "q", "r"} {
			source.Store(n, "")
			if rng.Intn(3) == 0 {
				sink.Store(n, "")
			}
		}
		clock := 0
		var cmu sync.Mutex
		base = &recBase{u: u, sink: sink, sc: sc, active: map[string]int{}, clock: &clock, confirmed: map[string]int{}, failNext: rng.Intn(3)}
		var br replication.BlobReplicator
		switch dec {
		case "dedup":
			br = replication.NewDeduplicatingBlobReplicator(base, sink, digest.KeyWithoutInstance)
			o["limit"] = 99
		case "limit":
			br = replication.NewConcurrencyLimitingBlobReplicator(base, sink, semaphore.NewWeighted(int64(limit)))
		case "queued":
			br = replication.NewQueuedBlobReplicator(source, base, digest.NewExistenceCache(sim.NewClock(), digest.KeyWithoutInstance, 2, time.Minute, eviction.NewLRUSet[string]()))
		default:
			br = replication.NewDeduplicatingBlobReplicator(replication.NewConcurrencyLimitingBlobReplicator(base, sink, semaphore.NewWeighted(int64(limit))), sink, digest.KeyWithoutInstance)
		}
		// the sink's FindMissing is a scheduling point and a confirmation
		sink.GateCtx = func(ctx context.Context, op string, objs []string, present []string) {
			if op == "FindMissing" {
				if !isDirected {
					sc.Gate("fm:" + sched.Proc(ctx))
				}
				defer func() {
					if isDirected {
						sc.Gate("fm:" + sched.Proc(ctx)) // the sink has answered; the answer is on its way to the caller
					}
				}()
				cmu.Lock()
				base.mu.Lock()
				for _, n := range present {
					clock++
					base.confirmed[n] = clock
				}
				base.mu.Unlock()
				cmu.Unlock()
			}
		}
		ncallers := 2 + rng.Intn(3)
		var wg sync.WaitGroup
		var cancels []context.CancelFunc
		cancellables := []bool{}
		for i := 0; i < ncallers; i++ {
			objs := []string{[]string{"p", "q", "r"}[rng.Intn(2)]}
			if rng.Intn(3) == 0 {
				objs = append(objs, "r")
			}
			results = append(results, &callerRes{Objs: objs})
			cancellables = append(cancellables, rng.Intn(4) == 0)
		}
		if isDirected {
			sink.Store("q", "")
			results = []*callerRes{{Objs: []string{"q"}}, {Objs: []string{"q"}}}
			cancellables = []bool{false, false}
			ncallers = 2
		}
		for i := 0; i < ncallers; i++ {
			res := results[i]
			objs := res.Objs
			p := fmt.Sprintf("c%d", i+1)
			cancellable := cancellables[i]
			wg.Add(1)
			go func() {
				defer wg.Done()
				defer func() {
					if r := recover(); r != nil {
						o["panic"] = fmt.Sprint(r)
						res.done = true
					}
				}()
				sc.Gate("start:" + p)
				base.mu.Lock()
				clock++
				ask := clock
				res.ask = ask
				base.mu.Unlock()
				ctx := sched.WithProc(context.Background(), p)
				if cancellable {
					var cancel context.CancelFunc
					ctx, cancel = context.WithCancel(ctx)
					cmu.Lock()
					cancels = append(cancels, cancel)
					cmu.Unlock()
				}
				err := br.ReplicateMultiple(ctx, u.Set(objs, ""))
				res.Res = "OK"
				if err != nil {
					res.Res = "ERR"
				}
				base.mu.Lock()
				clock++
				res.end = clock
				res.ConfirmedAfterAsk, res.ConfirmedWithinOverlap = true, true
				for _, n := range objs {
					if base.confirmed[n] < ask {
						res.ConfirmedAfterAsk = false
					}
					// the earliest request for n that was still running when this caller asked
					from := ask
					for _, other := range results {
						wants := false
						for _, m := range other.Objs {
							wants = wants || m == n
						}
						if wants && other.ask > 0 && other.ask < from && (other.end == 0 || other.end > ask) {
							from = other.ask
						}
					}
					if base.confirmed[n] < from {
						res.ConfirmedWithinOverlap = false
					}
				}
				base.mu.Unlock()
				res.done = true
			}()
		}
		if coop && isDirected {
			synctest.Wait()
			sc.Release("start:c1")
			synctest.Wait() // c1 is the leader; the sink has confirmed q
			sc.Release("start:c2")
			synctest.Wait() // c2 waits for c1
			sc.Release("fm:c1")
			synctest.Wait()
			for _, l := range sc.Parked() {
				sc.Release(l)
				synctest.Wait()
			}
		} else if coop {
			synctest.Wait()
			for steps := 0; steps < 500; steps++ {
				parked := sc.Parked()
				if len(parked) == 0 {
					break
				}
				cmu.Lock()
				if len(cancels) > 0 && rng.Intn(6) == 0 {
					cancels[rng.Intn(len(cancels))]()
					cmu.Unlock()
					synctest.Wait()
					continue
				}
				cmu.Unlock()
				sc.Release(parked[rng.Intn(len(parked))])
			}
			synctest.Wait()
		} else {
			finished := make(chan struct{})
			go func() { wg.Wait(); close(finished) }()
			select {
			case <-finished:
			case <-time.After(10 * time.Second):
				o["hang"] = true // somebody is left waiting (callers not done are reported as hanging below)
			}
		}
	}
	if coop {
		synctest.Test(t, func(t *testing.T) { body() })
	} else {
		body()
	}
	return o
}

func TestReplicators(t *testing.T) {
	out := os.Getenv("COMP_OUT")
	w := hx.NewWriter(filepath.Join(out, "replicators.ndjson"))
	defer w.Close()
	seed := int64(hx.EnvInt("VERIF_SEED", 1))
	runs := hx.EnvInt("COMP_RUNS", 300)
	for r := 0; r < runs; r++ {
		w.Emit(runReplicators(t, fmt.Sprintf("coop/%d", r), seed*7919+int64(r), true))
	}
	for r := 0; r < runs/3; r++ {
		w.Emit(runReplicators(t, fmt.Sprintf("free/%d", r), seed*104729+int64(r), false))
	}
	w.Emit(runReplicators(t, "directed/waiter-joins-after-leader-check", 1, true, true))
	b, _ := json.Marshal(map[string]any{"runs": runs + runs/3})
	os.WriteFile(filepath.Join(out, "replicators_summary.json"), b, 0o644)
}

// ---- (c) existence caching -------------------------------------------------------------------

type exStep struct {
	Op              string   `json:"op"`
	T               int      `json:"t"`
	Objs            []string `json:"objs"`
	Obj             string   `json:"obj"`
	ReportedMissing []string `json:"reportedMissing"`
	AskedBackend    []string `json:"askedBackend"`
}

func runExistence(id string, policy string, size, duration int, backend0 []string, steps []exStep, w *hx.Writer, compare bool) (drift, compared int) {
	u := NewUniverse([]string{"p", "q", "r"})
	log := &CallLog{}
	be := NewModelBackend("X", u, log)
	for _, n := range backend0 {
		be.Store(n, "")
	}
	clk := sim.NewClock()
	var es eviction.Set[string]
	switch policy {
	case "FIFO":
		es = eviction.NewFIFOSet[string]()
	case "RR":
		es = eviction.NewRRSet[string]()
	default:
		es = eviction.NewLRUSet[string]()
	}
	ba := blobstore.NewExistenceCachingBlobAccess(be, digest.NewExistenceCache(clk, digest.KeyWithoutInstance, size, time.Duration(duration)*time.Second, es))
	o := map[string]any{"ev": "Existence", "id": id, "duration": duration, "policy": policy, "size": size, "panic": ""}
	var events []any
	now := 0
	func() {
		defer func() {
			if r := recover(); r != nil {
				o["panic"] = fmt.Sprint(r)
			}
		}()
		for _, st := range steps {
			switch st.Op {
			case "advance":
				clk.Advance(time.Duration(st.T-now) * time.Second)
				now = st.T
			case "lose":
				be.mu.Lock()
				delete(be.data, st.Obj)
				be.mu.Unlock()
			case "fm":
				mark := len(log.Snapshot())
				present := be.Contents()
				missing, err := ba.FindMissing(context.Background(), u.Set(st.Objs, ""))
				if err != nil {
					panic(err)
				}
				asked := []string{}
				for _, c := range log.Snapshot()[mark:] {
					asked = append(asked, c.Objs...)
				}
				sort.Strings(asked)
				ev := map[string]any{"op": "fm", "t": now, "objs": st.Objs, "backendPresent": present, "reportedMissing": u.Names(missing), "askedBackend": asked}
				events = append(events, ev)
				if compare {
					compared++
					if strings.Join(u.Names(missing), ",") != strings.Join(sorted(st.ReportedMissing), ",") || strings.Join(asked, ",") != strings.Join(sorted(st.AskedBackend), ",") {
						drift++
						if len(firstDrifts) < 5 {
							firstDrifts = append(firstDrifts, map[string]any{"id": id, "expected": st, "got": ev})
						}
					}
				}
			}
		}
	}()
	if events == nil {
		events = []any{}
	}
	o["events"] = events
	w.Emit(o)
	return
}

func TestExistence(t *testing.T) {
	out := os.Getenv("COMP_OUT")
	w := hx.NewWriter(filepath.Join(out, "existence.ndjson"))
	defer w.Close()
	firstDrifts = nil
	n, drift, compared := 0, 0, 0
	hx.ReadLines(os.Getenv("COMP_SCRIPTS"), func(line []byte) {
		var sc struct {
			ID       string   `json:"id"`
			Policy   string   `json:"policy"`
			Size     int      `json:"size"`
			Duration int      `json:"duration"`
			Backend0 []string `json:"backend0"`
			Steps    []exStep `json:"steps"`
			Killer   bool     `json:"killer"`
		}
		if err := json.Unmarshal(line, &sc); err != nil {
			t.Fatal(err)
		}
		d, c := runExistence(sc.ID, sc.Policy, sc.Size, sc.Duration, sc.Backend0, sc.Steps, w, !sc.Killer)
		drift += d
		compared += c
		// the same script under random replacement: the contract must hold whatever is evicted
		runExistence(sc.ID+"/rr", "RR", sc.Size, sc.Duration, sc.Backend0, sc.Steps, w, false)
		n++
	})
	b, _ := json.Marshal(map[string]any{"scripts": n, "compared": compared, "drift": drift, "first_drifts": firstDrifts})
	os.WriteFile(filepath.Join(out, "existence_summary.json"), b, 0o644)
}
