package comp

import (
	"bytes"
	"context"
	"encoding/json"
	"fmt"
	"io"
	"os"
	"path/filepath"
	"sort"
	"sync"
	"testing"

	remoteexecution "github.com/bazelbuild/remote-apis/build/bazel/remote/execution/v2"
	"github.com/buildbarn/bb-storage/pkg/blobstore"
	"github.com/buildbarn/bb-storage/pkg/blobstore/buffer"
	"github.com/buildbarn/bb-storage/pkg/blobstore/completenesschecking"
	"github.com/buildbarn/bb-storage/pkg/blobstore/slicing"
	"github.com/buildbarn/bb-storage/pkg/digest"
	"google.golang.org/grpc/codes"
	"google.golang.org/grpc/status"
	"google.golang.org/protobuf/encoding/protowire"
	"google.golang.org/protobuf/proto"

	"verif/harness/hx"
)

// ---- C13: completeness checking over a model CAS and a model AC ------------------------------

type ccDirMsg struct {
	Files []string `json:"files"`
	Dirs  []string `json:"dirs"`
}
type ccOutDir struct {
	TreeRef  string     `json:"treeref"`
	RootRef  string     `json:"rootref"`
	State    string     `json:"state"`
	Root     ccDirMsg   `json:"root"`
	Children []ccDirMsg `json:"children"`
}
type ccCase struct {
	AR struct {
		Files  []string   `json:"files"`
		Stdout string     `json:"stdout"`
		Stderr string     `json:"stderr"`
		Dirs   []ccOutDir `json:"dirs"`
	} `json:"ar"`
	Present    []string `json:"present"`
	Batch      int      `json:"batch"`
	FmFail     int      `json:"fmFail"`
	AC         string   `json:"ac"`
	Sizes      []int64  `json:"sizes"`
	LimitBytes int64    `json:"limitBytes"`
	Fn         string   `json:"fn,omitempty"`
	Cut        int      `json:"cut,omitempty"`
	Garbage    string   `json:"garbage,omitempty"`
}

type ccObject struct {
	name    string
	data    []byte
	present bool
	state   string // ok | trunc | ioerr
	cut     int
}

type ccFm struct {
	Objs    []string `json:"objs"`
	Missing []string `json:"missing"`
	Failed  bool     `json:"failed"`
}

// ccCAS is a model Content Addressable Storage: a table of named objects, a fault plan and a call log.
type ccCAS struct {
	mu     sync.Mutex
	byHash map[string]*ccObject
	fmFail int
	Fm     []ccFm
	Gets   []string
	Opened int
	Closed int
	Puts   int
}

func (c *ccCAS) nameOf(d digest.Digest) string {
	if o, ok := c.byHash[d.GetHashString()]; ok {
		return o.name
	}
	return "?" + d.GetHashString()
}

type ccReader struct {
	r      io.Reader
	fail   bool
	c      *ccCAS
	closed bool
}

func (r *ccReader) Read(p []byte) (int, error) {
	n, err := r.r.Read(p)
	if err == io.EOF && r.fail {
		return n, status.Error(codes.Unavailable, "injected read failure")
	}
	return n, err
}

func (r *ccReader) Close() error {
	r.c.mu.Lock()
	if !r.closed {
		r.c.Closed++
	}
	r.closed = true
	r.c.mu.Unlock()
	return nil
}

func (c *ccCAS) Get(ctx context.Context, d digest.Digest) buffer.Buffer {
	c.mu.Lock()
	defer c.mu.Unlock()
	c.Gets = append(c.Gets, c.nameOf(d))
	o, ok := c.byHash[d.GetHashString()]
	if !ok || !o.present || int64(len(o.data)) != d.GetSizeBytes() {
		return buffer.NewBufferFromError(status.Error(codes.NotFound, "Object not found"))
	}
	c.Opened++
	data := o.data
	fail := false
	switch o.state {
	case "trunc":
		data = data[:o.cut]
	case "ioerr":
		data = data[:o.cut]
		fail = true
	}
	return buffer.NewCASBufferFromReader(d, &ccReader{r: bytes.NewReader(data), fail: fail, c: c}, buffer.BackendProvided(buffer.Irreparable(d)))
}

func (c *ccCAS) GetFromComposite(ctx context.Context, p, ch digest.Digest, s slicing.BlobSlicer) buffer.Buffer {
	panic("unused")
}

func (c *ccCAS) Put(ctx context.Context, d digest.Digest, b buffer.Buffer) error {
	c.mu.Lock()
	c.Puts++
	c.mu.Unlock()
	b.Discard()
	return nil
}

func (c *ccCAS) FindMissing(ctx context.Context, digests digest.Set) (digest.Set, error) {
	c.mu.Lock()
	defer c.mu.Unlock()
	call := ccFm{Objs: []string{}, Missing: []string{}}
	sb := digest.NewSetBuilder(0)
	for _, d := range digests.Items() {
		call.Objs = append(call.Objs, c.nameOf(d))
		o, ok := c.byHash[d.GetHashString()]
		if !ok || !o.present || int64(len(o.data)) != d.GetSizeBytes() {
			sb.Add(d)
			call.Missing = append(call.Missing, c.nameOf(d))
		}
	}
	sort.Strings(call.Objs)
	sort.Strings(call.Missing)
	if len(c.Fm)+1 == c.fmFail {
		call.Failed = true
		call.Missing = []string{}
		c.Fm = append(c.Fm, call)
		return digest.EmptySet, status.Error(codes.Unavailable, "injected FindMissing failure")
	}
	c.Fm = append(c.Fm, call)
	return sb.Build(), nil
}

func (c *ccCAS) GetCapabilities(ctx context.Context, i digest.InstanceName) (*remoteexecution.ServerCapabilities, error) {
	panic("unused")
}

type ccAC struct {
	blobstore.BlobAccess
	state string
	ar    *remoteexecution.ActionResult
}

func (a *ccAC) Get(ctx context.Context, d digest.Digest) buffer.Buffer {
	switch a.state {
	case "absent":
		return buffer.NewBufferFromError(status.Error(codes.NotFound, "Object not found"))
	case "garbage":
		return buffer.NewProtoBufferFromByteSlice(&remoteexecution.ActionResult{}, []byte{0x0a, 0x7f, 0x01}, buffer.BackendProvided(buffer.Irreparable(d)))
	}
	return buffer.NewProtoBufferFromProto(a.ar, buffer.BackendProvided(buffer.Irreparable(d)))
}

var ccFunctions = map[string]remoteexecution.DigestFunction_Value{
	"SHA256": remoteexecution.DigestFunction_SHA256, "MD5": remoteexecution.DigestFunction_MD5, "SHA1": remoteexecution.DigestFunction_SHA1,
	"SHA384": remoteexecution.DigestFunction_SHA384, "SHA512": remoteexecution.DigestFunction_SHA512,
}

func runCompleteness(id string, cs *ccCase) map[string]any {
	fnName := cs.Fn
	if fnName == "" {
		fnName = "SHA256"
	}
	acDigest := digest.MustNewDigest("inst", ccFunctions[fnName], map[string]string{
		"SHA256": "e3b0c44298fc1c149afbf4c8996fb92427ae41e4649b934ca495991b7852b855", "MD5": "d41d8cd98f00b204e9800998ecf8427e",
		"SHA1":   "da39a3ee5e6b4b0d3255bfef95601890afd80709",
		"SHA384": "38b060a751ac96384cd9327eb1b1e36a21fdb71114be07434c0cc7bf63f6e1da274edebfe76f65fbd51ad2f14898b95b",
		"SHA512": "cf83e1357eefb8bdf1542850d66d8007d620e4050b5715dc83f4a921d36ce9ce47d0d13c5d85f2b0ff8318d2877eec2f63b931bd47417a81a538327af927da3e",
	}[fnName], 0)
	fn := acDigest.GetDigestFunction()
	cas := &ccCAS{byHash: map[string]*ccObject{}, fmFail: cs.FmFail}
	present := map[string]bool{}
	for _, n := range cs.Present {
		present[n] = true
	}
	store := func(name string, data []byte, isPresent bool, state string, cut int) *remoteexecution.Digest {
		g := fn.NewGenerator(int64(len(data)))
		g.Write(data)
		d := g.Sum()
		cas.byHash[d.GetHashString()] = &ccObject{name: name, data: data, present: isPresent, state: state, cut: cut}
		return d.GetProto()
	}
	ref := func(r string) *remoteexecution.Digest {
		switch r {
		case "":
			return nil
		case "bad":
			return &remoteexecution.Digest{Hash: "this-is-not-a-hash", SizeBytes: 5}
		case "badsize":
			return &remoteexecution.Digest{Hash: acDigest.GetHashString(), SizeBytes: -1}
		}
		return store(r, []byte("object-"+r), present[r], "ok", 0)
	}
	dirMsg := func(ti, j int, m ccDirMsg) *remoteexecution.Directory {
		d := &remoteexecution.Directory{Symlinks: []*remoteexecution.SymlinkNode{{Name: fmt.Sprintf("link-t%d-%d", ti, j), Target: "."}}}
		for k, f := range m.Files {
			d.Files = append(d.Files, &remoteexecution.FileNode{Name: fmt.Sprintf("f%d", k), Digest: ref(f)})
		}
		for k, f := range m.Dirs {
			d.Directories = append(d.Directories, &remoteexecution.DirectoryNode{Name: fmt.Sprintf("d%d", k), Digest: ref(f)})
		}
		return d
	}
	ar := &remoteexecution.ActionResult{ExitCode: 7, StdoutDigest: ref(cs.AR.Stdout), StderrDigest: ref(cs.AR.Stderr)}
	for k, f := range cs.AR.Files {
		ar.OutputFiles = append(ar.OutputFiles, &remoteexecution.OutputFile{Path: fmt.Sprintf("out%d", k), Digest: ref(f)})
	}
	sizes := []int64{}
	cuts := []int{}
	for i, od := range cs.AR.Dirs {
		tree := &remoteexecution.Tree{Root: dirMsg(i+1, 0, od.Root)}
		for j, ch := range od.Children {
			tree.Children = append(tree.Children, dirMsg(i+1, j+1, ch))
		}
		data, err := proto.MarshalOptions{Deterministic: true}.Marshal(tree)
		if err != nil {
			panic(err)
		}
		cut := 0
		state := od.State
		switch od.State {
		case "garbage":
			switch cs.Garbage {
			case "varint": // a field that is not length-delimited
				data = protowire.AppendVarint(protowire.AppendTag(append([]byte{}, data...), 7, protowire.VarintType), 5)
			case "overlong": // a field announcing more bytes than there are
				data = append(protowire.AppendVarint(protowire.AppendTag(append([]byte{}, data...), 2, protowire.BytesType), 100), 1, 2, 3)
			default: // a child that is not a Directory message
				data = protowire.AppendBytes(protowire.AppendTag(append([]byte{}, data...), 2, protowire.BytesType), []byte{0x0a, 0x7f, 0x01})
			}
			state = "ok"
		case "trunc", "ioerr":
			cut = (cs.Cut*7 + i) % len(data) // somewhere strictly inside the object
		}
		cuts = append(cuts, cut)
		td := store(fmt.Sprintf("t%d", i+1), data, od.State != "absent", state, cut)
		if od.TreeRef == "bad" {
			td = ref("bad")
		}
		sizes = append(sizes, int64(len(data)))
		ar.OutputDirectories = append(ar.OutputDirectories, &remoteexecution.OutputDirectory{Path: fmt.Sprintf("dir%d", i), TreeDigest: td, RootDirectoryDigest: ref(od.RootRef)})
	}
	// concretise the size limit: the Trees that fit in the abstract case fit exactly, the next one does not
	limit := int64(1 << 30)
	if cs.LimitBytes < 90 {
		var abs, real int64
		for i := range sizes {
			if abs+cs.Sizes[i] > cs.LimitBytes {
				break
			}
			abs += cs.Sizes[i]
			real += sizes[i]
		}
		limit = real
	}
	echo := *cs
	echo.Sizes, echo.LimitBytes = sizes, limit
	o := map[string]any{"ev": "Complete", "id": id, "case": echo, "panic": "", "cuts": cuts}
	ba := completenesschecking.NewCompletenessCheckingBlobAccess(&ccAC{state: cs.AC, ar: ar}, cas, cs.Batch, 1<<20, limit)
	var err error
	func() {
		defer func() {
			if r := recover(); r != nil {
				o["panic"] = fmt.Sprint(r)
			}
		}()
		var m proto.Message
		m, err = ba.Get(context.Background(), acDigest).ToProto(&remoteexecution.ActionResult{}, 1<<20)
		if err == nil {
			o["res"] = "Data"
			if !proto.Equal(m, ar) {
				o["res"] = "WRONGDATA"
			}
		}
	}()
	o["code"] = status.Code(err).String()
	if err != nil {
		o["res"], o["msg"] = "ERR", err.Error()
	}
	confirmed := []string{}
	fmFailed := false
	fm := [][]string{}
	for _, c := range cas.Fm {
		fm = append(fm, c.Objs)
		if c.Failed {
			fmFailed = true
			continue
		}
		miss := map[string]bool{}
		for _, n := range c.Missing {
			miss[n] = true
		}
		for _, n := range c.Objs {
			if !miss[n] {
				confirmed = append(confirmed, n)
			}
		}
	}
	o["confirmed"], o["fmFailed"], o["fm"], o["gets"] = confirmed, fmFailed, fm, append([]string{}, cas.Gets...)
	o["opened"], o["closed"], o["puts"] = cas.Opened, cas.Closed, cas.Puts
	return o
}

func TestCompleteness(t *testing.T) {
	out := os.Getenv("COMP_OUT")
	w := hx.NewWriter(filepath.Join(out, "complete.ndjson"))
	defer w.Close()
	n := 0
	hx.ReadLines(os.Getenv("COMP_CASES"), func(line []byte) {
		var cs ccCase
		if err := json.Unmarshal(line, &cs); err != nil {
			t.Fatal(err)
		}
		w.Emit(runCompleteness(fmt.Sprint(n), &cs))
		n++
	})
	b, _ := json.Marshal(map[string]any{"cases": n})
	os.WriteFile(filepath.Join(out, "complete_summary.json"), b, 0o644)
}
