package comp

import (
	"context"
	"fmt"
	"math/rand"
	"os"
	"path/filepath"
	"testing"
	"time"

	remoteexecution "github.com/bazelbuild/remote-apis/build/bazel/remote/execution/v2"
	"github.com/buildbarn/bb-storage/pkg/blobstore"
	"github.com/buildbarn/bb-storage/pkg/blobstore/buffer"
	"github.com/buildbarn/bb-storage/pkg/blobstore/slicing"
	"github.com/buildbarn/bb-storage/pkg/digest"
	"google.golang.org/grpc/codes"
	"google.golang.org/grpc/status"
	"google.golang.org/protobuf/proto"
	"google.golang.org/protobuf/types/known/timestamppb"

	"verif/harness/hx"
	"verif/harness/sim"
)

// expiryAC is an Action Cache holding one ActionResult (or none, or failing).
type expiryAC struct {
	mode string // "ok" | "absent" | "error"
	ar   *remoteexecution.ActionResult
}

func (a *expiryAC) Get(ctx context.Context, d digest.Digest) buffer.Buffer {
	switch a.mode {
	case "absent":
		return buffer.NewBufferFromError(status.Error(codes.NotFound, "no such action result"))
	case "error":
		return buffer.NewBufferFromError(status.Error(codes.Internal, "injected back-end failure"))
	}
	return buffer.NewProtoBufferFromProto(a.ar, buffer.BackendProvided(buffer.Irreparable(d)))
}

func (a *expiryAC) GetFromComposite(ctx context.Context, p, c digest.Digest, s slicing.BlobSlicer) buffer.Buffer {
	return buffer.NewBufferFromError(status.Error(codes.Unimplemented, "not used"))
}

func (a *expiryAC) Put(ctx context.Context, d digest.Digest, b buffer.Buffer) error {
	b.Discard()
	return nil
}

func (a *expiryAC) FindMissing(ctx context.Context, s digest.Set) (digest.Set, error) {
	return digest.EmptySet, nil
}

func (a *expiryAC) GetCapabilities(ctx context.Context, i digest.InstanceName) (*remoteexecution.ServerCapabilities, error) {
	return &remoteexecution.ServerCapabilities{}, nil
}

// TestExpiry observes the real actionResultExpiringBlobAccess: for a seeded configuration (minimum timestamp,
// minimum validity, maximum jitter) and a stored ActionResult with a seeded worker_completed_timestamp (or none),
// the same result is requested through two decorator instances at many moments of a virtual clock, in seeded
// (not chronological) order.  One observation per stored result; ExpiryContractTrace.tla judges it.
func TestExpiry(t *testing.T) {
	out := os.Getenv("COMP_OUT")
	w := hx.NewWriter(filepath.Join(out, "expiry.ndjson"))
	defer w.Close()
	rng := rand.New(rand.NewSource(int64(hx.EnvInt("VERIF_SEED", 1))*7919 + 5))
	runs := hx.EnvInt("COMP_RUNS", 300)
	base := time.Unix(1700000000, 0)
	d := digest.MustNewDigest("inst", remoteexecution.DigestFunction_SHA256, "e3b0c44298fc1c149afbf4c8996fb92427ae41e4649b934ca495991b7852b855", 0)
	for n := 0; n < runs; n++ {
		minTs := rng.Intn(20)
		minValidity := rng.Intn(12)
		maxJitter := 1 + rng.Intn(10)
		ts := -1
		backend := "ok"
		switch r := rng.Intn(12); {
		case r == 0:
			backend = "absent"
		case r == 1:
			backend = "error"
		case r == 2:
			// no timestamp
		default:
			ts = rng.Intn(40)
		}
		ar := &remoteexecution.ActionResult{ExitCode: int32(n), StdoutRaw: []byte(fmt.Sprintf("run-%d", n))}
		switch {
		case ts >= 0:
			ar.ExecutionMetadata = &remoteexecution.ExecutedActionMetadata{Worker: "w", WorkerCompletedTimestamp: timestamppb.New(base.Add(time.Duration(ts) * time.Second))}
		case rng.Intn(2) == 0:
			ar.ExecutionMetadata = &remoteexecution.ExecutedActionMetadata{Worker: "w"} // metadata without the timestamp
		}
		ac := &expiryAC{mode: backend, ar: ar}
		clk := sim.NewClock()
		insts := []blobstore.BlobAccess{}
		for i := 0; i < 2; i++ {
			insts = append(insts, blobstore.NewActionResultExpiringBlobAccess(ac, clk, 1<<20, base.Add(time.Duration(minTs)*time.Second),
				time.Duration(minValidity)*time.Second, time.Duration(maxJitter)*time.Second))
		}
		o := map[string]any{"id": n, "minTs": minTs, "minValidity": minValidity, "maxJitter": maxJitter, "ts": ts, "backend": backend, "panic": ""}
		steps := []any{}
		func() {
			defer func() {
				if r := recover(); r != nil {
					o["panic"] = fmt.Sprint(r)
				}
			}()
			cur := clk.Now()
			for s := 0; s < 14; s++ {
				// moments cluster around the interesting boundaries: ts + minValidity .. ts + minValidity + maxJitter
				now := rng.Intn(70)
				if ts >= 0 && rng.Intn(3) > 0 {
					now = ts + minValidity - 1 + rng.Intn(maxJitter+3)
					if now < 0 {
						now = 0
					}
				}
				target := base.Add(time.Duration(now) * time.Second)
				clk.Advance(target.Sub(cur)) // the virtual clock may be set back: each Get is judged by the moment it was made at
				cur = target
				inst := rng.Intn(2)
				msg, err := insts[inst].Get(context.Background(), d).ToProto(&remoteexecution.ActionResult{}, 1<<20)
				st := map[string]any{"inst": inst, "now": now, "code": status.Code(err).String(), "same": false}
				if err == nil {
					st["code"] = "OK"
					st["same"] = proto.Equal(msg, ar)
				} else {
					st["code"] = codeName(status.Code(err))
				}
				steps = append(steps, st)
			}
		}()
		o["steps"] = steps
		w.Emit(o)
	}
}

func codeName(c codes.Code) string {
	switch c {
	case codes.NotFound:
		return "NOT_FOUND"
	case codes.Internal:
		return "INTERNAL"
	case codes.OK:
		return "OK"
	}
	return c.String()
}
