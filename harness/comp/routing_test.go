package comp

import (
	"context"
	"encoding/json"
	"fmt"
	"os"
	"path/filepath"
	"strings"
	"testing"

	"github.com/buildbarn/bb-storage/pkg/blobstore"
	"github.com/buildbarn/bb-storage/pkg/blobstore/buffer"
	"github.com/buildbarn/bb-storage/pkg/digest"
	"google.golang.org/grpc/codes"
	"google.golang.org/grpc/status"

	"verif/harness/hx"
)

type rItem struct {
	Obj  string   `json:"obj"`
	Name []string `json:"name"`
}

type rPrefix struct {
	Match []string `json:"match"`
	Add   []string `json:"add"`
	Has   bool     `json:"has"`
}

type rTrieOp struct {
	Op   string   `json:"op"`
	Name []string `json:"name"`
	V    int      `json:"v"`
}

type rCase struct {
	Fam       string    `json:"fam"`
	Ops       []rTrieOp `json:"ops"`
	Prefixes  []rPrefix `json:"prefixes"`
	Op        string    `json:"op"`
	Items     []rItem   `json:"items"`
	Placement []rItem   `json:"placement"`
}

func joinName(c []string) string { return strings.Join(c, "/") }
func splitName(s string) []string {
	if s == "" {
		return []string{}
	}
	return strings.Split(s, "/")
}
func mustName(c []string) digest.InstanceName {
	n, err := digest.NewInstanceName(joinName(c))
	if err != nil {
		panic(err)
	}
	return n
}

func allNames(comps []string, depth int) [][]string {
	out := [][]string{{}}
	frontier := [][]string{{}}
	for d := 0; d < depth; d++ {
		var next [][]string
		for _, f := range frontier {
			for _, c := range comps {
				n := append(append([]string{}, f...), c)
				next = append(next, n)
				out = append(out, n)
			}
		}
		frontier = next
	}
	return out
}

func runTrieCase(c *rCase, names [][]string) map[string]any {
	o := map[string]any{"ev": "Trie", "ops": c.Ops, "panic": "", "queries": []any{}, "empty": true}
	defer func() {
		if r := recover(); r != nil {
			o["panic"] = fmt.Sprint(r)
		}
	}()
	tr := digest.NewInstanceNameTrie()
	empty := true
	for _, op := range c.Ops {
		if op.Op == "set" {
			tr.Set(mustName(op.Name), op.V)
			empty = false
		} else {
			empty = tr.Remove(mustName(op.Name))
		}
	}
	o["empty"] = empty
	var qs []any
	for _, n := range names {
		in := mustName(n)
		qs = append(qs, map[string]any{"name": n, "exact": tr.GetExact(in), "longest": tr.GetLongestPrefix(in), "contains": tr.ContainsPrefix(in)})
	}
	o["queries"] = qs
	return o
}

type itemCall struct {
	Backend []string `json:"backend"`
	Op      string   `json:"op"`
	Items   []rItem  `json:"items"`
}

// instanceRecorder is a model back end that records the (object, instance name) pairs it is asked about.
type instanceRecorder struct {
	blobstore.BlobAccess
	id    []string
	has   bool
	u     *Universe
	calls *[]itemCall
}

func (b *instanceRecorder) Get(ctx context.Context, d digest.Digest) buffer.Buffer {
	*b.calls = append(*b.calls, itemCall{Backend: b.id, Op: "Get", Items: []rItem{{b.u.Name(d), splitName(d.GetInstanceName().String())}}})
	if !b.has {
		return buffer.NewBufferFromError(status.Error(codes.NotFound, "Object not found"))
	}
	return buffer.NewCASBufferFromByteSlice(d, b.u.Data(b.u.Name(d)), buffer.BackendProvided(buffer.Irreparable(d)))
}

func (b *instanceRecorder) Put(ctx context.Context, d digest.Digest, buf buffer.Buffer) error {
	*b.calls = append(*b.calls, itemCall{Backend: b.id, Op: "Put", Items: []rItem{{b.u.Name(d), splitName(d.GetInstanceName().String())}}})
	_, err := buf.ToByteSlice(1 << 20)
	return err
}

func (b *instanceRecorder) FindMissing(ctx context.Context, digests digest.Set) (digest.Set, error) {
	c := itemCall{Backend: b.id, Op: "FindMissing", Items: []rItem{}}
	for _, d := range digests.Items() {
		c.Items = append(c.Items, rItem{b.u.Name(d), splitName(d.GetInstanceName().String())})
	}
	*b.calls = append(*b.calls, c)
	if b.has {
		return digest.EmptySet, nil
	}
	return digests, nil
}

func runDemuxCase(c *rCase) map[string]any {
	o := map[string]any{"ev": "Demux", "prefixes": c.Prefixes, "op": c.Op, "items": c.Items, "panic": "", "missing": []rItem{}, "found": false, "calls": []itemCall{}}
	defer func() {
		if r := recover(); r != nil {
			o["panic"] = fmt.Sprint(r)
		}
	}()
	u := NewUniverse([]string{"p", "q"})
	var calls []itemCall
	// wired exactly like pkg/blobstore/configuration: a trie of prefixes, one patcher per prefix, the prefix as back end name
	trie := digest.NewInstanceNameTrie()
	type info struct {
		backend blobstore.BlobAccess
		name    string
		patcher digest.InstanceNamePatcher
	}
	var backends []info
	for _, p := range c.Prefixes {
		match, add := mustName(p.Match), mustName(p.Add)
		trie.Set(match, len(backends))
		backends = append(backends, info{backend: &instanceRecorder{id: p.Match, has: p.Has, u: u, calls: &calls}, name: match.String(),
			patcher: digest.NewInstanceNamePatcher(match, add)})
	}
	ba := blobstore.NewDemultiplexingBlobAccess(func(i digest.InstanceName) (blobstore.BlobAccess, string, digest.InstanceNamePatcher, error) {
		idx := trie.GetLongestPrefix(i)
		if idx < 0 {
			return nil, "", digest.NoopInstanceNamePatcher, status.Errorf(codes.InvalidArgument, "Unknown instance name: %#v", i.String())
		}
		return backends[idx].backend, backends[idx].name, backends[idx].patcher, nil
	})
	ctx := context.Background()
	var err error
	switch c.Op {
	case "Get":
		it := c.Items[0]
		_, err = ba.Get(ctx, u.Digest(it.Obj, joinName(it.Name))).ToByteSlice(1 << 20)
		o["found"] = err == nil
		if status.Code(err) == codes.NotFound {
			err = nil
		}
	case "Put":
		it := c.Items[0]
		d := u.Digest(it.Obj, joinName(it.Name))
		err = ba.Put(ctx, d, buffer.NewCASBufferFromByteSlice(d, u.Data(it.Obj), buffer.UserProvided))
	case "Fm":
		sb := digest.NewSetBuilder(0)
		for _, it := range c.Items {
			sb.Add(u.Digest(it.Obj, joinName(it.Name)))
		}
		var missing digest.Set
		missing, err = ba.FindMissing(ctx, sb.Build())
		ms := []rItem{}
		for _, d := range missing.Items() {
			ms = append(ms, rItem{u.Name(d), splitName(d.GetInstanceName().String())})
		}
		o["missing"] = ms
	}
	o["res"], o["code"] = "OK", "OK"
	if err != nil {
		o["res"], o["code"], o["msg"] = "ERR", status.Code(err).String(), err.Error()
	}
	if calls == nil {
		calls = []itemCall{}
	}
	o["calls"] = calls
	return o
}

func runHierCase(c *rCase) map[string]any {
	pl := c.Placement
	if pl == nil {
		pl = []rItem{}
	}
	o := map[string]any{"ev": "Hier", "placement": pl, "op": c.Op, "items": c.Items, "panic": "", "missing": []rItem{}, "found": false, "servedFrom": []string{"?"}}
	defer func() {
		if r := recover(); r != nil {
			o["panic"] = fmt.Sprint(r)
		}
	}()
	u := NewUniverse([]string{"p", "q"})
	log := &CallLog{}
	be := NewModelBackend("X", u, log)
	be.InstanceAware = true
	for _, it := range c.Placement {
		be.Store(it.Obj, joinName(it.Name))
	}
	ba := blobstore.NewHierarchicalInstanceNamesBlobAccess(be)
	ctx := context.Background()
	var err error
	switch c.Op {
	case "Get":
		it := c.Items[0]
		_, err = ba.Get(ctx, u.Digest(it.Obj, joinName(it.Name))).ToByteSlice(1 << 20)
		o["found"] = err == nil
		if err == nil {
			calls := log.Snapshot()
			o["servedFrom"] = splitName(calls[len(calls)-1].Inst)
		}
		if status.Code(err) == codes.NotFound {
			err = nil
		}
	case "Fm":
		sb := digest.NewSetBuilder(0)
		for _, it := range c.Items {
			sb.Add(u.Digest(it.Obj, joinName(it.Name)))
		}
		var missing digest.Set
		missing, err = ba.FindMissing(ctx, sb.Build())
		ms := []rItem{}
		for _, d := range missing.Items() {
			ms = append(ms, rItem{u.Name(d), splitName(d.GetInstanceName().String())})
		}
		o["missing"] = ms
	}
	o["res"], o["code"] = "OK", "OK"
	if err != nil {
		o["res"], o["code"], o["msg"] = "ERR", status.Code(err).String(), err.Error()
	}
	return o
}

// TestRouting replays the cases of Routing.tla (C19).
func TestRouting(t *testing.T) {
	out := os.Getenv("COMP_OUT")
	w := hx.NewWriter(filepath.Join(out, "routing.ndjson"))
	defer w.Close()
	depth := hx.EnvInt("ROUTING_DEPTH", 2)
	names := allNames([]string{"a", "ab"}, depth)
	n := 0
	hx.ReadLines(os.Getenv("COMP_CASES"), func(line []byte) {
		var c rCase
		if err := json.Unmarshal(line, &c); err != nil {
			t.Fatal(err)
		}
		switch c.Fam {
		case "trie":
			w.Emit(runTrieCase(&c, names))
		case "demux":
			w.Emit(runDemuxCase(&c))
		case "hier":
			w.Emit(runHierCase(&c))
		}
		n++
	})
	b, _ := json.Marshal(map[string]any{"cases": n})
	os.WriteFile(filepath.Join(out, "routing_summary.json"), b, 0o644)
}
