package sim

import (
	"errors"
	"io"
	"os"
	"sync"

	"github.com/buildbarn/bb-storage/pkg/filesystem"
	"github.com/buildbarn/bb-storage/pkg/filesystem/path"
)

// ErrCrashed is returned by every simulated medium once the machine "crashed":
// from that instant on no call has any effect.
var ErrCrashed = errors.New("sim: machine crashed")

type inode struct {
	data    []byte // current contents
	durable []byte // contents guaranteed to survive (last file.Sync)
	synced  bool   // durable is meaningful (file.Sync was called at least once)
}

// NsOp is a namespace operation not yet made durable by Directory.Sync.
type NsOp struct {
	Kind string // create | remove | rename
	Name string
	To   string
	ino  *inode
}

// Dir implements the subset of filesystem.Directory that
// DirectoryBackedPersistentStateStore uses, with POSIX-like durability:
// file contents become durable with file.Sync, namespace changes with
// Directory.Sync.  Calling any other method panics (nil embedded interface).
type Dir struct {
	filesystem.Directory // unimplemented methods

	mu      sync.Mutex
	cur     map[string]*inode
	durable map[string]*inode
	journal []NsOp
	Ops     int // number of calls so far
	// Hook is invoked before every call with its name; it may return an error to
	// inject a failure (ErrCrashed freezes the directory).
	Hook    func(op string) error
	crashed bool
}

func NewDir() *Dir {
	return &Dir{cur: map[string]*inode{}, durable: map[string]*inode{}}
}

// NewDirFromFiles creates a directory whose (durable) contents are files.
func NewDirFromFiles(files map[string][]byte) *Dir {
	d := NewDir()
	for n, b := range files {
		ino := &inode{data: append([]byte(nil), b...), durable: append([]byte(nil), b...), synced: true}
		d.cur[n] = ino
		d.durable[n] = ino
	}
	return d
}

func (d *Dir) enter(op string) error {
	if d.crashed {
		return ErrCrashed
	}
	d.Ops++
	if d.Hook != nil {
		if err := d.Hook(op); err != nil {
			if err == ErrCrashed {
				d.crashed = true
			}
			return err
		}
	}
	return nil
}

func (d *Dir) Remove(name path.Component) error {
	d.mu.Lock()
	defer d.mu.Unlock()
	if err := d.enter("remove " + name.String()); err != nil {
		return err
	}
	if _, ok := d.cur[name.String()]; !ok {
		return os.ErrNotExist
	}
	delete(d.cur, name.String())
	d.journal = append(d.journal, NsOp{Kind: "remove", Name: name.String()})
	return nil
}

type appender struct {
	d   *Dir
	ino *inode
}

func (a *appender) Write(p []byte) (int, error) {
	a.d.mu.Lock()
	defer a.d.mu.Unlock()
	if err := a.d.enter("write"); err != nil {
		return 0, err
	}
	a.ino.data = append(a.ino.data, p...)
	return len(p), nil
}

func (a *appender) Sync() error {
	a.d.mu.Lock()
	defer a.d.mu.Unlock()
	if err := a.d.enter("fsync"); err != nil {
		return err
	}
	a.ino.durable = append([]byte(nil), a.ino.data...)
	a.ino.synced = true
	return nil
}

func (a *appender) Close() error {
	a.d.mu.Lock()
	defer a.d.mu.Unlock()
	return a.d.enter("close")
}

func (d *Dir) OpenAppend(name path.Component, creationMode filesystem.CreationMode) (filesystem.FileAppender, error) {
	d.mu.Lock()
	defer d.mu.Unlock()
	if err := d.enter("create " + name.String()); err != nil {
		return nil, err
	}
	if _, ok := d.cur[name.String()]; ok {
		return nil, os.ErrExist
	}
	ino := &inode{}
	d.cur[name.String()] = ino
	d.journal = append(d.journal, NsOp{Kind: "create", Name: name.String(), ino: ino})
	return &appender{d: d, ino: ino}, nil
}

type reader struct {
	data []byte
}

func (r *reader) ReadAt(p []byte, off int64) (int, error) {
	if off >= int64(len(r.data)) {
		return 0, io.EOF
	}
	n := copy(p, r.data[off:])
	if n < len(p) {
		return n, io.EOF
	}
	return n, nil
}
func (r *reader) Close() error { return nil }
func (r *reader) GetNextRegionOffset(offset int64, regionType filesystem.RegionType) (int64, error) {
	panic("unused")
}
func (r *reader) Len() (int64, error) { return int64(len(r.data)), nil }

func (d *Dir) OpenRead(name path.Component) (filesystem.FileReader, error) {
	d.mu.Lock()
	defer d.mu.Unlock()
	ino, ok := d.cur[name.String()]
	if !ok {
		return nil, os.ErrNotExist
	}
	return &reader{data: append([]byte(nil), ino.data...)}, nil
}

func (d *Dir) Rename(oldName path.Component, newDirectory filesystem.Directory, newName path.Component) error {
	d.mu.Lock()
	defer d.mu.Unlock()
	if err := d.enter("rename " + oldName.String() + " " + newName.String()); err != nil {
		return err
	}
	ino, ok := d.cur[oldName.String()]
	if !ok {
		return os.ErrNotExist
	}
	delete(d.cur, oldName.String())
	d.cur[newName.String()] = ino
	d.journal = append(d.journal, NsOp{Kind: "rename", Name: oldName.String(), To: newName.String()})
	return nil
}

func (d *Dir) Sync() error {
	d.mu.Lock()
	defer d.mu.Unlock()
	if err := d.enter("dirsync"); err != nil {
		return err
	}
	d.durable = map[string]*inode{}
	for n, i := range d.cur {
		d.durable[n] = i
	}
	d.journal = nil
	return nil
}

// Freeze makes every later call fail with ErrCrashed.
func (d *Dir) Freeze() {
	d.mu.Lock()
	d.crashed = true
	d.mu.Unlock()
}

// JournalLen returns the number of namespace operations since the last Sync.
func (d *Dir) JournalLen() int {
	d.mu.Lock()
	defer d.mu.Unlock()
	return len(d.journal)
}

// CrashFiles returns the files that exist after a crash in which the first
// keepOps unsynced namespace operations reached the disk (ordered metadata
// journaling) and unsynced file contents were kept (keepData) or lost.
func (d *Dir) CrashFiles(keepOps int, keepData bool) map[string][]byte {
	d.mu.Lock()
	defer d.mu.Unlock()
	ns := map[string]*inode{}
	for n, i := range d.durable {
		ns[n] = i
	}
	for i, op := range d.journal {
		if i >= keepOps {
			break
		}
		switch op.Kind {
		case "create":
			ns[op.Name] = op.ino
		case "remove":
			delete(ns, op.Name)
		case "rename":
			if ino, ok := ns[op.Name]; ok {
				delete(ns, op.Name)
				ns[op.To] = ino
			}
		}
	}
	out := map[string][]byte{}
	for n, ino := range ns {
		switch {
		case keepData:
			out[n] = append([]byte(nil), ino.data...)
		case ino.synced:
			out[n] = append([]byte(nil), ino.durable...)
		default:
			out[n] = []byte{}
		}
	}
	return out
}

// Files returns the current (volatile) view, as a process restart without
// machine crash would see it.
func (d *Dir) Files() map[string][]byte {
	d.mu.Lock()
	defer d.mu.Unlock()
	out := map[string][]byte{}
	for n, ino := range d.cur {
		out[n] = append([]byte(nil), ino.data...)
	}
	return out
}
