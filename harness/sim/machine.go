package sim

import "sync"

// Machine counts the I/O operations of all simulated media of one store and
// "crashes" at a chosen operation: that operation and every later one has no
// effect and returns ErrCrashed.
type Machine struct {
	mu      sync.Mutex
	Ops     int
	CrashAt int // 0 = never
	crashed bool
	OnCrash func(op int, what string)
	Trace   func(op int, what string)
}

func (m *Machine) Tick(what string) error {
	m.mu.Lock()
	if m.crashed {
		m.mu.Unlock()
		return ErrCrashed
	}
	m.Ops++
	n := m.Ops
	if m.CrashAt > 0 && n >= m.CrashAt {
		m.crashed = true
		cb := m.OnCrash
		m.mu.Unlock()
		if cb != nil {
			cb(n, what)
		}
		return ErrCrashed
	}
	tr := m.Trace
	m.mu.Unlock()
	if tr != nil {
		tr(n, what)
	}
	return nil
}

// CrashNow crashes the machine between two operations.
func (m *Machine) CrashNow() {
	m.mu.Lock()
	m.crashed = true
	m.mu.Unlock()
}

func (m *Machine) Crashed() bool {
	m.mu.Lock()
	defer m.mu.Unlock()
	return m.crashed
}
