package sim

import (
	"context"
	"fmt"
	"sync"
	"time"

	"github.com/buildbarn/bb-storage/pkg/clock"
)

// Clock is a virtual clock.Clock: time only moves when the scheduler says so
// and timers fire only when the scheduler fires them.
type Clock struct {
	mu     sync.Mutex
	now    time.Time
	timers []*Timer
	seq    int
	// OnTimer is called (without the lock) when a timer is created.
	OnTimer func(t *Timer)
	// Dead makes NewTimer panic with CrashSentinel (used to unwind retry loops
	// after a simulated crash).
	Dead bool
}

type Timer struct {
	ID       int
	Duration time.Duration
	Deadline time.Time
	ch       chan time.Time
	fired    bool
	stopped  bool
	c        *Clock
}

func NewClock() *Clock { return &Clock{now: time.Unix(1000000, 0)} }

func (c *Clock) Now() time.Time {
	c.mu.Lock()
	defer c.mu.Unlock()
	return c.now
}

func (c *Clock) Advance(d time.Duration) {
	c.mu.Lock()
	c.now = c.now.Add(d)
	c.mu.Unlock()
}

func (c *Clock) NewContextWithTimeout(parent context.Context, timeout time.Duration) (context.Context, context.CancelFunc) {
	return context.WithCancel(parent)
}

func (c *Clock) NewTimer(d time.Duration) (clock.Timer, <-chan time.Time) {
	c.mu.Lock()
	if c.Dead {
		c.mu.Unlock()
		panic(CrashSentinel{})
	}
	c.seq++
	t := &Timer{ID: c.seq, Duration: d, Deadline: c.now.Add(d), ch: make(chan time.Time, 1), c: c}
	c.timers = append(c.timers, t)
	cb := c.OnTimer
	c.mu.Unlock()
	if cb != nil {
		cb(t)
	}
	return t, t.ch
}

func (c *Clock) NewTicker(d time.Duration) (clock.Ticker, <-chan time.Time) { panic("unused") }

func (t *Timer) Stop() bool {
	t.c.mu.Lock()
	defer t.c.mu.Unlock()
	was := !t.fired && !t.stopped
	t.stopped = true
	return was
}

// Pending returns the timers that have neither fired nor been stopped.
func (c *Clock) Pending() []*Timer {
	c.mu.Lock()
	defer c.mu.Unlock()
	var out []*Timer
	for _, t := range c.timers {
		if !t.fired && !t.stopped {
			out = append(out, t)
		}
	}
	return out
}

// Fire advances the clock to the timer's deadline (if it lies in the future)
// and delivers the expiry.
func (c *Clock) Fire(id int) bool {
	c.mu.Lock()
	defer c.mu.Unlock()
	for _, t := range c.timers {
		if t.ID == id && !t.fired && !t.stopped {
			if t.Deadline.After(c.now) {
				c.now = t.Deadline
			}
			t.fired = true
			t.ch <- c.now
			return true
		}
	}
	return false
}

func (t *Timer) String() string { return fmt.Sprintf("timer%d(%v)", t.ID, t.Duration) }
