// Package sim provides simulated media (block device, directory, clock) that
// the conformance harness hands to the real bb-storage components.  They
// record every call, can gate (block) and fail calls, and keep a journal of
// writes since the last completed sync so that every admissible post-crash
// image can be materialised.
package sim

import (
	"fmt"
	"io"
	"sync"
)

// JournalEntry is one sector-granular write that has not been made durable yet.
type JournalEntry struct {
	Off  int64
	Data []byte
}

// DeviceHooks lets a scheduler observe and gate calls. All callbacks may be nil.
type DeviceHooks struct {
	// Before is invoked before an operation takes effect; it may block (gate)
	// and may return an error to inject a failure.
	Before func(op string, off int64, n int) error
	// After is invoked after the operation took effect.
	After func(op string, off int64, n int)
}

// Device is an in-memory blockdevice.BlockDevice with durability journal.
type Device struct {
	mu         sync.Mutex
	SectorSize int
	cur        []byte // what reads observe
	durable    []byte // what is guaranteed to survive a crash
	journal    []JournalEntry
	syncSnap   int // journal length captured by SyncBegin (-1 if none in progress)
	Hooks      DeviceHooks
	crashed    bool
	Writes     int
	Reads      int
	Syncs      int
}

// CrashSentinel is panicked by simulated media once Crash() has been called.
type CrashSentinel struct{}

func NewDevice(sectorSize, sectors int) *Device {
	return &Device{
		SectorSize: sectorSize,
		cur:        make([]byte, sectorSize*sectors),
		durable:    make([]byte, sectorSize*sectors),
		syncSnap:   -1,
	}
}

// NewDeviceFromImage creates a device whose current and durable contents are img.
func NewDeviceFromImage(sectorSize int, img []byte) *Device {
	d := &Device{SectorSize: sectorSize, cur: append([]byte(nil), img...), durable: append([]byte(nil), img...), syncSnap: -1}
	return d
}

func (d *Device) Size() int { return len(d.cur) }

func (d *Device) checkCrashed() {
	if d.crashed {
		panic(CrashSentinel{})
	}
}

// Journal returns a copy of the unsynced sector writes.
func (d *Device) Journal() []JournalEntry {
	d.mu.Lock()
	defer d.mu.Unlock()
	return append([]JournalEntry(nil), d.journal...)
}

func (d *Device) ReadAt(p []byte, off int64) (int, error) {
	if h := d.Hooks.Before; h != nil {
		if err := h("R", off, len(p)); err != nil {
			return 0, err
		}
	}
	d.mu.Lock()
	defer d.mu.Unlock()
	d.checkCrashed()
	d.Reads++
	if off < 0 || off > int64(len(d.cur)) {
		return 0, fmt.Errorf("sim: read at %d out of range", off)
	}
	n := copy(p, d.cur[off:])
	if h := d.Hooks.After; h != nil {
		h("R", off, n)
	}
	if n < len(p) {
		return n, io.EOF
	}
	return n, nil
}

func (d *Device) WriteAt(p []byte, off int64) (int, error) {
	if h := d.Hooks.Before; h != nil {
		if err := h("W", off, len(p)); err != nil {
			return 0, err
		}
	}
	d.mu.Lock()
	defer d.mu.Unlock()
	d.checkCrashed()
	d.Writes++
	if off < 0 || off+int64(len(p)) > int64(len(d.cur)) {
		return 0, fmt.Errorf("sim: write at %d+%d out of range (%d)", off, len(p), len(d.cur))
	}
	copy(d.cur[off:], p)
	// Journal at sector granularity: a write may be torn at sector boundaries.
	ss := int64(d.SectorSize)
	for o := off; o < off+int64(len(p)); {
		end := (o/ss + 1) * ss
		if end > off+int64(len(p)) {
			end = off + int64(len(p))
		}
		d.journal = append(d.journal, JournalEntry{Off: o, Data: append([]byte(nil), p[o-off:end-off]...)})
		o = end
	}
	if h := d.Hooks.After; h != nil {
		h("W", off, len(p))
	}
	return len(p), nil
}

// Sync makes everything written before the call durable. It is two-phase
// internally so that writes racing with the sync are not made durable.
func (d *Device) Sync() error {
	d.mu.Lock()
	d.checkCrashed()
	snap := len(d.journal)
	d.mu.Unlock()
	if h := d.Hooks.Before; h != nil {
		if err := h("S", 0, snap); err != nil {
			return err
		}
	}
	d.mu.Lock()
	defer d.mu.Unlock()
	d.checkCrashed()
	d.Syncs++
	for _, e := range d.journal[:snap] {
		copy(d.durable[e.Off:], e.Data)
	}
	d.journal = append([]JournalEntry(nil), d.journal[snap:]...)
	if h := d.Hooks.After; h != nil {
		h("S", 0, snap)
	}
	return nil
}

func (d *Device) Close() error { return nil }

// JournalLen returns the number of unsynced sector writes.
func (d *Device) JournalLen() int {
	d.mu.Lock()
	defer d.mu.Unlock()
	return len(d.journal)
}

// Crash marks the device as crashed (every later call panics with
// CrashSentinel) and returns the journal as it was at that instant.
func (d *Device) Crash() []JournalEntry {
	d.mu.Lock()
	defer d.mu.Unlock()
	d.crashed = true
	return append([]JournalEntry(nil), d.journal...)
}

// CrashImage returns the post-crash image in which exactly the journal entries
// selected by keep (keep(i) == true) survived, applied in order.
func (d *Device) CrashImage(keep func(i int) bool) []byte {
	d.mu.Lock()
	defer d.mu.Unlock()
	img := append([]byte(nil), d.durable...)
	for i, e := range d.journal {
		if keep(i) {
			copy(img[e.Off:], e.Data)
		}
	}
	return img
}

// Image returns a copy of the current (volatile) contents.
func (d *Device) Image() []byte {
	d.mu.Lock()
	defer d.mu.Unlock()
	return append([]byte(nil), d.cur...)
}

// Corrupt flips the byte at off in both the current and durable image.
// CorruptWith flips the bits of mask in the byte at off (current and durable contents).
func (d *Device) CorruptWith(off int64, mask byte) {
	d.mu.Lock()
	defer d.mu.Unlock()
	d.cur[off] ^= mask
	d.durable[off] ^= mask
}

func (d *Device) Corrupt(off int64) {
	d.mu.Lock()
	defer d.mu.Unlock()
	d.cur[off] ^= 0xff
	d.durable[off] ^= 0xff
}
