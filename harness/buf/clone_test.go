package buf

import (
	"time"
	"bytes"
	"encoding/json"
	"fmt"
	"io"
	"math/rand"
	"os"
	"path/filepath"
	"runtime"
	"sync"
	"sync/atomic"
	"testing"
	"testing/synctest"

	"github.com/buildbarn/bb-storage/pkg/blobstore/buffer"
	"google.golang.org/grpc/codes"
	"google.golang.org/grpc/status"

	"verif/harness/hx"
)

// ---- C15 (a): stream clones under scripted interleavings ---------------------------

type muxStep struct {
	C  string `json:"c"`
	Op string `json:"op"`
}

type muxScript struct {
	ID     string    `json:"id"`
	N      int       `json:"n"`
	Chunks []string  `json:"chunks"`
	Err    bool      `json:"err"`
	Steps  []muxStep `json:"steps"`
}

type muxConsumer struct {
	name   string
	b      buffer.Buffer
	r      buffer.ChunkReader
	ops    chan string
	got    []string
	closed bool
	busy   atomic.Bool
	panicMsg string
}

func (c *muxConsumer) run(wg *sync.WaitGroup) {
	defer wg.Done()
	defer func() {
		if r := recover(); r != nil {
			c.panicMsg = fmt.Sprint(r)
			c.busy.Store(false)
		}
	}()
	for op := range c.ops {
		c.busy.Store(true)
		switch op {
		case "obtain":
			c.r = c.b.ToChunkReader(0, 64)
		case "read":
			chunk, err := c.r.Read()
			switch {
			case err == io.EOF:
				c.got = append(c.got, "EOF")
			case err != nil:
				c.got = append(c.got, "ERR")
			default:
				c.got = append(c.got, string(chunk))
			}
		case "close":
			c.r.Close()
			c.closed = true
		}
		c.busy.Store(false)
	}
}

// runMux executes one interleaving of Obtain/Read/Close calls of N clone
// holders on the real buffers and returns the observation.
func runMux(t *testing.T, sc *muxScript) (o map[string]any) {
	o = map[string]any{"ev": "Mux", "id": sc.ID, "n": sc.N, "chunks": sc.Chunks, "err": sc.Err, "deadlock": false, "panic": ""}
	var consumers []*muxConsumer
	src := &scriptChunkReader{term: "EOF"}
	if sc.Err {
		src.term = "ERR"
	}
	defer func() {
		if r := recover(); r != nil {
			// synctest reports a bubble whose goroutines are all blocked: somebody waits forever
			o["deadlock"] = true
			o["panic"] = fmt.Sprint(r)
			fill(o, consumers, src)
		}
	}()
	synctest.Test(t, func(t *testing.T) {
		var data []byte
		for _, c := range sc.Chunks {
			src.items = append(src.items, []byte(c))
			data = append(data, c...)
		}
		b := buffer.NewCASBufferFromChunkReader(digestOf("SHA256", data), src, buffer.UserProvided)
		clones := []buffer.Buffer{b}
		for len(clones) < sc.N {
			b1, b2 := clones[len(clones)-1].CloneStream()
			clones[len(clones)-1] = b1
			clones = append(clones, b2)
		}
		var wg sync.WaitGroup
		byName := map[string]*muxConsumer{}
		for i, cb := range clones {
			c := &muxConsumer{name: fmt.Sprintf("c%d", i+1), b: cb, ops: make(chan string)}
			consumers = append(consumers, c)
			byName[c.name] = c
			wg.Add(1)
			go c.run(&wg)
		}
		skipped := 0
		for _, st := range sc.Steps {
			c := byName[st.C]
			if c.busy.Load() || c.panicMsg != "" {
				skipped++ // the consumer is still blocked in its previous call on this code base
				continue
			}
			c.ops <- st.Op
			synctest.Wait()
		}
		o["skipped"] = skipped
		for _, c := range consumers {
			if !c.busy.Load() {
				close(c.ops)
			}
		}
		synctest.Wait()
		fill(o, consumers, src)
		for _, c := range consumers {
			if c.busy.Load() {
				o["deadlock"] = true
			}
		}
	})
	return o
}

func fill(o map[string]any, consumers []*muxConsumer, src *scriptChunkReader) {
	got := map[string][]string{}
	closed := map[string]bool{}
	for _, c := range consumers {
		g := c.got
		if g == nil {
			g = []string{}
		}
		got[c.name] = g
		closed[c.name] = c.closed
		if c.panicMsg != "" {
			o["panic"] = c.panicMsg
		}
	}
	o["got"] = got
	o["closed"] = closed
	o["srcClosed"] = src.closed
}

// TestMux replays the interleavings generated from CloneMux.tla and adds
// free-running consumers with random programs.
func TestMux(t *testing.T) {
	out := os.Getenv("BUF_OUT")
	w := hx.NewWriter(filepath.Join(out, "mux.ndjson"))
	defer w.Close()
	n := 0
	hx.ReadLines(os.Getenv("BUF_SCRIPTS"), func(line []byte) {
		var sc muxScript
		if err := json.Unmarshal(line, &sc); err != nil {
			t.Fatal(err)
		}
		w.Emit(runMux(t, &sc))
		n++
	})
	// free-running: real goroutines, every consumer reads a random number of chunks, then closes
	seed := int64(hx.EnvInt("VERIF_SEED", 1))
	free := hx.EnvInt("BUF_FREE_RUNS", 200)
	for r := 0; r < free; r++ {
		rng := rand.New(rand.NewSource(seed*1009 + int64(r)))
		nc := 2 + rng.Intn(3)
		chunks := []string{}
		for i := 0; i < rng.Intn(4); i++ {
			chunks = append(chunks, string(rune('p'+i)))
		}
		src := &scriptChunkReader{term: "EOF"}
		if rng.Intn(4) == 0 {
			src.term = "ERR"
		}
		var data []byte
		for _, c := range chunks {
			src.items = append(src.items, []byte(c))
			data = append(data, c...)
		}
		b := buffer.NewCASBufferFromChunkReader(digestOf("SHA256", data), src, buffer.UserProvided)
		clones := []buffer.Buffer{b}
		for len(clones) < nc {
			b1, b2 := clones[0].CloneStream()
			clones[0] = b1
			clones = append(clones, b2)
		}
		var consumers []*muxConsumer
		var wg sync.WaitGroup
		for i, cb := range clones {
			c := &muxConsumer{name: fmt.Sprintf("c%d", i+1), b: cb}
			consumers = append(consumers, c)
			reads := rng.Intn(len(chunks) + 3)
			discard := rng.Intn(5) == 0
			wg.Add(1)
			go func() {
				defer wg.Done()
				defer func() {
					if rec := recover(); rec != nil {
						c.panicMsg = fmt.Sprint(rec)
					}
				}()
				if discard {
					c.b.Discard()
					c.closed = true
					return
				}
				rd := c.b.ToChunkReader(0, 64)
				for i := 0; i < reads; i++ {
					runtime.Gosched()
					chunk, err := rd.Read()
					if err == io.EOF {
						c.got = append(c.got, "EOF")
						break
					} else if err != nil {
						c.got = append(c.got, "ERR")
						break
					}
					c.got = append(c.got, string(chunk))
				}
				rd.Close()
				c.closed = true
			}()
		}
		// watchdog: consumers that are still blocked after ten seconds (of wall time; a run takes microseconds) wait forever
		finished := make(chan struct{})
		go func() { wg.Wait(); close(finished) }()
		hung := false
		select {
		case <-finished:
		case <-time.After(10 * time.Second):
			hung = true
		}
		o := map[string]any{"ev": "Mux", "id": fmt.Sprintf("free/%d", r), "n": nc, "chunks": chunks, "err": src.term == "ERR", "deadlock": hung, "panic": "", "skipped": 0}
		if hung {
			// the blocked goroutines may still be writing to the consumers: report without their details
			o["got"], o["closed"], o["srcClosed"] = map[string][]string{}, map[string]bool{}, 0
			w.Emit(o)
			n++
			break
		}
		fill(o, consumers, src)
		w.Emit(o)
		n++
	}
	b, _ := json.Marshal(map[string]any{"runs": n})
	os.WriteFile(filepath.Join(out, "mux_summary.json"), b, 0o644)
}

// ---- C15 (b): the Buffer interface as a term language --------------------------------

type algCase struct {
	Base   string   `json:"base"`
	Ops    []string `json:"ops"`
	Method string   `json:"method"`
}

type sideObs struct {
	Pos  int    `json:"pos"`
	Res  string `json:"res"`
	Code string `json:"code"`
	// Small: the clone was consumed with a size limit below the object's size (the consumer is turned away
	// and has to leave the multiplexer like any other consumer; seeded change C15-b)
	Small bool `json:"small"`
}

type closeCounter struct {
	bytes.Reader
	closed atomic.Int32
}

func (c *closeCounter) Close() error { c.closed.Add(1); return nil }

type passHandler struct{ onError, done atomic.Int32 }

func (h *passHandler) OnError(err error) (buffer.Buffer, error) { h.onError.Add(1); return nil, err }
func (h *passHandler) Done()                                     { h.done.Add(1) }

var algData = []byte("hello, buffer algebra")

func classify(data []byte, err error) (string, string) {
	if err != nil {
		return "ERR", status.Code(err).String()
	}
	if bytes.Equal(data, algData) {
		return "DATA", "OK"
	}
	return "WRONGDATA", "OK"
}

func runAlgebra(c *algCase) map[string]any {
	o := map[string]any{"ev": "Alg", "base": c.Base, "ops": c.Ops, "method": c.Method, "panic": "", "hang": false}
	if c.Ops == nil {
		o["ops"] = []string{}
	}
	closed := func() int { return 1 }
	d := digestOf("SHA256", algData)
	var b buffer.Buffer
	switch c.Base {
	case "cas_slice":
		b = buffer.NewCASBufferFromByteSlice(d, algData, buffer.UserProvided)
	case "cas_reader", "cas_reader_bad", "cas_reader_ioerr":
		r := &scriptReader{term: "EOF", items: [][]byte{append([]byte(nil), algData[:5]...), append([]byte(nil), algData[5:]...)}}
		if c.Base == "cas_reader_bad" {
			r.items[1][0] ^= 1
		}
		if c.Base == "cas_reader_ioerr" {
			r.items = r.items[:1]
			r.term = "ERR"
		}
		closed = func() int { return r.closed }
		b = buffer.NewCASBufferFromReader(d, r, buffer.UserProvided)
	case "cas_chunk":
		r := &scriptChunkReader{term: "EOF", items: [][]byte{algData[:7], algData[7:]}}
		closed = func() int { return r.closed }
		b = buffer.NewCASBufferFromChunkReader(d, r, buffer.UserProvided)
	case "validated_slice":
		b = buffer.NewValidatedBufferFromByteSlice(algData)
	case "validated_readerat":
		cc := &closeCounter{Reader: *bytes.NewReader(algData)}
		closed = func() int { return int(cc.closed.Load()) }
		b = buffer.NewValidatedBufferFromReaderAt(cc, int64(len(algData)))
	case "error":
		b = buffer.NewBufferFromError(status.Error(codes.NotFound, "no such object"))
	}
	var tasksStarted, tasksFinished atomic.Int32
	var sides []sideObs
	var sideMu sync.Mutex
	var wg sync.WaitGroup
	handlers := []*passHandler{}
	done := make(chan struct{})
	go func() {
		defer close(done)
		defer func() {
			if r := recover(); r != nil {
				o["panic"] = fmt.Sprint(r)
			}
		}()
		consumeSide := func(pos int, sb buffer.Buffer) {
			wg.Add(1)
			go func() {
				defer wg.Done()
				defer func() {
					if r := recover(); r != nil {
						sideMu.Lock()
						sides = append(sides, sideObs{Pos: pos, Res: "PANIC", Code: fmt.Sprint(r)})
						sideMu.Unlock()
					}
				}()
				// a holder of a clone may ask for its size before consuming it
				if _, err := sb.GetSizeBytes(); err != nil && c.Base != "error" && false {
					_ = err
				}
				small := (pos+len(c.Ops)+len(c.Base))%3 == 0
				limit := 1 << 20
				if small {
					limit = 3
				}
				data, err := sb.ToByteSlice(limit)
				res, code := classify(data, err)
				sideMu.Lock()
				sides = append(sides, sideObs{Pos: pos, Res: res, Code: code, Small: small})
				sideMu.Unlock()
			}()
		}
		for i, op := range c.Ops {
			switch op {
			case "CloneStream":
				b1, b2 := b.CloneStream()
				b = b1
				consumeSide(i+1, b2)
			case "CloneCopy":
				b1, b2 := b.CloneCopy(1 << 20)
				b = b1
				consumeSide(i+1, b2)
			case "WithTaskOK", "WithTaskFail":
				fail := op == "WithTaskFail"
				b = b.WithTask(func() error {
					tasksStarted.Add(1)
					for k := 0; k < 3; k++ {
						runtime.Gosched()
					}
					tasksFinished.Add(1)
					if fail {
						return status.Error(codes.Unavailable, "task failed")
					}
					return nil
				})
			case "WithHandler":
				h := &passHandler{}
				handlers = append(handlers, h)
				b = buffer.WithErrorHandler(b, h)
			}
		}
		ntasks := int32(0)
		for _, op := range c.Ops {
			if op == "WithTaskOK" || op == "WithTaskFail" {
				ntasks++
			}
		}
		var res, code string
		switch c.Method {
		case "GetSizeBytes":
			n, err := b.GetSizeBytes()
			if err != nil {
				res, code = "ERR", status.Code(err).String()
			} else if n == int64(len(algData)) {
				res, code = "SIZE", "OK"
			} else {
				res, code = "WRONGSIZE", "OK"
			}
			b.Discard()
		case "ToByteSlice":
			data, err := b.ToByteSlice(1 << 20)
			res, code = classify(data, err)
		case "IntoWriter":
			var w bytes.Buffer
			err := b.IntoWriter(&w)
			res, code = classify(w.Bytes(), err)
		case "ToReader":
			r := b.ToReader()
			data, err := io.ReadAll(r)
			if cerr := r.Close(); err == nil {
				err = cerr // a task's error is reported by Close
			}
			res, code = classify(data, err)
		case "ToChunkReader":
			r := b.ToChunkReader(0, 8)
			var data []byte
			var err error
			for {
				var chunk []byte
				chunk, err = r.Read()
				if err != nil {
					break
				}
				data = append(data, chunk...)
			}
			r.Close()
			if err == io.EOF {
				err = nil
			}
			res, code = classify(data, err)
		case "ReadAt":
			p := make([]byte, len(algData))
			n, err := b.ReadAt(p, 0)
			if err == io.EOF {
				err = nil
			}
			res, code = classify(p[:n], err)
		case "Discard":
			b.Discard()
			res, code = "DISCARDED", "OK"
		case "CloneStreamBoth", "CloneCopyBoth":
			var b1, b2 buffer.Buffer
			if c.Method == "CloneStreamBoth" {
				b1, b2 = b.CloneStream()
			} else {
				b1, b2 = b.CloneCopy(1 << 20)
			}
			// asking a clone for its size keeps working
			if _, err := b2.GetSizeBytes(); err != nil {
				_ = err
			}
			consumeSide(len(c.Ops)+1, b2)
			data, err := b1.ToByteSlice(1 << 20)
			res, code = classify(data, err)
		}
		// completion is not reported before every attached task has finished
		o["tasksPending"] = int(ntasks - tasksFinished.Load())
		o["res"], o["code"] = res, code
		wg.Wait()
	}()
	select {
	case <-done:
	case <-timeAfter():
		o["hang"] = true
	}
	sideMu.Lock()
	if sides == nil {
		sides = []sideObs{}
	}
	o["sides"] = sides
	sideMu.Unlock()
	o["srcClosed"] = closed()
	hd := []int{}
	for _, h := range handlers {
		hd = append(hd, int(h.done.Load()))
	}
	o["handlersDone"] = hd
	if _, ok := o["res"]; !ok {
		o["res"], o["code"], o["tasksPending"] = "NONE", "", 0
	}
	return o
}

// TestAlgebra replays the terms of BufferAlgebra.tla.
func TestAlgebra(t *testing.T) {
	out := os.Getenv("BUF_OUT")
	w := hx.NewWriter(filepath.Join(out, "alg.ndjson"))
	defer w.Close()
	n := 0
	hx.ReadLines(os.Getenv("BUF_CASES"), func(line []byte) {
		var c algCase
		if err := json.Unmarshal(line, &c); err != nil {
			t.Fatal(err)
		}
		w.Emit(runAlgebra(&c))
		n++
	})
	b, _ := json.Marshal(map[string]any{"terms": n})
	os.WriteFile(filepath.Join(out, "alg_summary.json"), b, 0o644)
}

func timeAfter() <-chan time.Time { return time.After(5 * time.Second) }
