package buf

import (
	"bytes"
	"encoding/json"
	"fmt"
	"io"
	"os"
	"path/filepath"
	"testing"

	"github.com/buildbarn/bb-storage/pkg/blobstore/buffer"
	"google.golang.org/grpc/codes"
	"google.golang.org/grpc/status"

	"verif/harness/hx"
)

// ---- C16: error handlers ----------------------------------------------------------------

type seg struct {
	Kind string `json:"kind"`
	Cnt  int    `json:"cnt"`
}

type retryCase struct {
	N    int   `json:"n"`
	Segs []seg `json:"segs"`
}

func objectOf(n int) []byte {
	out := make([]byte, n)
	for i := range out {
		out[i] = byte('A' + i)
	}
	return out
}

// segmentBuffer builds the real buffer of one segment.
func segmentBuffer(n int, s seg, ctor string, chunk int) buffer.Buffer {
	d := objectOf(n)
	dg := digestOf("SHA256", d)
	data := append([]byte(nil), d...)
	term := "EOF"
	switch s.Kind {
	case "errbuf":
		return buffer.NewBufferFromError(errInjected)
	case "wrong":
		data[n-1] ^= 0x20
	case "fail":
		c := s.Cnt
		if c > n {
			c = n
		}
		data = data[:c]
		term = "ERR"
	}
	var items [][]byte
	for i := 0; i < len(data); i += chunk {
		e := i + chunk
		if e > len(data) {
			e = len(data)
		}
		items = append(items, append([]byte(nil), data[i:e]...))
	}
	if ctor == "reader" {
		return buffer.NewCASBufferFromReader(dg, &scriptReader{items: items, term: term}, buffer.UserProvided)
	}
	return buffer.NewCASBufferFromChunkReader(dg, &scriptChunkReader{items: items, term: term}, buffer.UserProvided)
}

type chainHandler struct {
	next     []func() buffer.Buffer
	onErrors int
	done     int
}

func (h *chainHandler) OnError(err error) (buffer.Buffer, error) {
	h.onErrors++
	if len(h.next) == 0 {
		return nil, status.Error(codes.Unavailable, "translated: "+err.Error())
	}
	b := h.next[0]()
	h.next = h.next[1:]
	return b, nil
}

func (h *chainHandler) Done() { h.done++ }

func runRetry(c *retryCase, ctor string, chunk int, method string, a1, a2 int) map[string]any {
	o := map[string]any{"ev": "Retry", "n": c.N, "segs": c.Segs, "ctor": ctor, "chunk": chunk, "method": method, "a1": a1, "a2": a2}
	h := &chainHandler{}
	for _, s := range c.Segs[1:] {
		s := s
		h.next = append(h.next, func() buffer.Buffer { return segmentBuffer(c.N, s, ctor, chunk) })
	}
	obj := objectOf(c.N)
	var data []byte
	var err error
	func() {
		defer func() {
			if r := recover(); r != nil {
				err = fmt.Errorf("PANIC: %v", r)
				o["panic"] = fmt.Sprint(r)
			}
		}()
		b := buffer.WithErrorHandler(segmentBuffer(c.N, c.Segs[0], ctor, chunk), h)
		switch method {
		case "ToByteSlice":
			data, err = b.ToByteSlice(1 << 20)
		case "ReadAt":
			p := make([]byte, c.N)
			var n int
			n, err = b.ReadAt(p, 0)
			if err == io.EOF {
				err = nil
			}
			data = p[:n]
		case "IntoWriter":
			var w bytes.Buffer
			err = b.IntoWriter(&w)
			data = w.Bytes()
		case "ToReader":
			r := b.ToReader()
			p := make([]byte, a1)
			for {
				var n int
				n, err = r.Read(p)
				data = append(data, p[:n]...)
				if err != nil {
					break
				}
			}
			if err == io.EOF {
				err = nil
			}
			r.Close()
		case "ToChunkReader":
			r := b.ToChunkReader(int64(a1), a2)
			for {
				var ch []byte
				ch, err = r.Read()
				if err != nil {
					break
				}
				data = append(data, ch...)
			}
			if err == io.EOF {
				err = nil
			}
			r.Close()
		}
	}()
	off := 0
	if method == "ToChunkReader" {
		off = a1
	}
	o["delivered"] = len(data)
	o["intact"] = off+len(data) <= c.N && bytes.Equal(data, obj[off:off+len(data)])
	if err == nil {
		o["res"], o["code"] = "OK", "OK"
	} else if _, p := o["panic"]; p {
		o["res"], o["code"] = "PANIC", "PANIC"
	} else {
		o["res"], o["code"], o["msg"] = "ERR", status.Code(err).String(), err.Error()
	}
	o["onErrors"], o["done"] = h.onErrors, h.done
	return o
}

// TestRetry replays the cases of ErrorRetry.tla (C16).
func TestRetry(t *testing.T) {
	out := os.Getenv("BUF_OUT")
	w := hx.NewWriter(filepath.Join(out, "retry.ndjson"))
	defer w.Close()
	ncases, nobs := 0, 0
	hx.ReadLines(os.Getenv("BUF_CASES"), func(line []byte) {
		var c retryCase
		if err := json.Unmarshal(line, &c); err != nil {
			t.Fatal(err)
		}
		ncases++
		for _, ctor := range []string{"reader", "chunk"} {
			for _, chunk := range []int{1, 2} {
				ms := [][3]any{{"ToByteSlice", 0, 0}, {"ReadAt", 0, 0}, {"IntoWriter", 0, 0}, {"ToReader", 1, 0}, {"ToReader", 64, 0}}
				for off := 0; off <= c.N; off++ {
					ms = append(ms, [3]any{"ToChunkReader", off, 1}, [3]any{"ToChunkReader", off, 64})
				}
				for _, m := range ms {
					w.Emit(runRetry(&c, ctor, chunk, m[0].(string), m[1].(int), m[2].(int)))
					nobs++
				}
			}
		}
	})
	b, _ := json.Marshal(map[string]any{"cases": ncases, "observations": nobs})
	os.WriteFile(filepath.Join(out, "retry_summary.json"), b, 0o644)
}
