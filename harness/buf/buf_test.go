// Conformance driver for the buffer layer (C09: validation; C15: clones and
// background tasks; C16: error handlers).  Cases come from TLC
// (spec/BufferValidate.tla etc.); every case is concretized (symbols -> bytes,
// every supported digest function), executed on the real buffers with every
// constructor and consumption method, and the observations are written as
// ndjson for the TLC contract monitors.
package buf

import (
	"bytes"
	"encoding/json"
	"fmt"
	"io"
	"os"
	"path/filepath"
	"strings"
	"sync"
	"testing"

	remoteexecution "github.com/bazelbuild/remote-apis/build/bazel/remote/execution/v2"
	"github.com/buildbarn/bb-storage/pkg/blobstore/buffer"
	"github.com/buildbarn/bb-storage/pkg/digest"
	"google.golang.org/grpc/codes"
	"google.golang.org/grpc/status"

	"verif/harness/hx"
)

// ---- scripted sources ---------------------------------------------------------------

var errInjected = status.Error(codes.Aborted, "injected source error")

type scriptReader struct {
	items  [][]byte
	term   string
	closed int
	reads  int
}

func (r *scriptReader) Read(p []byte) (int, error) {
	r.reads++
	if len(r.items) == 0 {
		if r.term == "ERR" {
			return 0, errInjected
		}
		return 0, io.EOF
	}
	n := copy(p, r.items[0])
	if n == len(r.items[0]) {
		r.items = r.items[1:]
	} else {
		r.items[0] = r.items[0][n:]
	}
	if len(r.items) == 0 && r.term == "DATAEOF" {
		return n, io.EOF
	}
	return n, nil
}

func (r *scriptReader) Close() error {
	r.closed++
	return nil
}

type scriptChunkReader struct {
	items  [][]byte
	term   string
	closed int
}

func (r *scriptChunkReader) Read() ([]byte, error) {
	if len(r.items) == 0 {
		if r.term == "ERR" {
			return nil, errInjected
		}
		return nil, io.EOF
	}
	c := r.items[0]
	r.items = r.items[1:]
	return append([]byte(nil), c...), nil
}

func (r *scriptChunkReader) Close() { r.closed++ }

// ---- cases -------------------------------------------------------------------------------

type Outcome struct {
	Res       string   `json:"res"`
	Delivered []string `json:"delivered"`
}

type Case struct {
	D      []string   `json:"d"`
	Chunks [][]string `json:"chunks"`
	Term   string     `json:"term"`
	Reader []Outcome  `json:"reader"` // design's expectation per read size 1..
	Chunk  Outcome    `json:"chunk"`
}

func toBytes(sym []string) []byte { return []byte(strings.Join(sym, "")) }
func toSyms(b []byte) []string {
	out := make([]string, len(b))
	for i, c := range b {
		out[i] = string(rune(c))
	}
	return out
}

func (c *Case) source() []byte {
	var out []byte
	for _, ch := range c.Chunks {
		out = append(out, toBytes(ch)...)
	}
	return out
}

var functions = map[string]remoteexecution.DigestFunction_Value{
	"BLAKE3": remoteexecution.DigestFunction_BLAKE3, "GITSHA1": remoteexecution.DigestFunction_GITSHA1,
	"MD5": remoteexecution.DigestFunction_MD5, "SHA1": remoteexecution.DigestFunction_SHA1,
	"SHA256": remoteexecution.DigestFunction_SHA256, "SHA256TREE": remoteexecution.DigestFunction_SHA256TREE,
	"SHA384": remoteexecution.DigestFunction_SHA384, "SHA512": remoteexecution.DigestFunction_SHA512,
}

func digestOf(fn string, data []byte) digest.Digest {
	f := digest.MustNewFunction("inst", functions[fn])
	g := f.NewGenerator(int64(len(data)))
	g.Write(data)
	return g.Sum()
}

type cbRec struct {
	mu  sync.Mutex
	cbs []bool
}

func (c *cbRec) cb(ok bool) {
	c.mu.Lock()
	c.cbs = append(c.cbs, ok)
	c.mu.Unlock()
}

type built struct {
	b      buffer.Buffer
	cb     *cbRec
	closed func() int
}

// build constructs the CAS buffer of a case with the given constructor.
func build(c *Case, fn, kind, ctor string) built {
	d := digestOf(fn, toBytes(c.D))
	cb := &cbRec{}
	src := buffer.UserProvided
	if kind == "backend" {
		src = buffer.BackendProvided(cb.cb)
	}
	switch ctor {
	case "slice":
		return built{b: buffer.NewCASBufferFromByteSlice(d, c.source(), src), cb: cb, closed: func() int { return 1 }}
	case "reader":
		r := &scriptReader{term: c.Term}
		for _, ch := range c.Chunks {
			if len(ch) > 0 {
				r.items = append(r.items, toBytes(ch))
			}
		}
		return built{b: buffer.NewCASBufferFromReader(d, r, src), cb: cb, closed: func() int { return r.closed }}
	default:
		term := c.Term
		if term == "DATAEOF" {
			term = "EOF"
		}
		r := &scriptChunkReader{term: term}
		for _, ch := range c.Chunks {
			r.items = append(r.items, toBytes(ch))
		}
		return built{b: buffer.NewCASBufferFromChunkReader(d, r, src), cb: cb, closed: func() int { return r.closed }}
	}
}

type obs struct {
	Ev        string   `json:"ev"`
	D         []string `json:"d"`
	S         []string `json:"s"`
	Term      string   `json:"term"`
	Fn        string   `json:"fn"`
	Kind      string   `json:"kind"`
	Ctor      string   `json:"ctor"`
	Method    string   `json:"method"`
	A1        int      `json:"a1"`
	A2        int      `json:"a2"`
	Res       string   `json:"res"`
	Code      string   `json:"code"`
	Delivered []string `json:"delivered"`
	Cbs       []bool   `json:"cbs"`
	Closed    int      `json:"closed"`
	Msg       string   `json:"msg,omitempty"`
}

func result(o *obs, data []byte, err error) {
	o.Delivered = toSyms(data)
	if err == nil {
		o.Res, o.Code = "OK", "OK"
	} else {
		o.Res, o.Code, o.Msg = "ERR", status.Code(err).String(), err.Error()
	}
}

// consume applies one consumption method to a freshly built buffer.
func consume(bt built, method string, a1, a2 int, o *obs) {
	b := bt.b
	switch method {
	case "ToByteSlice":
		data, err := b.ToByteSlice(a1)
		result(o, data, err)
	case "IntoWriter":
		var w bytes.Buffer
		err := b.IntoWriter(&w)
		result(o, w.Bytes(), err)
	case "ToReader":
		r := b.ToReader()
		var got []byte
		p := make([]byte, a1)
		var err error
		for {
			var n int
			n, err = r.Read(p)
			got = append(got, p[:n]...)
			if err != nil {
				break
			}
		}
		if err == io.EOF {
			err = nil
		}
		// errors are sticky
		if err != nil {
			if _, err2 := r.Read(p); err2 == nil || err2.Error() != err.Error() {
				err = fmt.Errorf("error not sticky: %v then %v", err, err2)
			}
		}
		r.Close()
		result(o, got, err)
	case "ToChunkReader":
		r := b.ToChunkReader(int64(a1), a2)
		var got []byte
		var err error
		for {
			var c []byte
			c, err = r.Read()
			if err != nil {
				break
			}
			if len(c) > a2 {
				err = fmt.Errorf("chunk of %d bytes exceeds maximum %d", len(c), a2)
				break
			}
			got = append(got, c...)
		}
		if err == io.EOF {
			err = nil
		}
		r.Close()
		result(o, got, err)
	case "ReadAt":
		p := make([]byte, a1)
		n, err := b.ReadAt(p, int64(a2))
		if err == io.EOF {
			err = nil
		}
		result(o, p[:n], err)
	}
	o.Cbs = append([]bool{}, bt.cb.cbs...)
	o.Closed = bt.closed()
}

type method struct {
	name   string
	a1, a2 int
}

func methods(nd int) []method {
	ms := []method{{"ToByteSlice", 1000, 0}, {"IntoWriter", 0, 0}}
	if nd > 0 {
		ms = append(ms, method{"ToByteSlice", nd - 1, 0})
	}
	for _, r := range []int{1, 2, 3, 64} {
		ms = append(ms, method{"ToReader", r, 0})
	}
	for off := -1; off <= nd+1; off++ {
		for _, mx := range []int{1, 2, 64} {
			ms = append(ms, method{"ToChunkReader", off, mx})
		}
		for _, l := range []int{0, 1, nd + 1} {
			ms = append(ms, method{"ReadAt", l, off})
		}
	}
	return ms
}

func sameOutcome(o *obs, exp Outcome) bool {
	res := o.Res
	if res == "ERR" {
		if o.Code == "Aborted" {
			res = "IOERR"
		} else {
			res = "MISMATCH"
		}
	}
	if res != exp.Res {
		return false
	}
	if res == "OK" && strings.Join(o.Delivered, "") != strings.Join(exp.Delivered, "") {
		return false
	}
	return true
}

// TestValidate replays the cases of BufferValidate.tla (C09).
func TestValidate(t *testing.T) {
	out := os.Getenv("BUF_OUT")
	fns := strings.Split(hx.Env("BUF_FUNCTIONS", "SHA256,MD5"), ",")
	w := hx.NewWriter(filepath.Join(out, "obs.ndjson"))
	defer w.Close()
	ncases, nobs, drift, compared := 0, 0, 0, 0
	var firstDrift []any
	distinct := map[string]struct{}{}
	hx.ReadLines(os.Getenv("BUF_CASES"), func(line []byte) {
		var c Case
		if err := json.Unmarshal(line, &c); err != nil {
			t.Fatal(err)
		}
		ncases++
		for fi, fn := range fns {
			for _, kind := range []string{"user", "backend"} {
				for _, ctor := range []string{"slice", "reader", "chunk"} {
					if ctor == "slice" && c.Term != "EOF" {
						continue
					}
					for _, m := range methods(len(c.D)) {
						if fi > 0 && m.name == "ReadAt" {
							continue // offset arithmetic does not depend on the hash function
						}
						o := obs{Ev: "Obs", D: c.D, S: toSyms(c.source()), Term: c.Term, Fn: fn, Kind: kind, Ctor: ctor,
							Method: m.name, A1: m.a1, A2: m.a2}
						if o.D == nil {
							o.D = []string{}
						}
						func() {
							defer func() {
								if r := recover(); r != nil {
									o.Res, o.Code, o.Msg = "PANIC", "PANIC", fmt.Sprint(r)
								}
							}()
							consume(build(&c, fn, kind, ctor), m.name, m.a1, m.a2, &o)
						}()
						if o.Delivered == nil {
							o.Delivered = []string{}
						}
						if o.Cbs == nil {
							o.Cbs = []bool{}
						}
						w.Emit(o)
						nobs++
						distinct[fmt.Sprintf("%v|%v|%s|%s|%s|%d|%d|%s", o.D, o.S, o.Term, ctor, m.name, m.a1, m.a2, o.Res)] = struct{}{}
						// design conformance where the design specification models the path exactly
						var exp *Outcome
						if ctor == "reader" && m.name == "ToReader" && m.a1 <= len(c.Reader) {
							exp = &c.Reader[m.a1-1]
						} else if ctor == "chunk" && m.name == "ToChunkReader" && m.a1 == 0 && m.a2 == 64 {
							exp = &c.Chunk
						}
						if exp != nil {
							compared++
							if !sameOutcome(&o, *exp) {
								drift++
								if len(firstDrift) < 5 {
									firstDrift = append(firstDrift, map[string]any{"obs": o, "expected": exp})
								}
							}
						}
					}
				}
			}
		}
	})
	b, _ := json.Marshal(map[string]any{"cases": ncases, "observations": nobs, "distinct": len(distinct), "compared": compared, "drift": drift, "first_drift": firstDrift})
	os.WriteFile(filepath.Join(out, "summary.json"), b, 0o644)
}
