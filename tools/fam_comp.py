"""Composite BlobAccess families over model back ends: C11 (mirrored), C12 (sharding), C13 (completeness),
C17 (read caching / fallback / replicators / existence cache), C18 (authorizing), C19 (routing)."""
import json, os, random, time
import vlib
from vlib import Broken, log


def validate_obs(module, path, max_rejects=8, cfg=None):
    events = vlib.read_ndjson(path)
    rejects, vstates, pos = [], 0, 0
    while pos < len(events) and len(rejects) < max_rejects:
        d = vlib.scratch("obs")
        chunk = events[pos:]
        vlib.write_ndjson(os.path.join(d, "trace.ndjson"), chunk)
        r = vlib.run_tlc(module, cfg or "SPECIFICATION TSpec\nPOSTCONDITION Accepted\nCHECK_DEADLOCK FALSE\n", workers=1, timeout=3000,
                         extra_files={"trace.ndjson": open(os.path.join(d, "trace.ndjson")).read()},
                         java_opts="-Dtlc2.tool.queue.IStateQueue=StateDeque")
        vstates += r.distinct
        if r.ok:
            break
        if "ostcondition" not in r.stdout and "Accepted" not in r.stdout:
            raise Broken("observation validation failed:\n" + r.stdout[-3000:])
        consumed = max(r.depth - 1, 0)
        rejects.append({"line": pos + consumed, "event": chunk[consumed]})
        pos += consumed + 1
    return len(events), rejects, vstates


def report(pid, sd, rejects):
    violations = 0
    for rj in rejects:
        path = vlib.save_replay(pid, "s%d_%d" % (sd, violations), {"observation.json": rj["event"]})
        violations += 1
        print("VIOLATION property=%s replay=%s" % (pid, path))
        log("  rejected observation: %s" % json.dumps(rj["event"])[:600])
    return violations


# ---- C11 --------------------------------------------------------------------------------------------

def mirror_cfg(repl, mut="none", maxops=3, view=True, emit=False, props=True):
    s = "INIT Init\nNEXT Next\n" + ("VIEW View\n" if view else "")
    s += 'CONSTANTS\n Objs = {"p","q"}\n MaxOps = %d\n Repl = "%s"\n Mut = "%s"\n' % (maxops, repl, mut)
    if props:
        s += "PROPERTIES PropContract\n"
    if emit:
        s += "CONSTRAINT EmitScript\n"
    return s


def hist_to_steps(hist):
    return [{"op": h["op"], "objs": sorted(h["objs"]), "planA": h["planA"], "planB": h["planB"], "a0": sorted(h["a0"]), "b0": sorted(h["b0"]),
             "res": h["res"], "code": h["code"], "a1": sorted(h["a1"]), "b1": sorted(h["b1"]), "missing": sorted(h["missing"]), "first": h["first"]}
            for h in hist]


def check_c11(pid, tier):
    t0 = time.time()
    sd = vlib.seed()
    binary = vlib.go_build_test("comp")
    work = vlib.scratch("c11")
    quick = tier == "quick"
    states = trans = 0
    scripts = []
    details = {"models": [], "mutants_killed": {}}
    for repl in ("local", "noop"):
        r = vlib.run_tlc("Mirrored", mirror_cfg(repl, maxops=3 if quick else 4), timeout=3000)
        vlib.require_model_ok(r, "Mirrored " + repl)
        states += r.distinct
        trans += r.generated
        details["models"].append({"replicator": repl, "distinct_states": r.distinct, "transitions": r.generated})
        # every behaviour of two operations from every placement (exhaustive), longer ones simulated
        hists = []
        rs = vlib.run_tlc("Mirrored", mirror_cfg(repl, maxops=2, view=False, emit=True, props=False), marker_sink=lambda m, o: hists.append(o), timeout=3000)
        if not rs.ok:
            raise Broken("Mirrored enumeration failed: %s %s" % (rs.violated, rs.error))
        rs = vlib.run_tlc("Mirrored", mirror_cfg(repl, maxops=5, view=False, emit=True, props=False), mode="simulate", sim_num=200 if quick else 20000,
                          sim_depth=8, sim_seed=sd * 13 + len(repl), workers=1, marker_sink=lambda m, o: hists.append(o), timeout=3000)
        if not rs.ok:
            raise Broken("Mirrored simulation failed: %s %s" % (rs.violated, rs.error))
        for n, h in enumerate(hists):
            scripts.append({"id": "%s/%d" % (repl, n), "repl": repl, "steps": hist_to_steps(h)})
    for mut in ["repair_wrong_replica", "put_ignores_b", "missing_from_a_only"]:
        rm = vlib.run_tlc("Mirrored", mirror_cfg("local", mut), dump_trace=True, timeout=600)
        if not rm.violated:
            raise Broken("Mirrored mutant %s not killed" % mut)
        details["mutants_killed"][mut] = rm.violated
        st = vlib.cex_states(rm)
        if st:
            steps = hist_to_steps(st[-1]["hist"])
            for s in steps:
                s["res"] = ""   # expectations of a counterexample are the mutant's
            scripts.append({"id": "killer/" + mut, "repl": "local", "steps": steps})
    sp = os.path.join(work, "scripts.ndjson")
    vlib.write_ndjson(sp, scripts)
    rc, out = vlib.run_harness(binary, "TestMirror", {"COMP_SCRIPTS": sp, "COMP_OUT": work}, timeout=3000)
    if rc != 0:
        raise Broken("mirror harness failed:\n" + out[-3000:])
    summ = json.load(open(os.path.join(work, "mirror_summary.json")))
    rc, out = vlib.run_harness(binary, "TestMirrorLocalStores", {"COMP_OUT": work, "VERIF_SEED": sd}, timeout=3000)
    if rc != 0:
        raise Broken("mirror (local stores) harness failed:\n" + out[-3000:])
    allp = os.path.join(work, "all.ndjson")
    with open(allp, "w") as fh:
        fh.write(open(os.path.join(work, "mirror.ndjson")).read())
        fh.write(open(os.path.join(work, "mirror_local.ndjson")).read())
    n_events, rejects, vstates = validate_obs("MirrorContractTrace", allp)
    violations = report(pid, sd, rejects)
    if summ["drift"]:
        log("DRIFT property=%s %d of %d operations deviate from the design: %s" % (pid, summ["drift"], summ["compared"], json.dumps(summ.get("first_drifts"))[:1500]))
    cov = {"states": states, "transitions": trans, "traces_validated_against_impl": n_events, "scripts": len(scripts),
           "design_conformance": {"operations_compared": summ["compared"], "drifted": summ["drift"]}, "model": details,
           "trace_validator_states": vstates, "samples": scripts[:1]}
    vlib.write_evidence(pid, tier, "model_checking", cov, time.time() - t0, violations,
                        ["replicas are model back ends (sets of objects with a per-call fault plan); a second battery uses two real local stores as replicas",
                         "operations are sequential; the two parallel branches inside Put / FindMissing run under the Go scheduler"])
    return 1 if violations else 0


# ---- C18 --------------------------------------------------------------------------------------------

def check_c18(pid, tier):
    t0 = time.time()
    sd = vlib.seed()
    binary = vlib.go_build_test("comp")
    work = vlib.scratch("c18")
    quick = tier == "quick"
    cases = os.path.join(work, "cases.ndjson")
    fh = open(cases, "w")
    r = vlib.run_tlc("Authorizing", "INIT Init\nNEXT Next\nCONSTANTS\n Depth = %d\nINVARIANTS AnyAlgebra Emit\n" % (1 if quick else 3),
                     raw_sink=lambda m, raw: fh.write(raw + "\n"), timeout=3000)
    fh.close()
    vlib.require_model_ok(r, "Authorizing")
    rc, out = vlib.run_harness(binary, "TestAuth", {"COMP_CASES": cases, "COMP_OUT": work}, timeout=3000)
    if rc != 0:
        raise Broken("auth harness failed:\n" + out[-3000:])
    n_events, rejects, vstates = validate_obs("AuthContractTrace", os.path.join(work, "auth.ndjson"))
    violations = report(pid, sd, rejects)
    cov = {"states": r.distinct, "transitions": max(r.generated, r.distinct), "traces_validated_against_impl": n_events, "cases": r.distinct,
           "exhaustive": True, "trace_validator_states": vstates, "samples": [json.loads(open(cases).readline())]}
    vlib.write_evidence(pid, tier, "model_checking", cov, time.time() - t0, violations,
                        ["authorizers are leaf tables over two instance names (the repository's static authorizer for allow/deny tables, a scripted one when a member fails) combined with the real NewAnyAuthorizer",
                         "the wiring in cmd/bb_storage/main.go (which authorizer guards which operation) is not exercised"])
    return 1 if violations else 0


# ---- C19 --------------------------------------------------------------------------------------------

def check_c19(pid, tier):
    t0 = time.time()
    sd = vlib.seed()
    binary = vlib.go_build_test("comp")
    work = vlib.scratch("c19")
    quick = tier == "quick"
    cases = os.path.join(work, "cases.ndjson")
    fh = open(cases, "w")
    states = 0
    fams = {}
    rng = random.Random(sd)
    for fam in ("trie", "demux", "hier"):
        depth = 2 if (fam != "demux" or not quick) else 1
        buf = []
        r = vlib.run_tlc("Routing", 'INIT Init\nNEXT Next\nCONSTANTS\n Comps = {"a","ab"}\n MaxDepth = %d\n Family = "%s"\n MaxTrieOps = %d\nINVARIANTS Sane Emit\n' % (
            depth, fam, 3 if quick else 4), raw_sink=lambda m, raw: buf.append(raw), timeout=3000)
        vlib.require_model_ok(r, "Routing " + fam)
        states += r.distinct
        fams[fam] = r.distinct
        for raw in buf:
            fh.write(raw + "\n")
        if fam == "demux" and quick:
            # plus a seeded sample of the depth-2 configurations
            buf2 = []
            r2 = vlib.run_tlc("Routing", 'INIT Init\nNEXT Next\nCONSTANTS\n Comps = {"a","ab"}\n MaxDepth = 2\n Family = "demux"\n MaxTrieOps = 3\nINVARIANTS Emit\n',
                              raw_sink=lambda m, raw: buf2.append(raw), timeout=3000)
            vlib.require_model_ok(r2, "Routing demux depth 2")
            states += r2.distinct
            for raw in rng.sample(buf2, min(8000, len(buf2))):
                fh.write(raw + "\n")
            fams["demux_depth2_sampled"] = min(8000, len(buf2))
    fh.close()
    rc, out = vlib.run_harness(binary, "TestRouting", {"COMP_CASES": cases, "COMP_OUT": work}, timeout=3000)
    if rc != 0:
        raise Broken("routing harness failed:\n" + out[-3000:])
    n_events, rejects, vstates = validate_obs("RoutingContractTrace", os.path.join(work, "routing.ndjson"))
    violations = report(pid, sd, rejects)
    cov = {"states": states, "transitions": states, "traces_validated_against_impl": n_events, "cases_per_family": fams, "exhaustive": not quick,
           "trace_validator_states": vstates, "samples": [json.loads(open(cases).readline())]}
    vlib.write_evidence(pid, tier, "model_checking", cov, time.time() - t0, violations,
                        ["instance names over the components {a, ab} (string- but not component-prefixes of each other) up to depth 2",
                         "the demultiplexer is wired as pkg/blobstore/configuration does (trie of prefixes, one patcher per prefix, prefix as back end name)",
                         "trie removals are generated only for names that are present"])
    return 1 if violations else 0


CHECKS = {"C11": check_c11, "C18": check_c18, "C19": check_c19}


MONITORS = {"C11": "MirrorContractTrace", "C12": "ShardingContractTrace", "C13": "CompletenessContractTrace", "C17": "ReadThroughContractTrace",
            "C18": "AuthContractTrace", "C19": "RoutingContractTrace"}


def check(pid, tier, replay=None):
    if pid not in CHECKS:
        raise Broken("no check for " + pid)
    if replay:
        cfg = 'SPECIFICATION TSpec\nPOSTCONDITION Accepted\nCHECK_DEADLOCK FALSE\nCONSTANT Layer = "contract"\n' if pid == "C13" else None
        return vlib.replay_observation(pid, MONITORS[pid], replay, cfg)
    return CHECKS[pid](pid, tier)


# ---- C17 --------------------------------------------------------------------------------------------

def rt_cfg(kind, repl, mut="none", maxops=3, view=True, emit=False, props=True):
    s = "INIT Init\nNEXT Next\n" + ("VIEW View\n" if view else "")
    s += 'CONSTANTS\n Objs = {"p","q"}\n MaxOps = %d\n Kind = "%s"\n Repl = "%s"\n Mut = "%s"\n' % (maxops, kind, repl, mut)
    if props:
        s += "PROPERTIES PropContract\n"
    if emit:
        s += "CONSTRAINT EmitScript\n"
    return s


def rt_steps(hist):
    return [{"kind": h["kind"], "op": h["op"], "objs": sorted(h["objs"]), "planF": h["planF"], "planS": h["planS"], "f0": sorted(h["f0"]), "s0": sorted(h["s0"]),
             "res": h["res"], "code": h["code"], "f1": sorted(h["f1"]), "s1": sorted(h["s1"]), "missing": sorted(h["missing"])} for h in hist]


def py_rank():
    """Order of the objects p, q, r inside a digest.Set (sorted by the packed digest string: function, hash, ...)."""
    import hashlib
    hs = sorted((hashlib.sha256(b"object-" + n.encode()).hexdigest(), n) for n in "pqr")
    return {n: i for i, (_, n) in enumerate(hs)}


def ex_cfg(policy, mut="none", size=2, duration=2, maxops=3, maxtime=5, view=True, emit=False, props=True):
    s = "INIT Init\nNEXT Next\n" + ("VIEW View\n" if view else "")
    s += 'CONSTANTS\n Objs = {"p","q","r"}\n Size = %d\n Duration = %d\n MaxOps = %d\n MaxTime = %d\n Policy = "%s"\n Mut = "%s"\n Rank <- MCRank\n' % (
        size, duration, maxops, maxtime, policy, mut)
    if props:
        s += "PROPERTIES PropNeverStale\nINVARIANTS Bounded\n"
    if emit:
        s += "CONSTRAINT EmitScript\n"
    return s


def ex_extra():
    rk = py_rank()
    return "MCRank(x) == CASE %s\n" % " [] ".join('x = "%s" -> %d' % (n, i) for n, i in sorted(rk.items()))


def ex_script(hist, sid, policy, size, duration):
    steps = []
    for h in hist[1:]:
        st = {"op": h["op"], "t": h.get("t", 0)}
        if h["op"] == "fm":
            st.update({"objs": sorted(h["objs"]), "reportedMissing": sorted(h["reportedMissing"]), "askedBackend": sorted(h["askedBackend"])})
        if h["op"] == "lose":
            st["obj"] = h["obj"]
        steps.append(st)
    return {"id": sid, "policy": policy, "size": size, "duration": duration, "backend0": sorted(hist[0]["objs"]), "steps": steps}


def repl_cfg(mut="none", callers=4, limit=2, maxfail=2, live=True):
    s = "SPECIFICATION %s\n" % ("FairSpec" if live else "Spec")
    s += 'CONSTANTS\n Callers = {%s}\n Objs = {"p","q"}\n Wants <- MCWants\n MaxFail = %d\n Limit = %d\n Mut = "%s"\n' % (
        ",".join('"c%d"' % i for i in range(1, callers + 1)), maxfail, limit, mut)
    s += "INVARIANTS Bounds SuccessConfirmed NoStuck\nCHECK_DEADLOCK FALSE\n"
    if live:
        s += "PROPERTIES Terminates\n"
    return s


REPL_EXTRA = 'MCWants(c) == IF c \\in {"c1", "c2", "c3"} THEN "p" ELSE "q"\n'


def check_c17(pid, tier):
    t0 = time.time()
    sd = vlib.seed()
    binary = vlib.go_build_test("comp")
    work = vlib.scratch("c17")
    quick = tier == "quick"
    states = trans = 0
    details = {"read_through": [], "replicators": [], "existence_cache": [], "mutants_killed": {}}
    # (a) read caching / fallback
    scripts = []
    for kind in ("caching", "fallback"):
        for repl in ("local", "noop"):
            r = vlib.run_tlc("ReadThrough", rt_cfg(kind, repl, maxops=3 if quick else 4), timeout=3000)
            vlib.require_model_ok(r, "ReadThrough %s/%s" % (kind, repl))
            states += r.distinct
            trans += r.generated
            details["read_through"].append({"kind": kind, "replicator": repl, "distinct_states": r.distinct, "transitions": r.generated})
            hists = []
            rs = vlib.run_tlc("ReadThrough", rt_cfg(kind, repl, maxops=1 if quick else 2, view=False, emit=True, props=False),
                              marker_sink=lambda m, o: hists.append(o), timeout=3000)
            if not rs.ok:
                raise Broken("ReadThrough enumeration failed: %s %s" % (rs.violated, rs.error))
            rs = vlib.run_tlc("ReadThrough", rt_cfg(kind, repl, maxops=5, view=False, emit=True, props=False), mode="simulate", sim_num=150 if quick else 3000,
                              sim_depth=8, sim_seed=sd * 17 + len(kind) + len(repl), workers=1, marker_sink=lambda m, o: hists.append(o), timeout=3000)
            if not rs.ok:
                raise Broken("ReadThrough simulation failed: %s %s" % (rs.violated, rs.error))
            for n, h in enumerate(hists):
                scripts.append({"id": "%s/%s/%d" % (kind, repl, n), "kind": kind, "repl": repl, "steps": rt_steps(h)})
    for kind, mut in [("caching", "no_fallback"), ("caching", "no_copy"), ("caching", "put_to_fast"), ("fallback", "missing_from_primary"), ("fallback", "no_fallback")]:
        rm = vlib.run_tlc("ReadThrough", rt_cfg(kind, "local", mut), dump_trace=True, timeout=600)
        if not rm.violated:
            raise Broken("ReadThrough mutant %s not killed" % mut)
        details["mutants_killed"]["ReadThrough/%s/%s" % (kind, mut)] = rm.violated
        st = vlib.cex_states(rm)
        if st:
            steps = rt_steps(st[-1]["hist"])
            for s in steps:
                s["res"] = ""
            scripts.append({"id": "killer/%s/%s" % (kind, mut), "kind": kind, "repl": "local", "steps": steps})
    sp = os.path.join(work, "rt_scripts.ndjson")
    vlib.write_ndjson(sp, scripts)
    rc, out = vlib.run_harness(binary, "TestReadThrough", {"COMP_SCRIPTS": sp, "COMP_OUT": work}, timeout=3000)
    if rc != 0:
        raise Broken("read-through harness failed:\n" + out[-3000:])
    rt_summ = json.load(open(os.path.join(work, "readthrough_summary.json")))
    # (b) replicator decorators: protocol model, then seeded schedules on the real decorators
    for c in ([dict(callers=3, limit=1, maxfail=1)] if quick else [dict(callers=4, limit=2, maxfail=2), dict(callers=4, limit=1, maxfail=2)]):
        r = vlib.run_tlc("Replicators", repl_cfg(**c), extra=REPL_EXTRA, timeout=3000)
        vlib.require_model_ok(r, "Replicators %s" % c)
        states += r.distinct
        trans += r.generated
        details["replicators"].append({"constants": c, "distinct_states": r.distinct, "transitions": r.generated,
                                       "properties": ["Bounds", "SuccessConfirmed", "NoStuck", "Terminates (under weak fairness)"]})
    for mut in ["skip_after_failed_leader", "success_before_copy", "no_delete_on_failure"]:
        rm = vlib.run_tlc("Replicators", repl_cfg(mut, callers=3, limit=2, maxfail=1, live=False), extra=REPL_EXTRA, timeout=600)
        if not rm.violated:
            raise Broken("Replicators mutant %s not killed" % mut)
        details["mutants_killed"]["Replicators/" + mut] = rm.violated
    # the literal reading of "confirmed after that caller asked" fails already in the design (known finding)
    rstrict = vlib.run_tlc("Replicators", repl_cfg(callers=3, limit=2, maxfail=1, live=False).replace("INVARIANTS Bounds SuccessConfirmed NoStuck", "INVARIANTS StrictSuccessConfirmed"),
                           extra=REPL_EXTRA, timeout=600)
    details["strict_success_confirmed_in_design"] = "violated (known finding C17/dedup-waiter-joins-after-leader-check)" if rstrict.violated else "holds"
    rc, out = vlib.run_harness(binary, "TestReplicators", {"COMP_OUT": work, "VERIF_SEED": sd, "COMP_RUNS": 400 if quick else 20000}, timeout=3400)
    if rc != 0:
        raise Broken("replicator harness failed:\n" + out[-3000:])
    # executions that satisfy the contract only in its weaker reading: a waiter answered by a replication whose
    # confirmation precedes the waiter's own request
    known = [k for k in vlib.load_known_findings() if k.get("property") == pid and k.get("id") == "dedup-waiter-joins-after-leader-check"]
    strict_misses = []
    for ev in vlib.read_ndjson(os.path.join(work, "replicators.ndjson")):
        if ev.get("dec") in ("dedup", "dedup+limit", "limit") and any(c["res"] == "OK" and not c["confirmedAfterAsk"] and c["confirmedWithinOverlap"] for c in ev["callers"]):
            strict_misses.append(ev)
    details["strict_confirmation_misses_observed"] = len(strict_misses)
    known_violations = 0
    if strict_misses:
        if known and all(ev["dec"] in known[0]["match"]["dec"] for ev in strict_misses):
            print("KNOWN-FINDING: property=%s %s (%d execution(s) in this run)" % (pid, known[0]["what"], len(strict_misses)))
        else:
            for i, ev in enumerate(strict_misses[:8]):
                path = vlib.save_replay(pid, "s%d_strict%d" % (sd, i), {"observation.json": ev})
                print("VIOLATION property=%s replay=%s" % (pid, path))
                known_violations += 1
    # (c) existence cache
    ex_scripts = []
    for policy in ("LRU", "FIFO"):
        for size, duration in ([(2, 2)] if quick else [(1, 1), (2, 2), (3, 2)]):
            mo = 3 if quick else 4
            r = vlib.run_tlc("ExistenceCache", ex_cfg(policy, size=size, duration=duration, maxops=mo), extra=ex_extra(), timeout=3000)
            vlib.require_model_ok(r, "ExistenceCache %s" % policy)
            states += r.distinct
            trans += r.generated
            details["existence_cache"].append({"policy": policy, "size": size, "duration": duration, "max_fm": mo, "distinct_states": r.distinct, "transitions": r.generated})
            hists = []
            rs = vlib.run_tlc("ExistenceCache", ex_cfg(policy, size=size, duration=duration, maxops=6, maxtime=9, view=False, emit=True, props=False), extra=ex_extra(),
                              mode="simulate", sim_num=300 if quick else 5000, sim_depth=16, sim_seed=sd * 19 + size, workers=1,
                              marker_sink=lambda m, o: hists.append(o), timeout=3000)
            if not rs.ok:
                raise Broken("ExistenceCache simulation failed: %s %s" % (rs.violated, rs.error))
            for n, h in enumerate(hists):
                ex_scripts.append(ex_script(h, "%s/%d/%d/%d" % (policy, size, duration, n), policy, size, duration))
    for mut in ["compare_reversed", "cache_missing"]:
        rm = vlib.run_tlc("ExistenceCache", ex_cfg("LRU", mut), extra=ex_extra(), dump_trace=True, timeout=600)
        if not rm.violated:
            raise Broken("ExistenceCache mutant %s not killed" % mut)
        details["mutants_killed"]["ExistenceCache/" + mut] = rm.violated
        st = vlib.cex_states(rm)
        if st:
            sc = ex_script(st[-1]["hist"], "killer/" + mut, "LRU", 2, 2)
            sc["killer"] = True   # its expectations are the mutant's
            ex_scripts.append(sc)
    ep = os.path.join(work, "ex_scripts.ndjson")
    vlib.write_ndjson(ep, ex_scripts)
    rc, out = vlib.run_harness(binary, "TestExistence", {"COMP_SCRIPTS": ep, "COMP_OUT": work}, timeout=3000)
    if rc != 0:
        raise Broken("existence harness failed:\n" + out[-3000:])
    ex_summ = json.load(open(os.path.join(work, "existence_summary.json")))
    allp = os.path.join(work, "all.ndjson")
    with open(allp, "w") as fh:
        for f in ("readthrough.ndjson", "replicators.ndjson", "existence.ndjson"):
            fh.write(open(os.path.join(work, f)).read())
    n_events, rejects, vstates = validate_obs("ReadThroughContractTrace", allp)
    violations = report(pid, sd, rejects) + known_violations
    for name, summ in (("read-through", rt_summ), ("existence cache", ex_summ)):
        if summ["drift"]:
            log("DRIFT property=%s (%s) %d of %d operations deviate from the design: %s" % (pid, name, summ["drift"], summ["compared"], json.dumps(summ.get("first_drifts"))[:1500]))
    cov = {"states": states, "transitions": trans, "traces_validated_against_impl": n_events,
           "scripts": {"read_through": len(scripts), "existence_cache": len(ex_scripts)},
           "design_conformance": {"read_through": {"operations_compared": rt_summ["compared"], "drifted": rt_summ["drift"]},
                                  "existence_cache": {"operations_compared": ex_summ["compared"], "drifted": ex_summ["drift"]}},
           "model": details, "trace_validator_states": vstates, "samples": scripts[:1] + ex_scripts[:1]}
    vlib.write_evidence(pid, tier, "model_checking", cov, time.time() - t0, violations,
                        ["back ends are model back ends (sets of objects with a per-call fault plan)",
                         "replicator decorators: 2-4 callers over 3 objects, seeded cooperative schedules plus free-running runs; the deduplication protocol itself is checked exhaustively in Replicators.tla for 3-4 callers",
                         "the queued replicator's success is backed by its existence cache, whose staleness bound is checked separately",
                         "existence cache: LRU and FIFO scripts are compared against the design; the same scripts run under random replacement are checked against the contract only"])
    return 1 if violations else 0


CHECKS["C17"] = check_c17


# ---- C13 --------------------------------------------------------------------------------------------

def cc_cfg(mut="none", emit=False, wide=False):
    c = dict(FileRefs='{"x"}', OutRefs='{"", "z"}', ErrRefs='{"", "w"}', MaxFiles=1, MaxDirs=1, MaxChildren=1,
             States='{"ok", "absent", "garbage"}', RootRefs='{"", "r"}', TreeRefsC='{"t"}', DirFileRefs='{"y"}', DirDirRefs='{"dx"}',
             Objects='{"x", "y", "z", "w", "dx", "r"}', MaxMissing=1, Batches="{1, 2, 100}", FmFails="{0, 2}", Limits="{1, 99}", ACs='{"ok"}')
    if wide:
        c.update(FileRefs='{"x", "bad"}', MaxFiles=2, States='{"ok", "absent", "garbage", "trunc"}', TreeRefsC='{"t", "bad"}', DirFileRefs='{"y", "bad"}',
                 MaxMissing=2, Batches="{1, 2, 3, 100}", FmFails="{0, 1, 2, 3}", Limits="{0, 1, 2, 99}", ACs='{"ok", "absent", "garbage"}')
    s = "INIT Init\nNEXT Next\nCONSTANTS\n" + "".join(" %s = %s\n" % kv for kv in c.items()) + ' Mut = "%s"\n' % mut
    s += "INVARIANTS DesignMeetsContract DesignTransparent%s\n" % (" Emit" if emit else "")
    return s


def cc_random_case(rng):
    names = ["x", "y", "z", "w", "dx", "dy", "r"]
    def ref(pool, pbad=0.06):
        u = rng.random()
        if u < pbad:
            return rng.choice(["bad", "badsize"]) if False else "bad"
        if u < 0.2:
            return ""
        return rng.choice(pool)
    def dirmsg():
        return {"files": [ref(["x", "y", "z"], 0.04) for _ in range(rng.randint(0, 2))], "dirs": [ref(["dx", "dy"], 0.04) for _ in range(rng.randint(0, 2))]}
    dirs = []
    for _ in range(rng.choice([0, 1, 1, 2, 3])):
        dirs.append({"treeref": "bad" if rng.random() < 0.04 else "t", "rootref": rng.choice(["", "", "r", "r", "bad"] if rng.random() < 0.2 else ["", "r"]),
                     "state": rng.choice(["ok"] * 6 + ["absent", "trunc", "ioerr", "garbage"]), "root": dirmsg(),
                     "children": [dirmsg() for _ in range(rng.randint(0, 3))]})
    missing = rng.sample(names, rng.choice([0, 0, 0, 1, 1, 2]))
    sizes = [1 + len(d["children"]) for d in dirs]
    return {"ar": {"files": [ref(["x", "y", "z"]) for _ in range(rng.randint(0, 3))], "stdout": ref(["z", "x"]), "stderr": ref(["w"]), "dirs": dirs},
            "present": [n for n in names if n not in missing], "batch": rng.choice([1, 1, 2, 3, 5, 100]), "fmFail": rng.choice([0, 0, 0, 1, 2, 3]),
            "ac": rng.choice(["ok"] * 12 + ["absent", "garbage"]), "sizes": sizes, "limitBytes": rng.choice([99, 99, 99, 0, 1, 2, 3, sum(sizes), max(sum(sizes) - 1, 0)]),
            "fn": rng.choice(["SHA256", "SHA256", "MD5", "SHA1", "SHA384", "SHA512"]), "cut": rng.randint(0, 1000), "garbage": rng.choice(["child", "varint", "overlong"])}


def cc_validate(path, layer):
    cfg = 'SPECIFICATION TSpec\nPOSTCONDITION Accepted\nCHECK_DEADLOCK FALSE\nCONSTANT Layer = "%s"\n' % layer
    return validate_obs("CompletenessContractTrace", path, cfg=cfg)


def check_c13(pid, tier):
    t0 = time.time()
    sd = vlib.seed()
    rng = random.Random(sd)
    binary = vlib.go_build_test("comp")
    work = vlib.scratch("c13")
    quick = tier == "quick"
    details = {"mutants_killed": {}}
    cases = []
    r = vlib.run_tlc("Completeness", cc_cfg(emit=True), raw_sink=lambda m, raw: cases.append(raw), timeout=3000)
    vlib.require_model_ok(r, "Completeness")
    states = r.distinct
    details["model"] = [{"bounds": "narrow", "cases": r.distinct}]
    if not quick:
        rw = vlib.run_tlc("Completeness", cc_cfg(wide=True), timeout=3400)
        vlib.require_model_ok(rw, "Completeness (wide)")
        states += rw.distinct
        details["model"].append({"bounds": "wide (design against contract only; executed cases are sampled at random from a superset)", "cases": rw.distinct})
    for mut in ["skip_stderr", "drop_full_batch", "skip_tree_children", "no_finalize", "no_size_budget"]:
        rm = vlib.run_tlc("Completeness", cc_cfg(mut), timeout=900)
        if rm.violated != "DesignMeetsContract":
            raise Broken("Completeness mutant %s not killed: %s %s" % (mut, rm.violated, rm.error))
        details["mutants_killed"][mut] = rm.violated
    n_enum = len(cases)
    pick = cases if not quick else rng.sample(cases, min(6000, len(cases)))
    cp = os.path.join(work, "cases.ndjson")
    with open(cp, "w") as fh:
        for raw in pick:
            fh.write(raw + "\n")
        n_rand = 4000 if quick else 60000
        for _ in range(n_rand):
            fh.write(json.dumps(cc_random_case(rng)) + "\n")
    rc, out = vlib.run_harness(binary, "TestCompleteness", {"COMP_CASES": cp, "COMP_OUT": work}, timeout=3000)
    if rc != 0:
        raise Broken("completeness harness failed:\n" + out[-3000:])
    op = os.path.join(work, "complete.ndjson")
    n_events, rejects, vstates = cc_validate(op, "contract")
    violations = report(pid, sd, rejects)
    _, drifts, _ = cc_validate(op, "design")
    if drifts:
        log("DRIFT property=%s %d observations deviate from the design, first: %s" % (pid, len(drifts), json.dumps(drifts[0]["event"])[:1500]))
    cov = {"states": states, "transitions": states, "traces_validated_against_impl": n_events,
           "cases": {"enumerated_by_tlc": n_enum, "executed_enumerated": len(pick), "executed_random": n_rand},
           "design_conformance": {"observations_compared": n_events, "drifted": len(drifts), "capped_at": 8},
           "model": details, "trace_validator_states": vstates, "samples": [json.loads(pick[0])]}
    vlib.write_evidence(pid, tier, "model_checking", cov, time.time() - t0, violations,
                        ["the CAS is a model (table of named objects, recorded FindMissing / Get calls, n-th FindMissing failing, Trees served truncated / failing mid-stream); the AC is a model returning the generated ActionResult",
                         "Trees are real REv2 Tree messages marshalled by the protobuf library; garbage variants: a child that is not a Directory, a non length-delimited field, an over-long field",
                         "the converse (complete results are returned) is checked against the design only, as it is not part of the property"])
    return 1 if violations else 0


CHECKS["C13"] = check_c13


# ---- C12 --------------------------------------------------------------------------------------------

def sh_cfg(part, mut="none", keys=3, maxops=2, maxscore=2, minscore=1, view=True, emit=False, props=True):
    s = "INIT Init\nNEXT Next\n" + ("VIEW View\n" if view else "")
    s += 'CONSTANTS\n Part = "%s"\n Keys = {%s}\n Objs = {"p","q","r"}\n MinScore = %d\n MaxScore = %d\n MaxOps = %d\n Mut = "%s"\n' % (
        part, ",".join('"k%d"' % i for i in range(1, keys + 1)), minscore, maxscore, maxops, mut)
    if props:
        s += "INVARIANTS SelectorInv\n" if part == "selector" else "PROPERTIES PropContract\n"
    if emit:
        s += "CONSTRAINT EmitScript\n"
    return s


def sh_steps(hist):
    return [{"op": h["op"], "objs": sorted(h["objs"]), "failing": sorted(h["failing"]), "shardOf": h["shardOf"],
             "before": {k: sorted(v) for k, v in h["before"].items()}, "after": {k: sorted(v) for k, v in h["after"].items()},
             "res": h["res"], "code": h["code"], "missing": sorted(h["missing"])} for h in hist]


def check_c12(pid, tier):
    t0 = time.time()
    sd = vlib.seed()
    binary = vlib.go_build_test("comp")
    work = vlib.scratch("c12")
    quick = tier == "quick"
    states = trans = 0
    details = {"selector": [], "composite": [], "mutants_killed": {}}
    for c in ([dict(keys=3, maxscore=3)] if quick else [dict(keys=3, maxscore=4), dict(keys=4, maxscore=2)]):
        r = vlib.run_tlc("Sharding", sh_cfg("selector", **c), timeout=3400)
        vlib.require_model_ok(r, "Sharding selector %s" % c)
        states += r.distinct
        trans += r.generated
        details["selector"].append({"constants": c, "score_assignments_x_key_orders_x_listings": r.distinct})
    for mut, kw in [("no_sort", {}), ("none", dict(minscore=0))]:
        rm = vlib.run_tlc("Sharding", sh_cfg("selector", mut, **kw), timeout=900)
        if rm.violated != "SelectorInv":
            raise Broken("Sharding selector mutant %s %s not killed" % (mut, kw))
        details["mutants_killed"]["selector/%s%s" % (mut, "/zero_scores_allowed" if kw else "")] = rm.violated
    scripts = []
    r = vlib.run_tlc("Sharding", sh_cfg("composite", keys=2 if quick else 3, maxops=2 if quick else 3), timeout=3400)
    vlib.require_model_ok(r, "Sharding composite")
    states += r.distinct
    trans += r.generated
    details["composite"].append({"distinct_states": r.distinct, "transitions": r.generated})
    hists = []
    rs = vlib.run_tlc("Sharding", sh_cfg("composite", keys=3, maxops=5, view=False, emit=True, props=False), mode="simulate", sim_num=400 if quick else 6000,
                      sim_depth=8, sim_seed=sd * 23 + 1, workers=1, marker_sink=lambda m, o: hists.append(o), timeout=3000)
    if not rs.ok:
        raise Broken("Sharding simulation failed: %s %s" % (rs.violated, rs.error))
    for n, h in enumerate(hists):
        scripts.append({"id": "sim/%d" % n, "steps": sh_steps(h)})
    for mut in ["ignore_failing_shard", "first_shard_only"]:
        rm = vlib.run_tlc("Sharding", sh_cfg("composite", mut), dump_trace=True, timeout=600)
        if not rm.violated:
            raise Broken("Sharding composite mutant %s not killed" % mut)
        details["mutants_killed"]["composite/" + mut] = rm.violated
        st = vlib.cex_states(rm)
        if st:
            steps = sh_steps(st[-1]["hist"])
            for s in steps:
                s["res"] = ""
            scripts.append({"id": "killer/" + mut, "steps": steps})
    sp = os.path.join(work, "scripts.ndjson")
    vlib.write_ndjson(sp, scripts)
    rc, out = vlib.run_harness(binary, "TestShard", {"COMP_SCRIPTS": sp, "COMP_OUT": work, "VERIF_SEED": sd}, timeout=3000)
    if rc != 0:
        raise Broken("shard harness failed:\n" + out[-3000:])
    summ = json.load(open(os.path.join(work, "shard_summary.json")))
    rc, out = vlib.run_harness(binary, "TestSelector", {"COMP_OUT": work, "VERIF_SEED": sd, "COMP_RUNS": 60 if quick else 3000}, timeout=3000)
    if rc != 0:
        raise Broken("selector harness failed:\n" + out[-3000:])
    ssum = json.load(open(os.path.join(work, "selector_summary.json")))
    allp = os.path.join(work, "all.ndjson")
    with open(allp, "w") as fh:
        fh.write(open(os.path.join(work, "selector.ndjson")).read())
        fh.write(open(os.path.join(work, "shard.ndjson")).read())
    n_events, rejects, vstates = validate_obs("ShardingContractTrace", allp)
    violations = report(pid, sd, rejects)
    if summ["drift"]:
        log("DRIFT property=%s %d of %d operations deviate from the design: %s" % (pid, summ["drift"], summ["compared"], json.dumps(summ.get("first_drifts"))[:1500]))
    cov = {"states": states, "transitions": trans, "traces_validated_against_impl": n_events,
           "selector_observations": ssum, "scripts": len(scripts),
           "design_conformance": {"operations_compared": summ["compared"], "drifted": summ["drift"]}, "model": details,
           "trace_validator_states": vstates, "samples": scripts[:1]}
    vlib.write_evidence(pid, tier, "model_checking", cov, time.time() - t0, violations,
                        ["the selector design is checked for every score assignment over a small range; the real 64-bit fixed-point score is exercised only through the conformance harness (random maps of 1-6 shards, weights incl. 1 and 2^32-1, hashes crafted through the inverse of the mixer so that the logarithm's argument is 0, 1, 2^k, 2^k+-1, 2^64-1 and lookup-table boundaries)",
                         "minimal disruption is checked for every single removal and three random additions per (map, hash)",
                         "composite: back ends are recording sets of objects; digests share only their leading eight hash bytes with the object they stand for (function, size, tail and instance name vary per call)"])
    return 1 if violations else 0


CHECKS["C12"] = check_c12
