"""C09 (validation), C15 (clones / background tasks), C16 (error handlers): the buffer layer.

TLC enumerates the case lists from the specifications (the state space is the
case list), checks the transcribed design against the contract, and emits the
cases; the Go harness concretizes and executes every case on the real buffers
with every constructor / consumption method; TLC validates the observations
against the contract monitor."""
import json, os, random, time
import vlib
from vlib import Broken, log


def c09_cfg(maxd, maxs, maxchunks, mut="none", emit=True):
    return ('INIT Init\nNEXT Next\nCONSTANTS\n MaxD = %d\n MaxS = %d\n MaxChunks = %d\n Mut = "%s"\nINVARIANTS ReaderMeets ChunksMeet%s\n'
            % (maxd, maxs, maxchunks, mut, " Emit" if emit else ""))


def validate(module, path, pid, sd, max_rejects=8):
    n_traces, n_events, rejects, vstates = 0, 0, [], 0
    # observations are independent lines: validate as one trace without reset markers
    events = vlib.read_ndjson(path)
    n_events = len(events)
    pos = 0
    while pos < len(events) and len(rejects) < max_rejects:
        d = vlib.scratch("bufobs")
        chunk = events[pos:]
        vlib.write_ndjson(os.path.join(d, "trace.ndjson"), chunk)
        r = vlib.run_tlc(module, "SPECIFICATION TSpec\nPOSTCONDITION Accepted\nCHECK_DEADLOCK FALSE\n", workers=1, timeout=3000,
                         extra_files={"trace.ndjson": open(os.path.join(d, "trace.ndjson")).read()},
                         java_opts="-Dtlc2.tool.queue.IStateQueue=StateDeque")
        vstates += r.distinct
        if r.ok:
            break
        if "ostcondition" not in r.stdout and "Accepted" not in r.stdout:
            raise Broken("observation validation failed:\n" + r.stdout[-3000:])
        consumed = max(r.depth - 1, 0)
        rejects.append({"line": pos + consumed, "event": chunk[consumed]})
        pos += consumed + 1
    return n_events, rejects, vstates


def check_c09(pid, tier):
    t0 = time.time()
    sd = vlib.seed()
    binary = vlib.go_build_test("buf")
    work = vlib.scratch("buf")
    quick = tier == "quick"
    dims = (2, 2, 2) if quick else (2, 3, 3)
    cases_path = os.path.join(work, "cases.ndjson")
    fh = open(cases_path, "w")
    n = [0]

    def sink(m, raw):
        n[0] += 1
        fh.write(raw + "\n")
    r = vlib.run_tlc("BufferValidate", c09_cfg(*dims), raw_sink=sink, timeout=3000)
    fh.close()
    vlib.require_model_ok(r, "BufferValidate")
    killed = {}
    for mut in ["deliver_before_verdict"]:
        rm = vlib.run_tlc("BufferValidate", c09_cfg(2, 2, 2, mut, emit=False), timeout=600)
        killed[mut] = rm.violated or "NOT KILLED"
        if not rm.violated:
            raise Broken("design mutant %s not killed" % mut)
    fns = "SHA256,MD5" if quick else "BLAKE3,GITSHA1,MD5,SHA1,SHA256,SHA256TREE,SHA384,SHA512"
    if quick:
        allf = "BLAKE3,GITSHA1,MD5,SHA1,SHA256,SHA256TREE,SHA384,SHA512".split(",")
        rng = random.Random(sd)
        fns = ",".join(["SHA256", rng.choice([f for f in allf if f != "SHA256"])])
    rc, out = vlib.run_harness(binary, "TestValidate", {"BUF_CASES": cases_path, "BUF_OUT": work, "BUF_FUNCTIONS": fns}, timeout=3000)
    if rc != 0:
        raise Broken("buffer harness failed:\n" + out[-3000:])
    summ = json.load(open(os.path.join(work, "summary.json")))
    n_events, rejects, vstates = validate("BufferContractTrace", os.path.join(work, "obs.ndjson"), pid, sd)
    violations = 0
    for rj in rejects:
        path = vlib.save_replay(pid, "s%d_%d" % (sd, violations), {"observation.json": rj["event"], "README": "re-run: python3 tools/verif.py check C09\n"})
        violations += 1
        print("VIOLATION property=%s replay=%s" % (pid, path))
        log("  rejected observation: %s" % json.dumps(rj["event"])[:400])
    if summ["drift"]:
        log("DRIFT property=%s %s" % (pid, json.dumps(summ["first_drift"])[:600]))
    first = json.loads(open(cases_path).readline())
    cov = {"states": r.distinct, "transitions": max(r.generated, r.distinct), "traces_validated_against_impl": n_events,
           "cases": summ["cases"], "observations": summ["observations"], "distinct_nontrivial": summ["distinct"], "evaluations": summ["observations"],
           "exhaustive": True, "digest_functions": fns, "design_conformance": {"compared": summ["compared"], "drifted": summ["drift"]},
           "mutants_killed": killed, "bounds": {"MaxD": dims[0], "MaxS": dims[1], "MaxChunks": dims[2]},
           "rule": "every (digest content, source content, chunking, ending) within the bounds x constructor x source kind x consumption method; distinct = distinct (case, constructor, method, arguments, result)",
           "trace_validator_states": vstates, "samples": [first]}
    vlib.write_evidence(pid, tier, "model_checking", cov, time.time() - t0, violations,
                        ["contents are strings over {a,b} of length <= 3; hash equality is content equality in the specification, the real hash functions are exercised by concretization",
                         "ToProto and GetSizeBytes are not part of this check"])
    return 1 if violations else 0


def mux_cfg(n, script, err, mut="none", view=True, emit=False):
    s = "INIT Init\nNEXT Next\n" + ("VIEW View\n" if view else "")
    s += 'CONSTANTS\n Consumers = {%s}\n Script <- MCScript\n EndsWithError = %s\n Mut = "%s"\n' % (
        ",".join('"c%d"' % i for i in range(1, n + 1)), "TRUE" if err else "FALSE", mut)
    s += "INVARIANTS NoPanic Agreement SameAsSource ClosedOnce NoDeadlock\n"
    if emit:
        s += "CONSTRAINT EmitScript\n"
    return s


def mux_extra(script):
    return "MCScript == <<%s>>\n" % ",".join('"%s"' % c for c in script)


def check_c15(pid, tier):
    t0 = time.time()
    sd = vlib.seed()
    binary = vlib.go_build_test("buf")
    work = vlib.scratch("buf15")
    quick = tier == "quick"
    states = trans = 0
    details = {"mux_models": [], "mutants_killed": {}}
    scripts = []
    shapes = [(2, ["x"], False), (2, ["x", "y"], True), (3, ["x"], False), (3, ["x", "y"], False), (3, [], True)]
    if not quick:
        shapes += [(3, ["x", "y"], True), (4, ["x"], False), (4, ["x", "y"], False)]
    for n, script, err in shapes:
        r = vlib.run_tlc("CloneMux", mux_cfg(n, script, err), extra=mux_extra(script), timeout=1500)
        vlib.require_model_ok(r, "CloneMux %d %s" % (n, script))
        states += r.distinct
        trans += r.generated
        details["mux_models"].append({"consumers": n, "script": script, "ends_with_error": err, "distinct_states": r.distinct, "transitions": r.generated})
        # interleavings: exhaustive (every maximal path) for 2 consumers, simulated otherwise
        hists = []
        if n == 2:
            rs = vlib.run_tlc("CloneMux", mux_cfg(n, script, err, view=False, emit=True), extra=mux_extra(script),
                              marker_sink=lambda m, o: hists.append(o), timeout=1500)
        else:
            rs = vlib.run_tlc("CloneMux", mux_cfg(n, script, err, view=False, emit=True), extra=mux_extra(script), mode="simulate",
                              sim_num=150 if quick else 2000, sim_depth=60, sim_seed=sd * 17 + n, workers=1,
                              marker_sink=lambda m, o: hists.append(o), timeout=1500)
        if not rs.ok:
            raise Broken("CloneMux script generation failed: %s %s" % (rs.violated, rs.error))
        seen = set()
        for h in hists:
            k = json.dumps(h)
            if k not in seen:
                seen.add(k)
                scripts.append({"id": "n%d-%s-%s/%d" % (n, "".join(script), "err" if err else "eof", len(seen)), "n": n,
                                "chunks": script, "err": err, "steps": h})
    for mut in ["rearm_wrong", "close_while_waiting"]:
        rm = vlib.run_tlc("CloneMux", mux_cfg(3, ["x", "y"], False, mut), extra=mux_extra(["x", "y"]), dump_trace=True, timeout=600)
        if not rm.violated:
            raise Broken("CloneMux mutant %s not killed" % mut)
        details["mutants_killed"][mut] = rm.violated
        st = vlib.cex_states(rm)
        if st:
            scripts.append({"id": "killer/" + mut, "n": 3, "chunks": ["x", "y"], "err": False, "steps": st[-1]["hist"]})
    sp = os.path.join(work, "mux_scripts.ndjson")
    vlib.write_ndjson(sp, scripts)
    rc, out = vlib.run_harness(binary, "TestMux", {"BUF_SCRIPTS": sp, "BUF_OUT": work, "VERIF_SEED": sd,
                                                   "BUF_FREE_RUNS": 300 if quick else 5000}, timeout=3000)
    if rc != 0:
        raise Broken("mux harness failed:\n" + out[-3000:])
    # the buffer algebra
    terms_path = os.path.join(work, "terms.ndjson")
    fh = open(terms_path, "w")
    ra = vlib.run_tlc("BufferAlgebra", "INIT Init\nNEXT Next\nCONSTANTS\n MaxOps = %d\nINVARIANTS Sane Emit\n" % (2 if quick else 3),
                      raw_sink=lambda m, raw: fh.write(raw + "\n"), timeout=3000)
    fh.close()
    vlib.require_model_ok(ra, "BufferAlgebra")
    states += ra.distinct
    trans += max(ra.generated, ra.distinct)
    rc, out = vlib.run_harness(binary, "TestAlgebra", {"BUF_CASES": terms_path, "BUF_OUT": work}, timeout=3000)
    if rc != 0:
        raise Broken("algebra harness failed:\n" + out[-3000:])
    allp = os.path.join(work, "all.ndjson")
    with open(allp, "w") as fh:
        fh.write(open(os.path.join(work, "mux.ndjson")).read())
        fh.write(open(os.path.join(work, "alg.ndjson")).read())
    n_events, rejects, vstates = validate("CloneContractTrace", allp, pid, sd)
    known = [k for k in vlib.load_known_findings() if k.get("property") == pid and k.get("status") == "open"]
    violations = 0
    for rj in rejects:
        path = vlib.save_replay(pid, "s%d_%d" % (sd, violations), {"observation.json": rj["event"]})
        violations += 1
        print("VIOLATION property=%s replay=%s" % (pid, path))
        log("  rejected observation: %s" % json.dumps(rj["event"])[:500])
    cov = {"states": states, "transitions": trans, "traces_validated_against_impl": n_events,
           "mux_scripts_replayed": len(scripts), "algebra_terms": ra.distinct, "model": details,
           "trace_validator_states": vstates, "samples": scripts[:2]}
    vlib.write_evidence(pid, tier, "model_checking", cov, time.time() - t0, violations,
                        ["scripted interleavings are replayed with testing/synctest (a bubble in which everybody is blocked is reported as a deadlock); free-running runs use the Go scheduler",
                         "tasks attached with WithTask are independent of the data (they do not consume a clone)"])
    return 1 if violations else 0


def check_c16(pid, tier):
    t0 = time.time()
    sd = vlib.seed()
    binary = vlib.go_build_test("buf")
    work = vlib.scratch("buf16")
    quick = tier == "quick"
    cases_path = os.path.join(work, "cases.ndjson")
    fh = open(cases_path, "w")
    dims = (2, 2, 3) if quick else (1, 4, 4)
    r = vlib.run_tlc("ErrorRetry", "INIT Init\nNEXT Next\nCONSTANTS\n MinN = %d\n MaxN = %d\n MaxSegs = %d\nINVARIANTS Sane Emit\n" % dims,
                     raw_sink=lambda m, raw: fh.write(raw + "\n"), timeout=3000)
    fh.close()
    vlib.require_model_ok(r, "ErrorRetry")
    rc, out = vlib.run_harness(binary, "TestRetry", {"BUF_CASES": cases_path, "BUF_OUT": work}, timeout=3000)
    if rc != 0:
        raise Broken("retry harness failed:\n" + out[-3000:])
    summ = json.load(open(os.path.join(work, "retry_summary.json")))
    n_events, rejects, vstates = validate("RetryContractTrace", os.path.join(work, "retry.ndjson"), pid, sd)
    violations = 0
    for rj in rejects:
        path = vlib.save_replay(pid, "s%d_%d" % (sd, violations), {"observation.json": rj["event"]})
        violations += 1
        print("VIOLATION property=%s replay=%s" % (pid, path))
        log("  rejected observation: %s" % json.dumps(rj["event"])[:500])
    first = json.loads(open(cases_path).readline())
    cov = {"states": r.distinct, "transitions": max(r.generated, r.distinct), "traces_validated_against_impl": n_events,
           "cases": summ["cases"], "observations": summ["observations"], "bounds": {"MinN": dims[0], "MaxN": dims[1], "MaxSegs": dims[2]},
           "exhaustive": True, "trace_validator_states": vstates, "samples": [first]}
    vlib.write_evidence(pid, tier, "model_checking", cov, time.time() - t0, violations,
                        ["replacement buffers are CAS buffers over scripted readers / chunk readers delivering the complete object",
                         "the handler replaces in chain order and translates to UNAVAILABLE when the chain is exhausted"])
    return 1 if violations else 0


def check(pid, tier, replay=None):
    if replay:
        return vlib.replay_observation(pid, {"C09": "BufferContractTrace", "C15": "CloneContractTrace", "C16": "RetryContractTrace"}[pid], replay)
    if pid == "C16":
        return check_c16(pid, tier)
    if pid == "C09":
        return check_c09(pid, tier)
    if pid == "C15":
        return check_c15(pid, tier)
    raise Broken("no check for " + pid)
