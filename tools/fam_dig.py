"""C20: digests, resource names, instance names, digest sets (pkg/digest)."""
import json, os, random, time
import vlib
from vlib import Broken, log
from fam_comp import validate_obs, report

PARTS = ["read", "write", "instance", "newdigest", "roundtrip", "keys", "sets"]
QUICK_SAMPLE = {"read": 9000, "write": 9000, "keys": 2000}
THOROUGH_SAMPLE = {}


ALPHABET = ([{"k": "inst", "v": "a"}, {"k": "inst", "v": "operations"}, {"k": "inst", "v": "."}, {"k": "kw", "v": "blobs"}, {"k": "kw", "v": "compressed-blobs"}, {"k": "kw", "v": "uploads"},
             {"k": "comp", "v": "zstd"}, {"k": "comp", "v": "bogus"}, {"k": "comp", "v": "identity"}, {"k": "fn", "v": "sha256tree"}, {"k": "fn", "v": "gitsha1"},
             {"k": "fn", "v": "sha256"}, {"k": "fn", "v": "nope"}, {"k": "uuid", "v": "u"}, {"k": "path", "v": "foo.txt"}, {"k": "empty", "v": ""}]
            + [{"k": "hash", "v": h} for h in ("h32", "h40", "h64", "h96", "h128", "h10", "H64", "x64")]
            + [{"k": "size", "v": s} for s in ("s0", "s123", "smax", "sneg", "sabc", "sexp", "sover", "splus", "szero7")])


def double_mutation(case, rng):
    """One more mutation (the operators of Digests.tla: delete, replace, insert, swap, truncate) of an enumerated case."""
    toks = list(case["toks"])
    op = rng.choice(["delete", "replace", "insert", "swap", "truncate"])
    if op == "delete" and toks:
        del toks[rng.randrange(len(toks))]
    elif op == "replace" and toks:
        toks[rng.randrange(len(toks))] = dict(rng.choice(ALPHABET))
    elif op == "insert":
        toks.insert(rng.randrange(len(toks) + 1), dict(rng.choice(ALPHABET)))
    elif op == "swap" and len(toks) > 1:
        i = rng.randrange(len(toks) - 1)
        toks[i], toks[i + 1] = toks[i + 1], toks[i]
    else:
        toks = toks[:rng.randrange(len(toks) + 1)]
    return {"kind": case["kind"], "toks": toks}


def dig_cfg(part, muts=1, emit=True):
    return 'INIT Init\nNEXT Next\nCONSTANTS\n Part = "%s"\n Muts = %d\nINVARIANTS Sane%s\n' % (part, muts, " Emit" if emit else "")


def check(pid, tier, replay=None):
    if replay:
        return vlib.replay_observation(pid, "DigestContractTrace", replay)
    t0 = time.time()
    sd = vlib.seed()
    rng = random.Random(sd)
    binary = vlib.go_build_test("dig")
    work = vlib.scratch("c20")
    quick = tier == "quick"
    states = 0
    details = {}
    allp = os.path.join(work, "all.ndjson")
    allf = open(allp, "w")
    executed = {}
    for part in PARTS:
        cases = []
        r = vlib.run_tlc("Digests", dig_cfg(part), raw_sink=lambda m, raw: cases.append(raw), timeout=3000)
        vlib.require_model_ok(r, "Digests " + part)
        states += r.distinct
        n_all = len(cases)
        if part in ("read", "write"):
            # second-order mutations: a seeded sample, produced here from the single mutations TLC enumerated (the
            # grammar's verdict on them is computed by the TLC monitor from the tokens, like for every other case)
            extra = [json.dumps(double_mutation(json.loads(rng.choice(cases)), rng)) for _ in range(1500 if quick else 120000)]
            details[part + "_double_mutations"] = {"sampled": len(extra)}
            doubles = extra
        else:
            doubles = []
        cap = (QUICK_SAMPLE if quick else THOROUGH_SAMPLE).get(part)
        if cap and len(cases) > cap:
            cases = rng.sample(cases, cap)
        cases = cases + doubles
        details[part] = {"cases_enumerated": n_all, "executed": len(cases)}
        executed[part] = len(cases)
        cp = os.path.join(work, part + "_cases.ndjson")
        open(cp, "w").write("\n".join(cases) + "\n")
        rc, out = vlib.run_harness(binary, "TestCases", {"DIG_OUT": work, "DIG_PART": part, "DIG_CASES": cp, "VERIF_SEED": sd}, timeout=3000)
        if rc != 0:
            raise Broken("digest harness (%s) failed:\n%s" % (part, out[-3000:]))
        allf.write(open(os.path.join(work, part + ".ndjson")).read())
    rc, out = vlib.run_harness(binary, "TestFuzz", {"DIG_OUT": work, "VERIF_SEED": sd, "DIG_RUNS": 50000 if quick else 400000}, timeout=3000)
    if rc != 0:
        raise Broken("digest fuzz harness failed:\n" + out[-3000:])
    allf.write(open(os.path.join(work, "fuzz.ndjson")).read())
    allf.close()
    details["fuzz"] = json.load(open(os.path.join(work, "fuzz_summary.json")))
    n_events, rejects, vstates = validate_obs("DigestContractTrace", allp)
    violations = report(pid, sd, rejects)
    cov = {"states": states, "transitions": states, "traces_validated_against_impl": n_events, "executed": executed, "model": details,
           "trace_validator_states": vstates, "samples": [json.loads(open(os.path.join(work, "read_cases.ndjson")).readline())]}
    vlib.write_evidence(pid, tier, "model_checking", cov, time.time() - t0, violations,
                        ["resource names are generated as token sequences: every documented form (3 instance names x identity / zstd / deflate x 8 digest functions x 3 sizes, uploads with and without trailing path) and every single deletion, replacement, insertion (34-token alphabet), swap and truncation; double mutations sampled in the thorough tier",
                         "redundant slashes and trailing components on read paths, an explicit plus sign and leading zeros in sizes are tolerated by the contract (upstream accepts them by design); instance names must reject redundant slashes",
                         "arbitrary byte strings are covered by a seeded mutation fuzzer whose verdict (no panic, accepted input is stable under format / parse) is also evaluated by the TLC monitor",
                         "set algebra over a universe of five digests (one object and the empty blob under two instance names each, so that instance names interleave in sorted order, plus an object under a third name): all pairs of subsets x four third operands, all sequences of <=3 additions"])
    return 1 if violations else 0
