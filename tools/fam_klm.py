"""C06: key-location index.  Design spec KeyLocationMap.tla |= IndexContract.tla,
edge-cover + simulated scripts + mutant killers replayed on the real
hashingKeyLocationMap (both record arrays), traces validated by
IndexContractTrace.tla."""
import json, os, random, time
import vlib
from vlib import Broken, log

KEYS = ["k1", "k2", "k3"]
MUTANTS = ["put_limit_off_by_one", "update_reversed", "update_always", "displace_reversed", "displace_drop",
           "discard_not_counted", "get_wrong_key"]
# Design changes the contract (and the property as worded) does not forbid; TLC confirms that no
# bounded behaviour distinguishes them at contract level.  On the real code they surface as DRIFT.
#  - get_skip_invalid: by ProbeOrder no valid record of a key lies beyond an invalid slot of its probe chain
#  - *_cmp_no_attempt: only changes which stale duplicate is reported as discarded
#  - displace_nonstrict: turns ties into counted discards
BENIGN_MUTANTS = ["displace_nonstrict", "get_skip_invalid", "get_cmp_no_attempt", "put_cmp_no_attempt"]


_pools = {}


def pool(binary, n, maxget):
    """Slots the *real* hash assigns to candidate keys (attempt 0..maxget)."""
    if (n, maxget) not in _pools:
        d = vlib.scratch("klmpool")
        out = os.path.join(d, "pool.json")
        rc, o = vlib.run_harness(binary, "TestSlots", {"KLM_N": n, "KLM_MAXGET": maxget, "KLM_OUT": out})
        if rc != 0:
            raise Broken("TestSlots failed: " + o[-1000:])
        _pools[(n, maxget)] = json.load(open(out))
    return _pools[(n, maxget)]


def pick_keys(kind, pl, rng):
    """Choose three pool keys whose real slot rows have the wanted collision pattern."""
    names = sorted(pl, key=lambda x: int(x[1:]))
    def score(tr):
        rows = [pl[x] for x in tr]
        a0 = len({r[0] for r in rows})
        a1 = len({r[1] for r in rows}) if len(rows[0]) > 1 else 1
        full = len({tuple(r) for r in rows})
        if kind == "collide":          # same first slot, then spread
            return (-a0, a1)
        if kind == "allsame":          # identical probe chains
            return (-full, 0)
        if kind == "distinct_then_collide":
            return (a0, -a1)
        if kind == "chain":            # k2's first slot is k1's second, ...
            return (sum(1 for i in range(2) if rows[i][min(1, len(rows[i]) - 1)] == rows[i + 1][0]), a0)
        return (0, 0)
    if kind == "random":
        tr = rng.sample(names, 3)
        return tr
    best = None
    cand = names[:60]
    for i in range(len(cand)):
        for j in range(i + 1, len(cand)):
            for k in range(j + 1, len(cand)):
                tr = (cand[i], cand[j], cand[k])
                sc = score(tr)
                if best is None or sc > best[0]:
                    best = (sc, tr)
    return list(best[1])


def shapes(tier, rng, binary):
    base = [
        dict(n=3, maxGet=2, maxPut=3, kind="collide"),
        dict(n=2, maxGet=3, maxPut=2, kind="chain"),
        dict(n=1, maxGet=2, maxPut=4, kind="allsame"),
        dict(n=4, maxGet=3, maxPut=4, kind="distinct_then_collide"),
        dict(n=3, maxGet=3, maxPut=1, kind="collide"),
        dict(n=2, maxGet=2, maxPut=3, kind="random"),
    ]
    if tier == "thorough":
        for i in range(10):
            base.append(dict(n=rng.choice([2, 3, 4, 5]), maxGet=rng.choice([1, 2, 3]), maxPut=rng.choice([1, 2, 4]), kind="random"))
    out = []
    for i, b in enumerate(base):
        b = dict(b)
        pl = pool(binary, b["n"], b["maxGet"])
        # fixed shapes use a fixed generator so that killer scripts stay valid across seeds
        tr = pick_keys(b["kind"], pl, random.Random(i) if i < 6 else rng)
        b["keystr"] = dict(zip(KEYS, tr))
        b["slot"] = {k: pl[p] for k, p in b["keystr"].items()}
        b["name"] = "shape%d_%s_n%d_g%d_p%d" % (i, b["kind"], b["n"], b["maxGet"], b["maxPut"])
        out.append(b)
    return out


def mc_extra(shape):
    cases = []
    for k, row in shape["slot"].items():
        for a, s in enumerate(row):
            cases.append('k = "%s" /\\ a = %d -> %d' % (k, a, s))
    return "MCSlot(k, a) == CASE " + " [] ".join(cases) + "\n"


def cfg_text(shape, *, maxops, nblocks=3, noffs=2, mut="none", invariants=True, emit=None, constraint=None, contract_only=False):
    s = "INIT Init\nNEXT Next\n"
    s += "CONSTANTS\n N = %d\n Keys = {%s}\n MaxGet = %d\n MaxPut = %d\n NumBlocks = %d\n NumOffsets = %d\n MaxOps = %d\n Mut = \"%s\"\n SlotOf <- MCSlot\n" % (
        shape["n"], ",".join('"%s"' % k for k in KEYS), shape["maxGet"], shape["maxPut"], nblocks, noffs, maxops, mut)
    if contract_only:
        s += "INVARIANTS InvSound InvNoSilentLoss\nPROPERTIES PropFrame\n"
    elif invariants:
        s += "INVARIANTS TypeOK InvSound InvNoSilentLoss ProbeOrder Placed\nPROPERTIES PropFrame\n"
    if emit:
        s += "ACTION_CONSTRAINT %s\n" % emit
    if constraint:
        s += "CONSTRAINT %s\n" % constraint
    return s


def go_config(shape, tag):
    return {"n": shape["n"], "maxGet": shape["maxGet"], "maxPut": shape["maxPut"], "keys": KEYS,
            "slot": {k: v[:shape["maxGet"]] for k, v in shape["slot"].items()}, "keystr": shape["keystr"], "tag": tag}


def killers(shapes_, regenerate=False):
    """Shortest counterexamples of the mutated designs, as operation lists."""
    path = os.path.join(vlib.VERIF, "gen", "killers", "C06.json")
    if os.path.exists(path) and not regenerate:
        return json.load(open(path))
    out = []
    unkilled = []
    for mut in MUTANTS:
        killed = False
        for sh in shapes_:
            r = vlib.run_tlc("KeyLocationMap", cfg_text(sh, maxops=5, mut=mut, contract_only=True) + "VIEW View\n", extra=mc_extra(sh),
                             dump_trace=True, timeout=300)
            if r.violated and vlib.cex_states(r):
                hist = vlib.cex_states(r)[-1]["hist"]
                ops = [{"op": h["op"], "key": h["key"], "abs": h["abs"], "off": h["off"]} for h in hist]
                out.append({"mutant": mut, "shape": {k: sh[k] for k in ("n", "maxGet", "maxPut", "kind", "slot", "keystr", "name")},
                            "violates": r.violated, "ops": ops})
                killed = True
                break
        if not killed:
            unkilled.append(mut)
    if unkilled:
        raise Broken("design mutants not killed by the contract: %s" % unkilled)
    os.makedirs(os.path.dirname(path), exist_ok=True)
    json.dump(out, open(path, "w"), indent=1)
    return out


def replay_bundle(binary, bundle):
    """Re-execute a stored replay bundle on the real code; True iff the contract rejects again."""
    d = vlib.scratch("klmreplay")
    env = {"KLM_CONFIG": os.path.join(bundle, "config.json"), "KLM_OUT": d, "KLM_SAMPLE_PERMILLE": 1000}
    if os.path.exists(os.path.join(bundle, "scripts.ndjson")):
        env["KLM_SCRIPTS"] = os.path.join(bundle, "scripts.ndjson")
    if os.path.exists(os.path.join(bundle, "edges.ndjson")):
        env["KLM_EDGES"] = os.path.join(bundle, "edges.ndjson")
    rc, out = vlib.run_harness(binary, "TestReplay", env)
    if rc != 0:
        raise Broken("replay harness failed:\n" + out[-2000:])
    allp = os.path.join(d, "all.ndjson")
    with open(allp, "w") as fh:
        for f in ("dev.ndjson", "sample.ndjson"):
            fh.write(open(os.path.join(d, f)).read())
    if os.path.getsize(allp) == 0:
        return False
    _, _, rejects, _ = vlib.validate_traces("IndexContractTrace", allp)
    return len(rejects) > 0


def check(pid, tier, replay=None):
    t0 = time.time()
    sd = vlib.seed()
    rng = random.Random(sd)
    binary = vlib.go_build_test("klm")
    if replay:
        rej = replay_bundle(binary, replay)
        print(("VIOLATION property=%s replay=%s" % (pid, replay)) if rej else "replay: contract accepts")
        return 1 if rej else 0
    shp = shapes(tier, rng, binary)
    maxops = 4 if tier == "quick" else 5
    tot_states = tot_trans = 0
    cov = {"configs": [], "mutants_killed": [], "design_conformance": {"accepted": 0, "drifted": 0}}
    work = vlib.scratch("klm")
    all_traces = os.path.join(work, "all.ndjson")
    allfh = open(all_traces, "w")
    bundles = {}   # trace id prefix -> (config, script/edge source)
    samples = []
    total_scripts = total_edges = total_steps = 0
    drift = []
    for si, sh in enumerate(shp):
        extra = mc_extra(sh)
        d = os.path.join(work, sh["name"])
        os.makedirs(d)
        edges_path = os.path.join(d, "edges.ndjson")
        efh = open(edges_path, "w")
        # (M) exhaustive check of design |= contract, emitting every edge
        r = vlib.run_tlc("KeyLocationMap", cfg_text(sh, maxops=maxops, emit="EmitEdge") + "VIEW View\n", extra=extra,
                         raw_sink=lambda m, raw: efh.write(raw + "\n"), timeout=1200)
        efh.close()
        vlib.require_model_ok(r, "KeyLocationMap " + sh["name"])
        tot_states += r.distinct
        tot_trans += r.generated
        # simulated long scripts over a larger location universe
        scripts_path = os.path.join(d, "scripts.ndjson")
        sfh = open(scripts_path, "w")
        cnt = [0]

        def sink(m, raw):
            cnt[0] += 1
            sfh.write('{"id":"sim%d","steps":%s}\n' % (cnt[0], raw))
        nsim = 150 if tier == "quick" else 2000
        rs = vlib.run_tlc("KeyLocationMap", cfg_text(sh, maxops=12, nblocks=5, noffs=2, invariants=True, constraint="EmitScript"),
                          extra=extra, mode="simulate", sim_num=nsim, sim_depth=13, sim_seed=sd * 1000 + si, workers=1,
                          raw_sink=sink, timeout=600)
        if not rs.ok:
            raise Broken("simulation failed: %s %s\n%s" % (rs.violated, rs.error, rs.stdout[-2000:]))
        # killer scripts that were generated for this shape
        for k in killers(shp if tier == "quick" else shp[:6]):
            if k["shape"]["name"] == sh["name"]:
                cnt[0] += 1
                sfh.write(json.dumps({"id": "killer_" + k["mutant"], "force": True, "steps": k["ops"]}) + "\n")
        sfh.close()
        cfgp = os.path.join(d, "config.json")
        json.dump(go_config(sh, "s%d" % sd), open(cfgp, "w"))
        # (R) replay on the real code
        rc, out = vlib.run_harness(binary, "TestReplay", {"KLM_CONFIG": cfgp, "KLM_SCRIPTS": scripts_path, "KLM_EDGES": edges_path,
                                                           "KLM_OUT": d, "VERIF_SEED": sd,
                                                           "KLM_SAMPLE_PERMILLE": 30 if tier == "quick" else 10})
        if rc != 0:
            raise Broken("klm harness failed:\n" + out[-3000:])
        summ = json.load(open(os.path.join(d, "summary.json")))
        total_scripts += summ["scripts"]
        total_edges += summ["edges"]
        total_steps += summ["steps"] + summ["edges"]
        ndev = summ["deviating"] + summ["edge_deviating"]
        cov["design_conformance"]["accepted"] += summ["scripts"] + summ["edges"] - ndev
        cov["design_conformance"]["drifted"] += ndev
        if ndev:
            drift.append({"shape": sh["name"], "first": summ["first_deviations"][:2]})
        for f in ("dev.ndjson", "sample.ndjson"):
            for line in open(os.path.join(d, f)):
                ev = json.loads(line)
                if "id" in ev:
                    ev["id"] = sh["name"] + "/" + ev["id"]
                allfh.write(json.dumps(ev, separators=(",", ":")) + "\n")
        bundles[sh["name"]] = (cfgp, scripts_path, edges_path)
        cov["configs"].append({"shape": sh["name"], "slot": sh["slot"], "distinct_states": r.distinct, "transitions": r.generated,
                               "edges_replayed": summ["edges"], "scripts_replayed": summ["scripts"], "outcomes": summ["outcomes"],
                               "deviating": ndev})
        if len(samples) < 3:
            first = open(scripts_path).readline()
            if first:
                samples.append({"shape": sh["name"], "script": json.loads(first)})
    # (V) random runs with the real hash on assorted table sizes
    rc, out = vlib.run_harness(binary, "TestRandom", {"KLM_OUT": work, "VERIF_SEED": sd,
                                                       "KLM_RUNS": 60 if tier == "quick" else 600, "KLM_OPS": 60})
    if rc != 0:
        raise Broken("klm random harness failed:\n" + out[-3000:])
    rsum = json.load(open(os.path.join(work, "random_summary.json")))
    for line in open(os.path.join(work, "random.ndjson")):
        allfh.write(line)
    allfh.close()
    n_traces, n_events, rejects, vstates = vlib.validate_traces("IndexContractTrace", all_traces)
    cov["mutants_killed"] = [k["mutant"] + "@" + k["shape"]["name"] + ":" + k["violates"] for k in killers(shp[:6])]
    violations = 0
    known = [k for k in vlib.load_known_findings() if k.get("property") == pid and k.get("status") == "open"]
    for rj in rejects:
        tid = rj["id"] or "?"
        shape_name = tid.split("/")[0]
        files = {"trace.ndjson": "\n".join(json.dumps(e) for e in rj["trace"]) + "\n",
                 "offending.json": {"line": rj["line"], "event": rj["event"]},
                 "README": "Replay: python3 tools/verif.py check C06 --replay <this dir>\n"}
        if shape_name in bundles:
            cfgp, sp, ep = bundles[shape_name]
            files["config.json"] = open(cfgp).read()
            # keep only the offending script / edge
            rest = tid.split("/", 2)[-1]
            if rest.startswith("edge"):
                n = int(rest[4:])
                nedges = sum(1 for _ in open(ep))
                idx = (n - 1) % nedges
                files["edges.ndjson"] = open(ep).readlines()[idx]
            else:
                for line in open(sp):
                    if json.loads(line)["id"] == rest:
                        files["scripts.ndjson"] = line
        else:
            files["config.json"] = json.dumps({"random": True, "seed": sd})
        path = vlib.save_replay(pid, "s%d_%d" % (sd, violations), files)
        violations += 1
        print("VIOLATION property=%s replay=%s" % (pid, path))
        log("  rejected trace %s at line %d: %s" % (tid, rj["line"], json.dumps(rj["event"])[:400]))
    for dft in drift:
        log("DRIFT property=%s %s" % (pid, json.dumps(dft)[:600]))
    cov.update({
        "states": tot_states, "transitions": tot_trans,
        "traces_validated_against_impl": n_traces,
        "trace_events_validated": n_events,
        "trace_validator_states": vstates,
        "edges_replayed_on_real_code": total_edges,
        "scripts_replayed_on_real_code": total_scripts,
        "steps_executed_on_real_code": total_steps + rsum["steps"],
        "random_runs": rsum["scripts"], "random_outcomes": rsum["outcomes"],
        "evaluations": total_edges + total_scripts + rsum["scripts"],
        "exhaustive": True,
        "rule": "every transition of the bounded design state graphs (3 keys, 3 blocks x 2 offsets, <=%d ops) replayed on both record arrays; "
                "simulated 12-op scripts; mutant killer scripts; random real-hash runs; all deviating + sampled traces validated against IndexContract" % maxops,
        "samples": samples,
        "drift": drift,
    })
    vlib.write_evidence(pid, tier, "model_checking", cov, time.time() - t0, violations,
                        ["model keys are mapped to real 32-byte keys whose FNV hash realises the model's slot function",
                         "accidental FNV-64 record checksum collisions are not modelled",
                         "the BlockReferenceResolver is the harness's (blocks below `released` invalid)"])
    return 1 if violations else 0
