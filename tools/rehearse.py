#!/usr/bin/env python3
"""Development tool: mutation rehearsal.

Applies source mutations (or patch files) to a scratch worktree of /repo, runs
the registered check of a property from a scratch copy of /verif against that
worktree (VERIF_REPO) and reports whether the check raised a VIOLATION.
Nothing is written to /repo or /verif.

usage: rehearse.py <mutants.json> [name ...]
  mutants.json: list of {"name", "property", "file", "old", "new"} or {"name", "property", "patch": <path>}
                optional "expect": "violation" (default) | "quiet"
"""
import json, os, shutil, subprocess, sys, time

VERIF = os.path.dirname(os.path.dirname(os.path.abspath(__file__)))


def sh(cmd, **kw):
    return subprocess.run(cmd, shell=True, stdout=subprocess.PIPE, stderr=subprocess.STDOUT, text=True, **kw)


def main():
    muts = json.load(open(sys.argv[1]))
    only = set(sys.argv[2:])
    base = "/tmp/rehearse-%d" % os.getpid()
    repo = os.path.join(base, "repo")
    verif = os.path.join(base, "verif")
    os.makedirs(base)
    try:
        print(sh("git -C /repo worktree add --detach %s HEAD" % repo).stdout[-200:])
        shutil.copytree(VERIF, verif, ignore=shutil.ignore_patterns(".git", "replays", "bin"))
        results = []
        for m in muts:
            if only and m["name"] not in only:
                continue
            sh("git -C %s checkout -- . && git -C %s clean -fdq" % (repo, repo))
            if "patch" in m:
                r = sh("git -C %s apply %s" % (repo, m["patch"]))
                if r.returncode != 0:
                    print("patch failed", m["name"], r.stdout)
                    continue
            else:
                p = os.path.join(repo, m["file"])
                s = open(p).read()
                if s.count(m["old"]) < 1:
                    print("mutation site not found:", m["name"])
                    continue
                s = s.replace(m["old"], m["new"], 1)
                open(p, "w").write(s)
            b = sh("cd %s && GOFLAGS=-mod=mod GOPROXY=off go build ./pkg/... 2>&1 | tail -5" % repo)
            if b.stdout.strip():
                print("mutant does not build:", m["name"], b.stdout)
                continue
            t0 = time.time()
            env = dict(os.environ, VERIF_REPO=repo, VERIF_SEED=os.environ.get("VERIF_SEED", "1"))
            props = m["property"] if isinstance(m["property"], list) else [m["property"]]
            for prop in props:
                if prop.startswith("extra:"):
                    r = sh("cd %s && python3 tools/verif.py extra %s --tier %s" % (verif, prop[6:], m.get("tier", "quick")), env=env)
                else:
                    r = sh("cd %s && python3 tools/verif.py check %s --tier %s" % (verif, prop, m.get("tier", "quick")), env=env)
                viol = [l for l in r.stdout.splitlines() if l.startswith("VIOLATION")]
                status = "VIOLATION" if viol else ("BROKEN" if r.returncode == 2 else "quiet")
                expect = m.get("expect", "violation")
                ok = (status == "VIOLATION") == (expect == "violation") and status != "BROKEN"
                print("%-40s %-4s -> %-9s rc=%d %5.0fs %s" % (m["name"], prop, status, r.returncode, time.time() - t0, "ok" if ok else "UNEXPECTED"))
                if not ok:
                    print("\n".join(r.stdout.splitlines()[-12:])[:3000])
                results.append({"name": m["name"], "property": prop, "status": status, "ok": ok})
                sys.stdout.flush()
        json.dump(results, open(os.path.join(VERIF, "gen", "rehearsal_last.json"), "w"), indent=1)
    finally:
        sh("git -C /repo worktree remove --force %s" % repo)
        shutil.rmtree(base, ignore_errors=True)


if __name__ == "__main__":
    main()
