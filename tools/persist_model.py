"""TLC runs of the persistence design specifications (Syncer.tla, CrashEpochs.tla)."""
import json, os
import vlib
from vlib import Broken

SYNCER_MUTANTS = {"block_unconditional": "safety", "unblock_no_guard": "safety", "pop_rearm_wrong": "safety",
                  "timer_zero": "safety", "no_state_retry": "liveness"}
CRASH_MUTANTS = ["no_epoch_after_sync", "expose_all_epochs", "no_data_sync", "release_at_pop", "release_all", "constant_seed"]


def syncer_cfg(mut="none", live=False, fin=3, push=2, pop=2, fail=2, shut=True, interval=2):
    s = "SPECIFICATION %s\n" % ("FairSpec" if live else "Spec")
    s += 'CONSTANTS\n Interval = %d\n Retry = 1\n MaxFinalize = %d\n MaxPush = %d\n MaxPop = %d\n MaxFail = %d\n AllowShutdown = %s\n Mut = "%s"\n' % (
        interval, fin, push, pop, fail, "TRUE" if shut else "FALSE", mut)
    s += "INVARIANTS NoPanic MinInterval NoLostPutWakeup NoLostRelWakeup NoStaleWait Counters\n"
    if live:
        s += "PROPERTIES Progress\n"
    return s


def crash_cfg(mut="none", ups=2, regs=3, blocks=4, syncs=2, crashes=1):
    return ('INIT Init\nNEXT Next\nCONSTANTS\n Uploads = {%s}\n NumRegions = %d\n MaxBlocks = %d\n MaxSyncs = %d\n MaxCrashes = %d\n Mut = "%s"\n'
            'INVARIANTS CrashSafe LiveSafe ListedNotFreeStrict CommitDurable Counters\n') % (
        ",".join('"u%d"' % i for i in range(1, ups + 1)), regs, blocks, syncs, crashes, mut)


def mutant_report(regenerate=False):
    path = os.path.join(vlib.VERIF, "gen", "killers", "persist.json")
    if os.path.exists(path) and not regenerate:
        return json.load(open(path))
    out = {}
    for m, kind in SYNCER_MUTANTS.items():
        r = vlib.run_tlc("Syncer", syncer_cfg(m, live=(kind == "liveness"), fin=2, push=1, pop=1, fail=1), timeout=900)
        out["Syncer/" + m] = r.violated or ("NOT KILLED" if r.ok else "error: %s" % r.error)
    for m in CRASH_MUTANTS:
        r = vlib.run_tlc("CrashEpochs", crash_cfg(m, crashes=2 if m == "constant_seed" else 1, blocks=3 if m == "constant_seed" else 4), timeout=1500)
        out["CrashEpochs/" + m] = r.violated or ("NOT KILLED" if r.ok else "error: %s" % r.error)
    bad = [k for k, v in out.items() if v == "NOT KILLED" or str(v).startswith("error")]
    if bad:
        raise Broken("persistence design mutants not killed: %s" % {k: out[k] for k in bad})
    os.makedirs(os.path.dirname(path), exist_ok=True)
    json.dump(out, open(path, "w"), indent=1)
    return out


def check(pid, tier):
    quick = tier == "quick"
    details = {"mutants_killed": mutant_report()}
    states = trans = 0
    if pid == "C07":
        cfgs = [dict(fin=2, push=2, pop=2, fail=1)] if quick else [dict(fin=3, push=2, pop=2, fail=2), dict(fin=3, push=2, pop=2, fail=2, interval=3)]
        for c in cfgs:
            r = vlib.run_tlc("Syncer", syncer_cfg(**c), timeout=3000)
            vlib.require_model_ok(r, "Syncer safety %s" % c)
            states += r.distinct
            trans += r.generated
            details.setdefault("syncer_safety", []).append({"constants": c, "distinct_states": r.distinct, "transitions": r.generated, "depth": r.depth})
        lc = dict(fin=2, push=1, pop=1, fail=1) if quick else dict(fin=3, push=2, pop=2, fail=2)
        r = vlib.run_tlc("Syncer", syncer_cfg(live=True, **lc), timeout=3400)
        vlib.require_model_ok(r, "Syncer liveness %s" % lc)
        states += r.distinct
        trans += r.generated
        details["syncer_liveness"] = {"constants": lc, "distinct_states": r.distinct, "transitions": r.generated,
                                      "property": "<>[](every epoch covered by a durable state file /\\ nothing awaiting release) under WF of both loops and of time"}
    else:
        cfgs = [dict(ups=2, regs=3, blocks=3, syncs=1, crashes=2)] if quick else \
            [dict(ups=2, regs=3, blocks=4, syncs=2, crashes=1), dict(ups=2, regs=3, blocks=3, syncs=2, crashes=2), dict(ups=3, regs=3, blocks=3, syncs=1, crashes=1)]
        details["crash_epochs"] = []
        for c in cfgs:
            r = vlib.run_tlc("CrashEpochs", crash_cfg(**c), timeout=3400)
            vlib.require_model_ok(r, "CrashEpochs %s" % c)
            states += r.distinct
            trans += r.generated
            details["crash_epochs"].append({"constants": c, "distinct_states": r.distinct, "transitions": r.generated, "depth": r.depth,
                                            "invariants": ["CrashSafe", "LiveSafe", "ListedNotFreeStrict", "CommitDurable", "Counters"]})
    return states, trans, details
