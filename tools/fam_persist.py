"""C02 / C03 / C07: persistence (PersistentBlockList + PeriodicSyncer + state store
+ block-device allocator and record array over simulated media).

(M) Persist.tla: code-shaped model of the persistent block list, both syncer
    loops, the media journals, crash and recovery; TLC checks crash safety,
    durability of commits, wake-up safety and liveness.
(R/V) seeded workloads on the assembled real persistent store under the
    cooperative scheduler: a crash at every I/O operation with several
    admissible post-crash media each (C02), graceful shutdown / process crash at
    every scheduler step (C03), crash-free runs with injected sync / state
    write failures driven to quiescence with a virtual clock (C07); every trace
    validated by TLC against StoreContractTrace.tla (clause = property)."""
import json, os, random, time
import vlib
from vlib import Broken, log

MODE = {"C02": "machine", "C03": "shutdown", "C07": "live"}


def clause_cfg(pid):
    return 'SPECIFICATION TSpec\nPOSTCONDITION Accepted\nCHECK_DEADLOCK FALSE\nCONSTANT Clause = "%s"\n' % pid


def model_check(pid, tier):
    """Returns (states, transitions, details)."""
    import persist_model
    return persist_model.check(pid, tier)


def check(pid, tier, replay=None):
    t0 = time.time()
    sd = vlib.seed()
    binary = vlib.go_build_test("store")
    work = vlib.scratch("persist")
    quick = tier == "quick"
    env = {"STORE_OUT": work, "VERIF_SEED": sd, "CRASH_MODE": MODE[pid]}
    if replay:
        meta = json.load(open(os.path.join(replay, "meta.json")))
        env.update({"VERIF_SEED": meta["seed"], "CRASH_WORKLOADS": meta["workloads"], "CRASH_MASKS": meta["masks"],
                    "CRASH_ONLY": meta["id"]})
        rc, out = vlib.run_harness(binary, "TestCrash", env, timeout=3000)
        if rc != 0:
            raise Broken("replay harness failed:\n" + out[-2000:])
        _, _, rej, _ = vlib.validate_traces("StoreContractTrace", os.path.join(work, "traces.ndjson"), cfg=clause_cfg(pid))
        print(("VIOLATION property=%s replay=%s" % (pid, replay)) if rej else "replay: contract accepts")
        return 1 if rej else 0
    if pid == "C02":
        wl, masks = (3, 5) if quick else (6, 8)
    elif pid == "C03":
        wl, masks = (5, 1) if quick else (15, 1)
    else:
        wl, masks = (60, 1) if quick else (1500, 1)
    env.update({"CRASH_WORKLOADS": wl, "CRASH_MASKS": masks})
    states, trans, mdetails = model_check(pid, tier)
    rc, out = vlib.run_harness(binary, "TestCrash", env, timeout=3400)
    if rc != 0:
        raise Broken("crash harness failed:\n" + out[-3000:])
    summ = json.load(open(os.path.join(work, "summary.json")))
    tp = os.path.join(work, "traces.ndjson")
    n_traces, n_events, rejects, vstates = vlib.validate_traces("StoreContractTrace", tp, cfg=clause_cfg(pid), timeout=3000)
    violations = 0
    for rj in rejects:
        files = {"trace.ndjson": "\n".join(json.dumps(e) for e in rj["trace"]) + "\n",
                 "offending.json": {"line": rj["line"], "event": rj["event"], "clause": pid},
                 "meta.json": {"seed": sd, "workloads": wl, "masks": masks, "id": rj["id"], "mode": MODE[pid]}}
        path = vlib.save_replay(pid, "s%d_%d" % (sd, violations), files)
        violations += 1
        print("VIOLATION property=%s replay=%s" % (pid, path))
        log("  rejected trace %s at line %d: %s" % (rj["id"], rj["line"], json.dumps(rj["event"])[:300]))
    sample = []
    with open(tp) as fh:
        for i, line in enumerate(fh):
            if i > 400:
                break
            e = json.loads(line)
            if e.get("ev") in ("Reset", "Crash", "CrashPoint", "PutEnd", "GetEnd", "SyncStarting", "StateWritten", "Shutdown", "QuiescePersistent"):
                sample.append({k: v for k, v in e.items() if k not in ("seq",)})
    cov = {"states": states, "transitions": trans, "model": mdetails,
           "traces_validated_against_impl": n_traces, "trace_events_validated": n_events, "trace_validator_states": vstates,
           "harness": summ, "mode": MODE[pid], "clause": pid,
           "samples": [sample[:40]]}
    vlib.write_evidence(pid, tier, "model_checking", cov, time.time() - t0, violations,
                        ["simulated media: block devices lose any subset of sector writes issued since the last completed Sync (index device: never synced, any subset of record writes); directory: ordered metadata journal, un-fsynced file contents kept or lost",
                         "crash = the n-th device/directory call and everything after it has no effect",
                         "epoch hash seeds come from a deterministic generator; accidental checksum collisions are not modelled",
                         "schedules are seeded random cooperative schedules (2 clients + 2 syncer loops), not exhaustive on the real code"])
    return 1 if violations else 0
