#!/bin/bash
# Development tool: confirm a sub-agent's seeded change in a fresh scratch worktree and, if it holds up, keep it under /verif/seeded/<name>/.
# usage: confirm_seed.sh <agent worktree> <name>     (e.g. /tmp/seed/C01 C01-a)
set -u
SRC=$1; NAME=$2
W=/tmp/confirm-$NAME
export GOFLAGS=-mod=mod GOPROXY=off
git -C /repo worktree add --detach $W HEAD -q || exit 2
trap "git -C /repo worktree remove --force $W; rm -rf $W" EXIT
cp -r $SRC/zz_demo $W/zz_demo
cd $W
echo "== demo without the patch (must pass)"
go test -count=1 ./zz_demo/ > /tmp/confirm-$NAME.before 2>&1; B=$?; tail -3 /tmp/confirm-$NAME.before
echo "== apply"
git apply zz_demo/patch.diff || { echo "PATCH DOES NOT APPLY"; exit 1; }
git diff --stat -- pkg cmd | tail -3
echo "== build"
go build ./pkg/... && go build -tags verif ./pkg/... || { echo "DOES NOT BUILD"; exit 1; }
echo "== baseline tests"
go test -vet=off -count=1 ./pkg/blockdevice/... ./pkg/eviction/... ./pkg/random/... ./pkg/zstd/... 2>&1 | tail -5
T=${PIPESTATUS[0]}
go test -vet=off -count=1 ./pkg/filesystem/ 2>&1 | grep -c "^--- FAIL" | sed 's/^/filesystem failing tests (2 expected as root): /'
echo "== demo with the patch (must fail)"
go test -count=1 ./zz_demo/ > /tmp/confirm-$NAME.after 2>&1; A=$?; tail -6 /tmp/confirm-$NAME.after
if [ $B -eq 0 ] && [ $A -ne 0 ] && [ $T -eq 0 ]; then
  D=/verif/seeded/$NAME; mkdir -p $D/demo
  cp zz_demo/patch.diff $D/patch.diff; cp zz_demo/meta.json $D/meta.json 2>/dev/null
  cp zz_demo/*_test.go $D/demo/ 2>/dev/null; cp zz_demo/*.go $D/demo/ 2>/dev/null
  tail -15 /tmp/confirm-$NAME.after > $D/demo/output_with_patch.txt
  echo "CONFIRMED -> $D"
else
  echo "NOT CONFIRMED before=$B after=$A tests=$T"
fi
