"""Common machinery: TLC runner, Go harness runner, evidence, verdicts.

Exit codes of checks: 0 = property held on everything explored, 1 = VIOLATION
(contract rejected an execution of the real code), 2 = BROKEN (tooling problem;
never a verdict).
"""
import json, os, re, shutil, subprocess, sys, tempfile, time, glob, hashlib

VERIF = os.path.dirname(os.path.dirname(os.path.abspath(__file__)))
REPO = os.environ.get("VERIF_REPO", "/repo")
SPEC = os.path.join(VERIF, "spec")
HARNESS = os.path.join(VERIF, "harness")
EVID = os.path.join(VERIF, "evidence")
BIN = os.path.join(HARNESS, "bin")
NCPU = os.cpu_count() or 4


class Broken(Exception):
    pass


def log(*a):
    print(*a, file=sys.stderr, flush=True)


def seed():
    try:
        return int(os.environ.get("VERIF_SEED", "1"))
    except ValueError:
        return 1


# ----------------------------------------------------------------------------
# scratch directories (removed on exit)
_scratch = []


def scratch(prefix="verif"):
    d = tempfile.mkdtemp(prefix=prefix + "-")
    _scratch.append(d)
    return d


def cleanup():
    if os.environ.get("VERIF_KEEP"):
        log("keeping scratch directories: %s" % _scratch)
        return
    for d in _scratch:
        shutil.rmtree(d, ignore_errors=True)
    _scratch.clear()


# ----------------------------------------------------------------------------
# TLC

class TLCResult:
    def __init__(self):
        self.generated = 0
        self.distinct = 0
        self.depth = 0
        self.ok = False           # finished without error
        self.violated = None      # name of violated invariant/property
        self.error = None         # other error text
        self.lines = {}           # marker -> list of json strings
        self.stdout = ""
        self.wall = 0.0
        self.trace = None         # counterexample (list of states) if dumped
        self.coverage = {}


_unq = re.compile(r'^<<"([A-Z]+)", (.*)>>$')


def _unquote_tla_string(s):
    # TLC prints strings with \" and \\ escapes
    assert s[0] == '"' and s[-1] == '"', s[:40]
    out = []
    i = 1
    n = len(s) - 1
    while i < n:
        c = s[i]
        if c == '\\' and i + 1 < n:
            d = s[i + 1]
            out.append({'n': '\n', 't': '\t', 'r': '\r', 'f': '\f'}.get(d, d))
            i += 2
        else:
            out.append(c)
            i += 1
    return ''.join(out)


def run_tlc(module, cfg, *, extra=None, mode="check", workers=None, timeout=600,
            sim_num=None, sim_depth=None, sim_seed=None, markers=("EDGE", "SCRIPT", "CASE"),
            dump_trace=False, extra_files=None, java_opts=None, marker_sink=None,
            coverage=False, deadlock=False, dfid=None, raw_sink=None):
    """Run TLC on spec/<module>.tla with an MC wrapper.

    cfg: text of the .cfg file; extra: text appended to the MC module body
    (definitions for constant overrides).  Marker lines printed with
    PrintT(<<"MARK", ToJson(..)>>) are collected (decoded JSON) into
    result.lines[MARK] or streamed to marker_sink(mark, obj).
    """
    d = scratch("tlc")
    for f in glob.glob(os.path.join(SPEC, "*.tla")):
        shutil.copy(f, d)
    for name, text in (extra_files or {}).items():
        with open(os.path.join(d, name), "w") as fh:
            fh.write(text)
    mc = "MC_" + module
    with open(os.path.join(d, mc + ".tla"), "w") as fh:
        fh.write("---- MODULE %s ----\nEXTENDS %s\n%s\n====\n" % (mc, module, extra or ""))
    with open(os.path.join(d, mc + ".cfg"), "w") as fh:
        fh.write(cfg)
    workers = workers or NCPU
    cmd = ["tlc", "-metadir", os.path.join(d, "md"), "-workers", str(workers)]
    if not deadlock:
        cmd += ["-deadlock"]
    if mode == "simulate":
        spec = "num=%d" % (sim_num or 100)
        cmd += ["-simulate", spec, "-depth", str(sim_depth or 50)]
        if sim_seed is not None:
            cmd += ["-seed", str(sim_seed)]
    if dfid is not None:
        cmd += ["-dfid", str(dfid)]
    if dump_trace:
        cmd += ["-dumpTrace", "json", os.path.join(d, "cex.json")]
    if coverage:
        cmd += ["-coverage", "1"]
    cmd += ["-config", mc + ".cfg", mc + ".tla"]
    env = dict(os.environ)
    jo = "-Xss64m " + (java_opts or "")
    env["JAVA_TOOL_OPTIONS"] = (env.get("JAVA_TOOL_OPTIONS", "") + " " + jo).strip()
    res = TLCResult()
    t0 = time.time()
    outpath = os.path.join(d, "tlc.out")
    with open(outpath, "w") as out:
        try:
            p = subprocess.run(cmd, cwd=d, stdout=out, stderr=subprocess.STDOUT,
                               timeout=timeout, env=env)
            rc = p.returncode
        except subprocess.TimeoutExpired:
            subprocess.run(["pkill", "-f", d], check=False)
            res.error = "timeout after %ds" % timeout
            rc = -1
    res.wall = time.time() - t0
    keep = []
    with open(outpath, errors="replace") as fh:
        for line in fh:
            line = line.rstrip("\n")
            m = _unq.match(line) if line.startswith('<<"') else None
            if m and m.group(1) in markers:
                try:
                    raw = json.loads(m.group(2))   # TLC's string escapes are JSON compatible
                    if raw_sink:
                        raw_sink(m.group(1), raw)
                        continue
                    obj = json.loads(raw)
                except Exception as e:  # malformed (interleaved) line
                    keep.append(line)
                    continue
                if marker_sink:
                    marker_sink(m.group(1), obj)
                else:
                    res.lines.setdefault(m.group(1), []).append(obj)
                continue
            if len(keep) < 4000:
                keep.append(line)
    res.stdout = "\n".join(keep)
    m = re.search(r"(\d+) states generated, (\d+) distinct states found", res.stdout)
    if m:
        res.generated, res.distinct = int(m.group(1)), int(m.group(2))
    m = re.search(r"The depth of the complete state graph search is (\d+)", res.stdout)
    if m:
        res.depth = int(m.group(1))
    m = re.search(r"Error: Invariant (\S+) is violated", res.stdout)
    if m:
        res.violated = m.group(1)
    m2 = re.search(r"Error: Action property (\S+) is violated", res.stdout)
    if m2:
        res.violated = m2.group(1)
    m3 = re.search(r"Temporal property (\S+) was violated", res.stdout)
    if m3:
        res.violated = res.violated or m3.group(1)
    if "Temporal properties were violated" in res.stdout:
        res.violated = res.violated or "temporal"
    if "Error: Deadlock reached" in res.stdout:
        res.violated = res.violated or "deadlock"
    if mode == "simulate":
        # simulation never "completes"; it stops after num traces
        fin = re.search(r"(\d+) states checked", res.stdout)
        if fin and not res.generated:
            res.generated = int(fin.group(1))
        res.ok = (rc == 0) and res.violated is None and res.error is None
    else:
        res.ok = ("Model checking completed. No error has been found." in res.stdout) and rc == 0
    if not res.ok and res.violated is None and res.error is None:
        errs = [l for l in keep if "Error" in l or "error" in l]
        res.error = "; ".join(errs[:6]) or ("tlc exit %d" % rc)
    if dump_trace and os.path.exists(os.path.join(d, "cex.json")):
        try:
            res.trace = json.load(open(os.path.join(d, "cex.json")))
        except Exception:
            res.trace = None
    if coverage:
        for m in re.finditer(r"<(\w+) line (\d+), col \d+ to line \d+, col \d+ of module (\w+)>: (\d+):(\d+)", res.stdout):
            res.coverage[m.group(1)] = res.coverage.get(m.group(1), 0) + int(m.group(5))
    res.dir = d
    return res


def cex_states(r):
    """States (dicts var -> value) of a dumped counterexample."""
    t = r.trace
    if not t:
        return []
    if isinstance(t, dict) and "counterexample" in t:
        t = t["counterexample"]
    st = t["state"] if isinstance(t, dict) else t
    return [x[1] if isinstance(x, list) else x for x in st]


def require_model_ok(r, what):
    if not r.ok:
        raise Broken("TLC %s failed: violated=%s error=%s\n%s" % (what, r.violated, r.error, r.stdout[-3000:]))


# ----------------------------------------------------------------------------
# Go harness

GOENV = {"GOFLAGS": "-mod=mod", "GOPROXY": "off"}


def go_env():
    env = dict(os.environ)
    env.update(GOENV)
    env.pop("GOTOOLCHAIN", None) if env.get("GOTOOLCHAIN") == "local" else None
    env.pop("GOSUMDB", None) if env.get("GOSUMDB") == "off" else None
    return env


def sync_gomod():
    """Regenerate harness/go.mod + go.sum from /repo's (so the harness always
    builds against the current working tree's dependency set)."""
    src = open(os.path.join(REPO, "go.mod")).read()
    i = src.index("require (")
    head = src[:i]
    head = re.sub(r"^module .*$", "module verif/harness", head, flags=re.M)
    body = src[i:].replace("require (", "require (\n\tgithub.com/buildbarn/bb-storage v0.0.0-00010101000000-000000000000\n\tpgregory.net/rapid v1.3.0", 1)
    text = head + body + "\nreplace github.com/buildbarn/bb-storage => %s\n" % REPO
    p = os.path.join(HARNESS, "go.mod")
    if not os.path.exists(p) or open(p).read() != text:
        open(p, "w").write(text)
    sums = open(os.path.join(REPO, "go.sum")).read()
    extra = os.path.join(HARNESS, "go.sum.extra")
    if os.path.exists(extra):
        sums += open(extra).read()
    ps = os.path.join(HARNESS, "go.sum")
    if not os.path.exists(ps) or open(ps).read() != sums:
        open(ps, "w").write(sums)


def go_build_test(pkg, tags="verif", timeout=1500):
    """Compile harness/<pkg> test binary against /repo's working tree."""
    sync_gomod()
    os.makedirs(BIN, exist_ok=True)
    out = os.path.join(BIN, pkg.replace("/", "_") + ".test")
    cmd = ["go", "test", "-c", "-tags", tags, "-o", out, "./" + pkg]
    t0 = time.time()
    p = subprocess.run(cmd, cwd=HARNESS, env=go_env(), stdout=subprocess.PIPE,
                       stderr=subprocess.STDOUT, text=True, timeout=timeout)
    if p.returncode != 0:
        raise Broken("go build of harness/%s failed:\n%s" % (pkg, p.stdout[-4000:]))
    log("built %s in %.1fs" % (pkg, time.time() - t0))
    return out


def run_harness(binary, test, env=None, timeout=1200, args=()):
    """Run one harness test function; returns (rc, output)."""
    e = go_env()
    e.update({k: str(v) for k, v in (env or {}).items()})
    cmd = [binary, "-test.run", "^" + test + "$", "-test.timeout", "%ds" % timeout, "-test.count", "1"] + list(args)
    try:
        p = subprocess.run(cmd, cwd=HARNESS, env=e, stdout=subprocess.PIPE,
                           stderr=subprocess.STDOUT, text=True, timeout=timeout + 30)
    except subprocess.TimeoutExpired:
        raise Broken("harness %s %s timed out" % (binary, test))
    return p.returncode, p.stdout


# ----------------------------------------------------------------------------
# evidence / verdict

def load_known_findings():
    p = os.path.join(VERIF, "KNOWN_FINDINGS.jsonl")
    out = []
    if os.path.exists(p):
        for line in open(p):
            line = line.strip()
            if line and not line.startswith("#") and not line.startswith("fixed:"):
                out.append(json.loads(line))
    return out


def write_evidence(pid, tier, level, coverage, wall, violations, assumptions):
    os.makedirs(EVID, exist_ok=True)
    ev = {
        "property_id": pid,
        "tier": tier,
        "seed": seed(),
        "level": level,
        "coverage": coverage,
        "assumptions": assumptions,
        "wall_s": round(wall, 2),
        "violations": violations,
    }
    tmp = os.path.join(EVID, pid + ".json.tmp")
    with open(tmp, "w") as fh:
        json.dump(ev, fh, indent=1, sort_keys=True, default=str)
    os.replace(tmp, os.path.join(EVID, pid + ".json"))
    if tier == "thorough" and not os.environ.get("VERIF_REPO"):
        # keep a record of what the deep tier covered (evidence/<id>.json is rewritten by every run)
        d = os.path.join(VERIF, "gen", "thorough")
        os.makedirs(d, exist_ok=True)
        with open(os.path.join(d, pid + ".json"), "w") as fh:
            json.dump(ev, fh, indent=1, sort_keys=True, default=str)


def save_replay(pid, name, files):
    """Store a replay bundle under evidence/replays/<pid>/<name>/ and return its path."""
    d = os.path.join(EVID, "replays", pid, name)
    os.makedirs(d, exist_ok=True)
    for fn, content in files.items():
        with open(os.path.join(d, fn), "w") as fh:
            if isinstance(content, (dict, list)):
                json.dump(content, fh, indent=1)
            else:
                fh.write(content)
    return d


def replay_observation(pid, module, replay, cfg=None):
    """Families whose replay bundles hold one recorded observation (observation.json): judge it again with the
    contract monitor.  (Re-executing the real code for such a case = re-running the check with the same VERIF_SEED;
    the observation embeds the generated case.)"""
    obs = json.load(open(os.path.join(replay, "observation.json")))
    d = scratch("replay")
    write_ndjson(os.path.join(d, "trace.ndjson"), [obs])
    r = run_tlc(module, cfg or "SPECIFICATION TSpec\nPOSTCONDITION Accepted\nCHECK_DEADLOCK FALSE\n", workers=1, timeout=600,
                extra_files={"trace.ndjson": open(os.path.join(d, "trace.ndjson")).read()})
    if r.ok:
        print("replay: contract accepts")
        return 0
    if "ostcondition" not in r.stdout and "Accepted" not in r.stdout:
        raise Broken("replay validation failed:\n" + r.stdout[-2000:])
    print("VIOLATION property=%s replay=%s" % (pid, replay))
    return 1


def read_ndjson(path):
    out = []
    with open(path) as fh:
        for line in fh:
            line = line.strip()
            if line:
                out.append(json.loads(line))
    return out


def _strip_nulls(o):
    # TLC's Json module cannot represent null
    if isinstance(o, dict):
        return {k: _strip_nulls(v) for k, v in o.items() if v is not None}
    if isinstance(o, list):
        return [_strip_nulls(v) for v in o if v is not None]
    return o


def write_ndjson(path, objs):
    with open(path, "w") as fh:
        for o in objs:
            fh.write(json.dumps(_strip_nulls(o), separators=(",", ":")) + "\n")


# ----------------------------------------------------------------------------
# trace validation

def validate_traces(module, trace_path, *, cfg=None, max_rejects=8, timeout=900,
                    start_events=("Reset", "Inject"), spec="TSpec", post="Accepted"):
    """Validate a concatenation of traces (each starting with a Reset-like
    event) against spec/<module>.tla.  Returns (n_traces, n_events, rejects,
    states) where rejects is a list of dicts {id, line, event, prefix}.  After a
    rejection the offending trace is removed and validation resumes, so every
    other trace is still checked."""
    events = read_ndjson(trace_path)
    traces = []
    for e in events:
        if e.get("ev") in start_events:
            traces.append([e])
        else:
            if not traces:
                raise Broken("trace file %s does not start with a reset event" % trace_path)
            traces[-1].append(e)
    n_traces, n_events = len(traces), len(events)
    rejects = []
    states = 0
    cfgtext = cfg or ("SPECIFICATION %s\nPOSTCONDITION %s\nCHECK_DEADLOCK FALSE\n" % (spec, post))
    while traces:
        flat = [e for t in traces for e in t]
        d = scratch("trace")
        write_ndjson(os.path.join(d, "trace.ndjson"), flat)
        r = run_tlc(module, cfgtext, workers=1, timeout=timeout,
                    extra_files={"trace.ndjson": open(os.path.join(d, "trace.ndjson")).read()},
                    java_opts="-Dtlc2.tool.queue.IStateQueue=StateDeque")
        states += r.distinct
        if r.ok:
            break
        if r.error and "timeout" in r.error:
            raise Broken("trace validation timed out on %s" % trace_path)
        if "Accepted" not in r.stdout and "Postcondition" not in r.stdout and "ostcondition" not in r.stdout:
            raise Broken("trace validation failed for another reason than rejection:\n" + r.stdout[-3000:])
        # The search is a single chain; its depth - 1 = number of consumed lines.
        consumed = max(r.depth - 1, 0)
        if consumed >= len(flat):
            raise Broken("trace validator inconsistent: consumed %d of %d" % (consumed, len(flat)))
        # locate trace containing line `consumed` (0-based offending line)
        pos = 0
        for ti, t in enumerate(traces):
            if pos + len(t) > consumed:
                rejects.append({"id": t[0].get("id"), "line": consumed - pos, "event": t[consumed - pos], "trace": t})
                # everything before the offending trace was accepted; resume after it
                traces = traces[ti + 1:]
                break
            pos += len(t)
        if len(rejects) >= max_rejects:
            break
    return n_traces, n_events, rejects, states
