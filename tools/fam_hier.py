"""C10: hierarchical CAS visibility.  Design spec HierStore.tla model-checked;
simulated behaviours and mutant killers replayed on the real
hierarchicalCASBlobAccess under the cooperative scheduler; random cooperative
and free-running drivers with prefix-confusable instance names; traces
validated by StoreContractTrace.tla (clause C10)."""
import json, os, random, time
import vlib, fam_store
from vlib import Broken, log

NAMES = ["", "x", "x/y", "xy"]
ANC = {"": [""], "x": ["", "x"], "x/y": ["", "x", "x/y"], "xy": ["", "xy"]}
DIGESTS = {"a": (1, 1), "b": (2, 2)}
GATES = ["hier.Get.upgrade", "hier.FindMissing.refresh"]
# refresh_most_specific (the refresh re-registers the reader's own name instead of the entry that was found) only narrows
# visibility: it is not a C10 violation and therefore not in this list
MUTANTS = ["refresh_root", "grant_without_validation", "grant_at_alloc"]


def q(xs):
    return ",".join('"%s"' % x for x in xs)


def mc_extra(geo):
    ds = " [] ".join('d = "%s" -> %d' % (k, v[1]) for k, v in DIGESTS.items())
    an = " [] ".join('n = "%s" -> <<%s>>' % (n, q(a)) for n, a in ANC.items())
    return "MCDSize(d) == CASE %s\nMCAncestors(n) == CASE %s\nMCSpare == %d\n" % (ds, an, geo["spare"])


def model_cfg(geo, *, clients, maxops, mut="none", kinds=("Put", "BadPut", "Get", "Fm"), props=True, view=True, constraint=None, names=NAMES):
    s = "INIT Init\nNEXT Next\n" + ("VIEW View\n" if view else "")
    s += "CONSTANTS\n BlockSize = %d\n DesOld = %d\n DesCur = %d\n DesNew = %d\n Spare <- MCSpare\n Policy = \"%s\"\n" % (
        geo["bs"], geo["old"], geo["cur"], geo["new"], geo["policy"])
    s += " Clients = {%s}\n Digests = {%s}\n Names = {%s}\n MaxOps = %d\n Mut = \"%s\"\n OpKinds = {%s}\n DSize <- MCDSize\n Ancestors <- MCAncestors\n" % (
        q(clients), q(DIGESTS), q(names), maxops, mut, q(kinds))
    if props:
        s += "INVARIANTS NoWidening EntriesIntact C04Quiescent\nPROPERTIES PropVisibility\n"
    if constraint:
        s += "CONSTRAINT %s\n" % constraint
    return s


GEOS = [dict(name="o1c1n1", bs=2, old=1, cur=1, new=1, spare=1, policy="immutable"),
        dict(name="o1c0n1", bs=2, old=1, cur=0, new=1, spare=0, policy="immutable"),
        dict(name="o1c1n1mem", bs=2, old=1, cur=1, new=1, spare=-1, policy="immutable")]


def hcfg(geo, alloc, index, unit, sector):
    return dict(access="hier", alloc=alloc, index=index, policy=geo["policy"], factory="cas", old=geo["old"], cur=geo["cur"], new=geo["new"],
                spare=max(geo["spare"], 0), sector=sector, blockSectors=geo["bs"] * unit // sector, indexSlots=61, maxGet=8, maxPut=16, unit=unit)


def to_script(hist, sid, hc):
    unit = hc["unit"]
    steps = []
    for h in hist:
        st = h["step"]
        o = {"do": st["do"], "hasExp": True,
             "exp": [{"p": e["p"], "op": e["op"], "k": e["k"], "res": e["res"], "what": e["what"]} for e in h["exp"]]}
        if st["do"] == "start":
            o.update(p=st["p"], op=st["op"], k=st["k"], inst=st["inst"])
            if st["op"] == "Put":
                o["bad"] = st.get("bad", "")
            if st["op"] == "Get":
                o["hold"] = True
            if st["op"] == "Fm":
                o["ks"] = list(st["ks"])
        else:
            o.update(l=st["l"], n=st["n"])
        steps.append(o)
    cfg = {k: v for k, v in hc.items() if k != "unit"}
    keys = {k: {"cid": cid, "size": sz * unit} for k, (cid, sz) in DIGESTS.items()}
    return {"id": sid, "cfg": cfg, "keys": keys, "steps": steps, "gates": GATES}


def killers(regenerate=False):
    path = os.path.join(vlib.VERIF, "gen", "killers", "hier.json")
    if os.path.exists(path) and not regenerate:
        return json.load(open(path))
    out = []
    for mut in MUTANTS:
        r = vlib.run_tlc("HierStore", model_cfg(GEOS[0], clients=["c1", "c2"], maxops=5, mut=mut, props=False) + "PROPERTIES PropVisibility\n",
                         extra=mc_extra(GEOS[0]), dump_trace=True, timeout=1500)
        st = vlib.cex_states(r)
        if not (r.violated and st):
            raise Broken("hier design mutant %s not killed by the observable property (%s %s)" % (mut, r.ok, r.error))
        out.append({"mutant": mut, "violates": r.violated, "hist": st[-1]["hist"]})
    os.makedirs(os.path.dirname(path), exist_ok=True)
    json.dump(out, open(path, "w"), indent=1)
    return out


def check(pid, tier, replay=None):
    t0 = time.time()
    sd = vlib.seed()
    binary = vlib.go_build_test("store")
    work = vlib.scratch("hier")
    quick = tier == "quick"
    clause = fam_store.clause_cfg(pid)
    if replay:
        rc, out = vlib.run_harness(binary, "TestScripts", {"STORE_SCRIPTS": os.path.join(replay, "script.ndjson"), "STORE_OUT": work})
        if rc != 0:
            raise Broken("replay harness failed:\n" + out[-2000:])
        _, _, rej, _ = vlib.validate_traces("StoreContractTrace", os.path.join(work, "traces.ndjson"), cfg=clause)
        print(("VIOLATION property=%s replay=%s" % (pid, replay)) if rej else "replay: contract accepts")
        return 1 if rej else 0
    states = trans = 0
    cov = {"configs": []}
    scripts = []
    for gi, geo in enumerate(GEOS):
        names = NAMES if (gi == 0 or not quick) else ["", "x", "xy"]
        maxops = 3 if quick else 4
        r = vlib.run_tlc("HierStore", model_cfg(geo, clients=["c1", "c2"], maxops=maxops, names=names), extra=mc_extra(geo), timeout=3400)
        vlib.require_model_ok(r, "HierStore " + geo["name"])
        states += r.distinct
        trans += r.generated
        cov["configs"].append({"geometry": geo, "names": names, "max_ops": maxops, "distinct_states": r.distinct, "transitions": r.generated})
        variants = [("mem", "mem", 1, 1)] if geo["spare"] < 0 else [("dev", "mem", 1, 1), ("dev", "dev", 2, 4)]
        for vi, (alloc, index, unit, sector) in enumerate(variants):
            if (geo["bs"] * unit) % sector:
                continue
            hc = hcfg(geo, alloc, index, unit, sector)
            hists = []
            rs = vlib.run_tlc("HierStore", model_cfg(geo, clients=["c1", "c2", "c3"], maxops=9, props=False, view=False, constraint="EmitScript"),
                              extra=mc_extra(geo), mode="simulate", sim_num=80 if quick else 800, sim_depth=40, sim_seed=sd * 31 + gi * 7 + vi,
                              workers=1, marker_sink=lambda m, o: hists.append(o), timeout=900)
            if not rs.ok:
                raise Broken("HierStore simulation failed: %s %s" % (rs.violated, rs.error))
            seen = set()
            for n, h in enumerate(hists):
                k = json.dumps(h, sort_keys=True)
                if k not in seen:
                    seen.add(k)
                    scripts.append(to_script(h, "sim/%s/%s-%s-u%d/%d" % (geo["name"], alloc, index, unit, n), hc))
    for k in killers():
        sc = to_script(k["hist"], "killer/" + k["mutant"], hcfg(GEOS[0], "dev", "mem", 1, 1))
        for st in sc["steps"]:
            st["hasExp"] = False
        scripts.append(sc)
    sp = os.path.join(work, "scripts.ndjson")
    vlib.write_ndjson(sp, scripts)
    rc, out = vlib.run_harness(binary, "TestScripts", {"STORE_SCRIPTS": sp, "STORE_OUT": work, "VERIF_SEED": sd})
    if rc != 0:
        raise Broken("store harness failed:\n" + out[-3000:])
    summ = json.load(open(os.path.join(work, "summary.json")))
    rdir = os.path.join(work, "rand")
    os.makedirs(rdir)
    rc, out = vlib.run_harness(binary, "TestRandom", {"STORE_OUT": rdir, "VERIF_SEED": sd, "STORE_ACCESS": "hier",
                                                       "STORE_RUNS": 200 if quick else 4000, "STORE_OPS": 14,
                                                       "STORE_FREE_RUNS": 20 if quick else 300, "STORE_FREE_OPS": 40 if quick else 200})
    if rc != 0:
        raise Broken("store random harness failed:\n" + out[-3000:])
    rsumm = json.load(open(os.path.join(rdir, "summary.json")))
    n_traces = n_events = vstates = 0
    rejects = []
    for tp in (os.path.join(work, "traces.ndjson"), os.path.join(rdir, "traces.ndjson")):
        nt, ne, rj, vs = vlib.validate_traces("StoreContractTrace", tp, cfg=clause, timeout=1500)
        n_traces += nt
        n_events += ne
        vstates += vs
        rejects += rj
    by_id = {s["id"]: s for s in scripts}
    violations = 0
    for rj in rejects:
        tid = rj["id"] or "?"
        files = {"trace.ndjson": "\n".join(json.dumps(e) for e in rj["trace"]) + "\n",
                 "offending.json": {"line": rj["line"], "event": rj["event"], "clause": pid},
                 "script.ndjson": (json.dumps(by_id[tid]) + "\n") if tid in by_id else ""}
        path = vlib.save_replay(pid, "s%d_%d" % (sd, violations), files)
        violations += 1
        print("VIOLATION property=%s replay=%s" % (pid, path))
        log("  rejected trace %s at line %d: %s" % (tid, rj["line"], json.dumps(rj["event"])[:300]))
    for d in (summ["first_drifts"] or [])[:3]:
        log("DRIFT property=%s %s" % (pid, json.dumps(d)[:500]))
    cov.update({"states": states, "transitions": trans, "traces_validated_against_impl": n_traces, "trace_events_validated": n_events,
                "trace_validator_states": vstates, "scripts_replayed_on_real_code": summ["scripts"],
                "design_conformance": {"completions_compared": summ["completions_compared"], "drifted_scripts": summ["drift_scripts"],
                                       "first_drifts": (summ["first_drifts"] or [])[:3]},
                "script_steps_infeasible": summ["infeasible"], "random_runs": rsumm,
                "mutant_killers": [k["mutant"] + ":" + k["violates"] for k in killers()], "samples": scripts[:1]})
    vlib.write_evidence(pid, tier, "model_checking", cov, time.time() - t0, violations,
                        ["instance names: '', 'x', 'x/y', 'xy' (string- but not component-prefixes included); random drivers add 'x/yz' and 'z'",
                         "eviction is not excused by this check: the converse direction (readable under every covered name absent eviction) is checked in the design only"])
    return 1 if violations else 0
