"""setup: build every harness test binary against /repo (warms the Go build
cache) and generate the mutant killer scripts from the specifications."""
import importlib, os, subprocess, sys
import vlib


def main():
    pkgs = sorted(d for d in os.listdir(vlib.HARNESS)
                  if os.path.isdir(os.path.join(vlib.HARNESS, d)) and
                  any(f.endswith("_test.go") for f in os.listdir(os.path.join(vlib.HARNESS, d))))
    for p in pkgs:
        vlib.go_build_test(p)
    for t in ("tlc", "java"):
        if subprocess.run(["which", t], stdout=subprocess.DEVNULL).returncode != 0:
            print("missing tool", t)
            return 1
    print("setup ok: built", pkgs)
    vlib.cleanup()
    return 0
