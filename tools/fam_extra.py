"""Specifications beyond the listed properties.  Same shape as the property checks (model check + mutants,
real code under a seeded driver, TLC contract monitor), but not registered in MANIFEST.json; results are
written to evidence/extra_<name>.json in the same format."""
import json, os, time
import vlib
from vlib import Broken, log
from fam_comp import validate_obs


def canary_cfg(mut="none", clients=2, names=2, size=1, reads=4, maxtime=3):
    return ('SPECIFICATION Spec\nCONSTANTS\n Clients = {%s}\n Names = {%s}\n Duration = 2\n MaxTime = %d\n MaxSize = %d\n MaxReads = %d\n Mut = "%s"\n'
            'INVARIANTS Consistent OneCanary NeverFails\nPROPERTIES Backoff\nCHECK_DEADLOCK FALSE\n') % (
        ",".join('"c%d"' % i for i in range(1, clients + 1)), ",".join('"n%d"' % i for i in range(1, names + 1)), maxtime, size, reads, mut)


def check_readcanary(tier):
    t0 = time.time()
    sd = vlib.seed()
    quick = tier == "quick"
    binary = vlib.go_build_test("comp")
    work = vlib.scratch("canary")
    r = vlib.run_tlc("ReadCanary", canary_cfg(names=3, size=1, reads=4 if quick else 5, maxtime=4), timeout=3400)
    vlib.require_model_ok(r, "ReadCanary")
    killed = {}
    for mut in ["second_canary", "failure_keeps_sending", "no_fallback"]:
        rm = vlib.run_tlc("ReadCanary", canary_cfg(mut, reads=3), timeout=900)
        if not rm.violated:
            raise Broken("ReadCanary mutant %s not killed" % mut)
        killed[mut] = rm.violated
    rc, out = vlib.run_harness(binary, "TestCanary", {"COMP_OUT": work, "VERIF_SEED": sd, "COMP_RUNS": 300 if quick else 20000}, timeout=3000)
    if rc != 0:
        raise Broken("canary harness failed:\n" + out[-3000:])
    n_events, rejects, vstates = validate_obs("CanaryContractTrace", os.path.join(work, "canary.ndjson"))
    for rj in rejects:
        path = vlib.save_replay("extra_readcanary", "s%d_%d" % (sd, rejects.index(rj)), {"observation.json": rj["event"]})
        print("VIOLATION property=EXTRA-readcanary replay=%s" % path)
        log("  rejected event: %s" % json.dumps(rj["event"])[:500])
    cov = {"states": r.distinct, "transitions": r.generated, "traces_validated_against_impl": n_events, "mutants_killed": killed,
           "trace_validator_states": vstates, "samples": []}
    vlib.write_evidence("extra_readcanary", tier, "model_checking", cov, time.time() - t0, len(rejects),
                        ["not one of the listed properties: additional coverage of the specification",
                         "single-threaded seeded schedules of Decide / Answer / tick / health-flip steps; the replica answers when the buffer is consumed"])
    return 1 if rejects else 0


def check_eviction(tier):
    t0 = time.time()
    sd = vlib.seed()
    binary = vlib.go_build_test("comp")
    work = vlib.scratch("evict")
    cases = []
    r = vlib.run_tlc("Eviction", 'INIT Init\nNEXT Next\nCONSTANTS\n Elems = {"a","b","c"}\n MaxOps = %d\nINVARIANTS Emit\nCHECK_DEADLOCK FALSE\n' % (5 if tier == "quick" else 7),
                     raw_sink=lambda m, raw: cases.append(raw), timeout=3000)
    vlib.require_model_ok(r, "Eviction")
    cp = os.path.join(work, "cases.ndjson")
    open(cp, "w").write("\n".join(cases) + "\n")
    rc, out = vlib.run_harness(binary, "TestEviction", {"COMP_OUT": work, "COMP_CASES": cp, "VERIF_SEED": sd}, timeout=3000)
    if rc != 0:
        raise Broken("eviction harness failed:\n" + out[-3000:])
    n_events, rejects, vstates = validate_obs("EvictionContractTrace", os.path.join(work, "eviction.ndjson"))
    for i, rj in enumerate(rejects):
        path = vlib.save_replay("extra_eviction", "s%d_%d" % (sd, i), {"observation.json": rj["event"]})
        print("VIOLATION property=EXTRA-eviction replay=%s" % path)
        log("  rejected observation: %s" % json.dumps(rj["event"])[:500])
    cov = {"states": r.distinct, "transitions": r.generated, "traces_validated_against_impl": n_events, "trace_validator_states": vstates, "samples": []}
    vlib.write_evidence("extra_eviction", tier, "model_checking", cov, time.time() - t0, len(rejects),
                        ["not one of the listed properties: additional coverage of the specification (pkg/eviction LRU / FIFO / RR sets)"])
    return 1 if rejects else 0


def sector_cfg(s, nobj=3, maxsize=5, mut="none", chunk=3, emit=False, view=True):
    c = 'SPECIFICATION Spec\n%sCONSTANTS\n S = %d\n NObj = %d\n MaxSize = %d\n MaxChunk = %d\n Mut = "%s"\nCHECK_DEADLOCK FALSE\n' % (
        "VIEW View\n" if view else "", s, nobj, maxsize, chunk, mut)
    return c + ("CONSTRAINT EmitScript\n" if emit else "INVARIANTS Durable\n")


def sector_conformance(tier, binary, work, sd):
    """SectorWriter.tla model check + replay of its behaviours on the real block-device backed block.
    Returns (states, transitions, models, scripts, n_events, rejects, validator_states, mutant verdict)."""
    quick = tier == "quick"
    states = trans = 0
    models = []
    for s, kw in ([(2, {}), (3, {})] if quick else [(2, {}), (3, {}), (4, dict(maxsize=6)), (2, dict(nobj=4, maxsize=3)), (3, dict(nobj=4, maxsize=4))]):
        r = vlib.run_tlc("SectorWriter", sector_cfg(s, **kw), timeout=3400)
        vlib.require_model_ok(r, "SectorWriter S=%d %s" % (s, kw))
        states += r.distinct
        trans += r.generated
        models.append({"sector": s, "bounds": kw, "distinct_states": r.distinct})
    rm = vlib.run_tlc("SectorWriter", sector_cfg(3, mut="reuse_shared_sector"), timeout=900)
    if rm.violated != "Durable":
        raise Broken("SectorWriter mutant not killed")
    scripts = []
    for s in (2, 3, 4):
        rs = vlib.run_tlc("SectorWriter", sector_cfg(s, maxsize=6, emit=True, view=False), mode="simulate", sim_num=300 if quick else 6000, sim_depth=40,
                          sim_seed=sd * 37 + s, workers=1, marker_sink=lambda m, o: scripts.append(o), timeout=3000)
        if not rs.ok:
            raise Broken("SectorWriter simulation failed: %s %s" % (rs.violated, rs.error))
    os.makedirs(work, exist_ok=True)
    sp = os.path.join(work, "sector_scripts.ndjson")
    vlib.write_ndjson(sp, scripts)
    rc, out = vlib.run_harness(binary, "TestSector", {"STORE_OUT": work, "STORE_SCRIPTS": sp}, timeout=3000)
    if rc != 0:
        raise Broken("sector harness failed:\n" + out[-3000:])
    n_events, rejects, vstates = validate_obs("SectorContractTrace", os.path.join(work, "sector.ndjson"))
    return states, trans, models, scripts, n_events, rejects, vstates, rm.violated


def check_sector(tier):
    t0 = time.time()
    sd = vlib.seed()
    binary = vlib.go_build_test("store")
    work = vlib.scratch("sector")
    states, trans, models, scripts, n_events, rejects, vstates, mv = sector_conformance(tier, binary, work, sd)
    for i, rj in enumerate(rejects):
        path = vlib.save_replay("extra_sector", "s%d_%d" % (sd, i), {"observation.json": rj["event"]})
        print("VIOLATION property=EXTRA-sector replay=%s" % path)
        log("  rejected observation: %s" % json.dumps({k: v for k, v in rj["event"].items() if k != "snaps"})[:500])
    cov = {"states": states, "transitions": trans, "traces_validated_against_impl": n_events, "models": models, "scripts": len(scripts),
           "mutants_killed": {"reuse_shared_sector": mv}, "trace_validator_states": vstates, "samples": scripts[:1]}
    vlib.write_evidence("extra_sector", tier, "model_checking", cov, time.time() - t0, len(rejects),
                        ["the sector sharing that C01 depends on (also run as part of the C01 check)",
                         "one block on a simulated device; objects of 1-6 bytes, sectors of 2-4 bytes, chunks of 1-3 bytes; cooperative schedule taken from the model's behaviour (the validating buffer layer delays a writer's last chunk until its end-of-stream probe)"])
    return 1 if rejects else 0


def expiry_cfg(mut="none", keys=2, maxts=2, maxtime=6, jitter=2):
    return ('SPECIFICATION Spec\nCONSTANTS\n Keys = {%s}\n Insts = {"i1","i2"}\n MaxTs = %d\n MaxTime = %d\n MinTs = 1\n MinValidity = 2\n MaxJitter = %d\n Mut = "%s"\n'
            'INVARIANTS Sound Fresh Agree\nPROPERTIES Monotone\nCHECK_DEADLOCK FALSE\n') % (",".join('"k%d"' % i for i in range(1, keys + 1)), maxts, maxtime, jitter, mut)


def check_expiry(tier):
    t0 = time.time()
    sd = vlib.seed()
    quick = tier == "quick"
    binary = vlib.go_build_test("comp")
    work = vlib.scratch("expiry")
    r = vlib.run_tlc("ActionExpiry", expiry_cfg() if quick else expiry_cfg(jitter=3), timeout=3400)
    vlib.require_model_ok(r, "ActionExpiry")
    killed = {}
    for mut in ["jitter_from_now", "jitter_per_instance", "expires_at_deadline", "no_minimum", "untimed_hidden"]:
        rm = vlib.run_tlc("ActionExpiry", expiry_cfg(mut, keys=1, jitter=3), timeout=900)
        if not rm.violated:
            raise Broken("ActionExpiry mutant %s not killed" % mut)
        killed[mut] = rm.violated
    rc, out = vlib.run_harness(binary, "TestExpiry", {"COMP_OUT": work, "VERIF_SEED": sd, "COMP_RUNS": 400 if quick else 20000}, timeout=3000)
    if rc != 0:
        raise Broken("expiry harness failed:\n" + out[-3000:])
    n_events, rejects, vstates = validate_obs("ExpiryContractTrace", os.path.join(work, "expiry.ndjson"))
    for i, rj in enumerate(rejects):
        path = vlib.save_replay("extra_expiry", "s%d_%d" % (sd, i), {"observation.json": rj["event"]})
        print("VIOLATION property=EXTRA-expiry replay=%s" % path)
        log("  rejected observation: %s" % json.dumps(rj["event"])[:700])
    cov = {"states": r.distinct, "transitions": r.generated, "traces_validated_against_impl": n_events, "mutants_killed": killed,
           "trace_validator_states": vstates, "samples": []}
    vlib.write_evidence("extra_expiry", tier, "model_checking", cov, time.time() - t0, len(rejects),
                        ["not one of the listed properties: additional coverage of the specification (actionResultExpiringBlobAccess)",
                         "whole-second configurations and clock values; maximum_validity_jitter >= 1 s (a configured jitter of zero makes the real decorator divide by zero on the first timestamped result; recorded in DESIGN.md 10.8, outside the listed properties)"])
    return 1 if rejects else 0


def check(name, tier):
    if name == "sector":
        return check_sector(tier)
    if name == "readcanary":
        return check_readcanary(tier)
    if name == "eviction":
        return check_eviction(tier)
    if name == "expiry":
        return check_expiry(tier)
    raise Broken("unknown extra check " + name)
