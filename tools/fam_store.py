"""C01 / C04 / C05 / C08: the local store (flat access).

Design spec LocalStore.tla (+BlockMap.tla) model-checked against the completion
properties; TLC-simulated behaviours, mutant killer scripts and hand-written
regression scripts replayed on the assembled real store under the cooperative
scheduler; seeded random cooperative and free-running drivers; every recorded
trace validated by StoreContractTrace.tla with the clause of the property
being checked."""
import hashlib, json, os, random, struct, time
import vlib
from vlib import Broken, log

GATES = ["flat.Get.upgrade", "flat.GetFromComposite.refresh", "flat.FindMissing.refresh"]
KEYDEFS = {"a": (1, 1), "b": (2, 2), "P": (3, 2)}   # name -> (cid, size in units)

MUTANTS = {
    "C01": ["stale_rel_index", "publish_at_alloc", "failed_visible"],
    "C05": ["under_refresh", "fm_no_refresh"],
    "C08": ["no_released_check", "resolver_ignores_quarantine", "quarantine_store"],
    "C04": [],
}
OBS_PROPS = "PROPERTIES PropC01 PropAck PropC05 PropC08\n"


def py_content(cid, size):
    seed = struct.pack("<Q", (cid * 0x9e3779b97f4a7c15 + 1) % (1 << 64))
    h = hashlib.sha256(seed).digest()
    out = bytearray()
    for i in range(size):
        if i % 32 == 0 and i > 0:
            h = hashlib.sha256(h).digest()
        out.append(0x40 | h[i % 32])
    if size > 0:
        out[0] = 1 + cid
    return bytes(out)


def key_ranks(unit):
    hx = {k: hashlib.sha256(py_content(cid, sz * unit)).hexdigest() for k, (cid, sz) in KEYDEFS.items()}
    order = sorted(hx, key=lambda k: hx[k])
    return {k: i + 1 for i, k in enumerate(order)}


def mc_extra(unit, geo=None):
    ranks = key_ranks(unit)
    ks = " [] ".join('k = "%s" -> %d' % (k, v[1]) for k, v in KEYDEFS.items())
    rk = " [] ".join('k = "%s" -> %d' % (k, v) for k, v in ranks.items())
    ck = " [] ".join('p = "P" /\\ i = %d -> "P#%d"' % (i, i) for i in (0, 1))
    return "MCKeySize(k) == CASE %s\nMCKeyRank(k) == CASE %s\nMCChildKey(p, i) == CASE %s\nMCSpare == %d\n" % (
        ks, rk, ck, geo["spare"] if geo else 1)


def q(xs):
    return ",".join('"%s"' % x for x in xs)


def model_cfg(geo, *, clients, maxops, mut="none", corr=False, maxcorrupt=0,
              kinds=("Put", "BadPut", "Get", "Fm", "Comp"), props="full", view=True, constraint=None):
    s = "INIT Init\nNEXT Next\n" + ("VIEW View\n" if view else "")
    s += "CONSTANTS\n BlockSize = %d\n DesOld = %d\n DesCur = %d\n DesNew = %d\n Spare <- MCSpare\n Policy = \"%s\"\n" % (
        geo["bs"], geo["old"], geo["cur"], geo["new"], geo["policy"])
    s += " Clients = {%s}\n Keys = {%s}\n Parents = {\"P\"}\n MaxOps = %d\n Mut = \"%s\"\n Corruptible = %s\n MaxCorrupt = %d\n OpKinds = {%s}\n" % (
        q(clients), q(KEYDEFS), maxops, mut, "TRUE" if corr else "FALSE", maxcorrupt, q(kinds))
    s += " KeySize <- MCKeySize\n KeyRank <- MCKeyRank\n ChildKey <- MCChildKey\n"
    if props == "full":
        s += "INVARIANTS TypeOK C01Index C04Regions C04Quiescent C04PinnedNotFree C05Retention C08Quarantine\n" + OBS_PROPS
    elif props == "observable":
        s += OBS_PROPS + "INVARIANTS C04Regions C04Quiescent\n"
    if constraint:
        s += "CONSTRAINT %s\n" % constraint
    return s


GEOS = [
    dict(name="o1c1n1", bs=2, old=1, cur=1, new=1, spare=1, policy="immutable"),
    dict(name="o0c1n1", bs=2, old=0, cur=1, new=1, spare=1, policy="immutable"),
    dict(name="o1c0n2", bs=3, old=1, cur=0, new=2, spare=0, policy="immutable"),
    dict(name="o1c1n1m", bs=2, old=1, cur=1, new=1, spare=1, policy="mutable"),
    dict(name="o2c1n1", bs=2, old=2, cur=1, new=1, spare=2, policy="immutable"),
    dict(name="o1c1n1mem", bs=2, old=1, cur=1, new=1, spare=-1, policy="immutable"),
]


def harness_cfgs(geo, tier, rng):
    """Real-store configurations that realise a model geometry."""
    out = []
    if geo["spare"] < 0:
        variants = [dict(alloc="mem", index="mem", unit=1, sector=1, factory="cas"),
                    dict(alloc="mem", index="dev", unit=3, sector=1, factory="cas")]
    else:
        variants = [dict(alloc="dev", index="mem", unit=1, sector=1, factory="cas"),
                    dict(alloc="dev", index="dev", unit=2, sector=4, factory="cas"),
                    dict(alloc="dev", index="mem", unit=3, sector=2, factory="raw")]
    for v in variants:
        blockbytes = geo["bs"] * v["unit"]
        if blockbytes % v["sector"]:
            continue
        out.append(dict(access="flat", alloc=v["alloc"], index=v["index"], policy=geo["policy"], factory=v["factory"],
                        old=geo["old"], cur=geo["cur"], new=geo["new"], spare=max(geo["spare"], 0),
                        sector=v["sector"], blockSectors=blockbytes // v["sector"], indexSlots=61, maxGet=8, maxPut=16,
                        unit=v["unit"]))
    return out


def to_script(hist, sid, hcfg):
    unit = hcfg["unit"]
    steps = []
    for h in hist:
        st = h["step"]
        o = {"do": st["do"], "hasExp": True,
             "exp": [{"p": e["p"], "op": e["op"], "k": e["k"], "res": e["res"], "what": e["what"]} for e in h["exp"]]}
        if st["do"] == "start":
            o.update(p=st["p"], op=st["op"], k=st.get("k", ""))
            if st["op"] == "Put":
                o["bad"] = st.get("bad", "")
            if st["op"] == "Get":
                o["hold"] = True
            if st["op"] == "Fm":
                o["ks"] = list(st["ks"])
            if st["op"] == "Comp":
                o["child"] = st["child"]
        elif st["do"] == "rel":
            o.update(l=st["l"], n=st["n"])
        elif st["do"] == "corrupt":
            o.update(k=st["k"])
        steps.append(o)
    cfg = {k: v for k, v in hcfg.items() if k != "unit"}
    keys = {k: {"cid": cid, "size": sz * unit} for k, (cid, sz) in KEYDEFS.items()}
    return {"id": sid, "cfg": cfg, "keys": keys, "steps": steps, "gates": GATES}


def gen_killers(regenerate=False):
    path = os.path.join(vlib.VERIF, "gen", "killers", "store.json")
    if os.path.exists(path) and not regenerate:
        return json.load(open(path))
    out, unkilled = [], []
    for prop, muts in MUTANTS.items():
        for mut in muts:
            killed = False
            corr = prop == "C08"
            for geo in (GEOS[:2] if not corr else [GEOS[0], GEOS[4]]):
                r = vlib.run_tlc("LocalStore", model_cfg(geo, clients=["c1", "c2"], maxops=6, mut=mut, corr=corr,
                                                         maxcorrupt=2 if corr else 0, props="observable",
                                                         kinds=("Put", "Get", "Fm", "Comp") if prop != "C01" else ("Put", "BadPut", "Get", "Comp")),
                                 extra=mc_extra(1, geo), dump_trace=True, timeout=1500)
                st = vlib.cex_states(r)
                if r.violated and st:
                    out.append({"mutant": mut, "property": prop, "geo": geo, "violates": r.violated, "hist": st[-1]["hist"]})
                    killed = True
                    break
                if not r.ok and not r.violated:
                    raise Broken("killer generation failed for %s: %s\n%s" % (mut, r.error, r.stdout[-1500:]))
            if not killed:
                unkilled.append(mut)
    if unkilled:
        raise Broken("design mutants not killed by the observable properties: %s" % unkilled)
    os.makedirs(os.path.dirname(path), exist_ok=True)
    json.dump(out, open(path, "w"), indent=1)
    return out


def clause_cfg(pid):
    return 'SPECIFICATION TSpec\nPOSTCONDITION Accepted\nCHECK_DEADLOCK FALSE\nCONSTANT Clause = "%s"\n' % pid


def check(pid, tier, replay=None):
    t0 = time.time()
    sd = vlib.seed()
    rng = random.Random(sd)
    binary = vlib.go_build_test("store")
    work = vlib.scratch("store")
    if replay and os.path.exists(os.path.join(replay, "observation.json")):
        return vlib.replay_observation(pid, "SectorContractTrace", replay)
    if replay:
        sp = os.path.join(replay, "script.ndjson")
        rc, out = vlib.run_harness(binary, "TestScripts", {"STORE_SCRIPTS": sp, "STORE_OUT": work})
        if rc != 0:
            raise Broken("replay harness failed:\n" + out[-2000:])
        _, _, rej, _ = vlib.validate_traces("StoreContractTrace", os.path.join(work, "traces.ndjson"), cfg=clause_cfg(pid))
        print(("VIOLATION property=%s replay=%s" % (pid, replay)) if rej else "replay: contract accepts")
        return 1 if rej else 0

    quick = tier == "quick"
    cov = {"configs": [], "design_conformance": {}}
    tot_states = tot_trans = 0
    scripts = []
    samples = []
    corr_prop = pid == "C08"
    geos = GEOS if not quick else GEOS[:4] + GEOS[5:]
    for gi, geo in enumerate(geos):
        corr = geo["spare"] >= 0 and (corr_prop or gi == 0)
        # (M) exhaustive check of the design against all properties
        maxops = 4 if quick else 5
        r = vlib.run_tlc("LocalStore", model_cfg(geo, clients=["c1", "c2"], maxops=maxops, corr=corr,
                                                 maxcorrupt=1 if corr else 0), extra=mc_extra(1, geo), timeout=3000)
        vlib.require_model_ok(r, "LocalStore " + geo["name"])
        tot_states += r.distinct
        tot_trans += r.generated
        cov["configs"].append({"geometry": geo, "distinct_states": r.distinct, "transitions": r.generated, "depth": r.depth,
                               "clients": 2, "max_ops": maxops, "corruption": corr})
        # (R) simulated behaviours -> scripts
        hcfgs = harness_cfgs(geo, tier, rng)
        for hi, hc in enumerate(hcfgs):
            hists = []
            nsim = 60 if quick else 250
            rs = vlib.run_tlc("LocalStore", model_cfg(geo, clients=["c1", "c2", "c3"], maxops=9, corr=corr and hc["factory"] == "cas",
                                                      maxcorrupt=2 if corr_prop else (1 if corr else 0), props="none", view=False,
                                                      constraint="EmitScript"),
                              extra=mc_extra(hc["unit"], geo), mode="simulate", sim_num=nsim, sim_depth=40,
                              sim_seed=sd * 7919 + gi * 31 + hi, workers=1,
                              marker_sink=lambda m, obj: hists.append(obj), timeout=900)
            if not rs.ok:
                raise Broken("simulation failed: %s %s\n%s" % (rs.violated, rs.error, rs.stdout[-2000:]))
            seen = set()
            for n, h in enumerate(hists):
                key = json.dumps(h, sort_keys=True)
                if key in seen:
                    continue
                seen.add(key)
                scripts.append(to_script(h, "sim/%s/%s-%s-u%d/%d" % (geo["name"], hc["alloc"], hc["index"], hc["unit"], n), hc))
            if len(samples) < 2 and hists:
                samples.append(scripts[-1])
    # killer scripts of the design mutants (all properties: a killer for one clause is a normal script for the others)
    for k in gen_killers():
        for hc in harness_cfgs(k["geo"], tier, rng):
            if hc["factory"] != "cas":
                continue
            sc = to_script(k["hist"], "killer/%s/%s-%s-u%d" % (k["mutant"], hc["alloc"], hc["index"], hc["unit"]), hc)
            for st in sc["steps"]:
                st["hasExp"] = False   # expectations in a counterexample are the mutant's
            scripts.append(sc)
    # hand-written regression scripts
    sdir = os.path.join(vlib.VERIF, "scripts")
    for fn in sorted(os.listdir(sdir)):
        if fn.startswith("c01_") or fn.startswith("store_"):
            for line in open(os.path.join(sdir, fn)):
                if line.strip():
                    scripts.append(json.loads(line))
    sp = os.path.join(work, "scripts.ndjson")
    vlib.write_ndjson(sp, scripts)
    rc, out = vlib.run_harness(binary, "TestScripts", {"STORE_SCRIPTS": sp, "STORE_OUT": work, "VERIF_SEED": sd}, timeout=3400)
    if rc != 0:
        raise Broken("store harness failed:\n" + out[-3000:])
    summ = json.load(open(os.path.join(work, "summary.json")))
    traces = [os.path.join(work, "traces.ndjson")]
    # seeded random drivers (cooperative random scheduler, then free-running goroutines)
    rdir = os.path.join(work, "rand")
    os.makedirs(rdir)
    rc, out = vlib.run_harness(binary, "TestRandom", timeout=3400, env={"STORE_OUT": rdir, "VERIF_SEED": sd, "STORE_ACCESS": "flat",
                                                       "STORE_RUNS": 150 if quick else 2000, "STORE_OPS": 14,
                                                       "STORE_FREE_RUNS": 20 if quick else 300, "STORE_FREE_OPS": 40 if quick else 200,
                                                       "STORE_CORRUPT": 1 if corr_prop else 0})
    if rc != 0:
        raise Broken("store random harness failed:\n" + out[-3000:])
    rsumm = json.load(open(os.path.join(rdir, "summary.json")))
    traces.append(os.path.join(rdir, "traces.ndjson"))
    if pid == "C04":
        # the hierarchical access has its own refresh paths on which buffers must be released
        hdir = os.path.join(work, "randhier")
        os.makedirs(hdir)
        rc, out = vlib.run_harness(binary, "TestRandom", timeout=3400, env={"STORE_OUT": hdir, "VERIF_SEED": sd, "STORE_ACCESS": "hier",
                                                           "STORE_RUNS": 400 if quick else 2500, "STORE_OPS": 16,
                                                           "STORE_FREE_RUNS": 20 if quick else 300, "STORE_FREE_OPS": 40 if quick else 200})
        if rc != 0:
            raise Broken("store random harness (hier) failed:\n" + out[-3000:])
        traces.append(os.path.join(hdir, "traces.ndjson"))
        # the persistent block list defers the release of popped blocks until a state file that no
        # longer lists them has been written: crash-free persistent runs driven to quiescence
        pdir = os.path.join(work, "persist")
        os.makedirs(pdir)
        rc, out = vlib.run_harness(binary, "TestCrash", timeout=3400, env={"STORE_OUT": pdir, "VERIF_SEED": sd, "CRASH_MODE": "live",
                                                          "CRASH_WORKLOADS": 80 if quick else 600, "CRASH_OPS_MIN": 10})
        if rc != 0:
            raise Broken("persistent live harness failed:\n" + out[-3000:])
        traces.append(os.path.join(pdir, "traces.ndjson"))
        cov["persistent_runs"] = json.load(open(os.path.join(pdir, "summary.json")))
    n_traces = n_events = vstates = 0
    rejects = []
    for tp in traces:
        nt, ne, rj, vs = vlib.validate_traces("StoreContractTrace", tp, cfg=clause_cfg(pid), timeout=1500)
        n_traces += nt
        n_events += ne
        vstates += vs
        rejects += rj
    by_id = {s["id"]: s for s in scripts}
    violations = 0
    for rj in rejects:
        tid = rj["id"] or "?"
        files = {"trace.ndjson": "\n".join(json.dumps(e) for e in rj["trace"]) + "\n",
                 "offending.json": {"line": rj["line"], "event": rj["event"], "clause": pid}}
        if tid in by_id:
            files["script.ndjson"] = json.dumps(by_id[tid]) + "\n"
        else:
            files["script.ndjson"] = ""
            files["README"] = "random driver trace: re-run with VERIF_SEED=%d; trace id %s\n" % (sd, tid)
        path = vlib.save_replay(pid, "s%d_%d" % (sd, violations), files)
        violations += 1
        print("VIOLATION property=%s replay=%s" % (pid, path))
        log("  rejected trace %s at line %d: %s" % (tid, rj["line"], json.dumps(rj["event"])[:300]))
    if pid == "C01":
        # the sector sharing of the block-device backed block (SectorWriter.tla): concurrent neighbouring uploads in
        # arbitrary chunkings must read back, validated, exactly as uploaded
        import fam_extra
        sst, str_, smodels, sscripts, sn, srej, svs, smv = fam_extra.sector_conformance(tier, binary, os.path.join(work, "sector"), sd)
        tot_states += sst
        tot_trans += str_
        n_traces += sn
        vstates += svs
        cov["sector_sharing"] = {"models": smodels, "scripts_replayed": len(sscripts), "design_mutant_killed": smv}
        for rj in srej:
            path = vlib.save_replay(pid, "s%d_%d" % (sd, violations), {"observation.json": rj["event"],
                                                                         "README": "sector-sharing observation (SectorContractTrace.tla); re-run with VERIF_SEED=%d\n" % sd})
            violations += 1
            print("VIOLATION property=%s replay=%s" % (pid, path))
            log("  rejected sector observation: %s" % json.dumps({k: v for k, v in rj["event"].items() if k != "snaps"})[:400])
    if summ["drift_scripts"]:
        for d in (summ["first_drifts"] or [])[:3]:
            log("DRIFT property=%s %s" % (pid, json.dumps(d)[:500]))
    cov["design_conformance"] = {"scripts_with_expectations": len([s for s in scripts if s["id"].startswith("sim/")]),
                                 "completions_compared": summ["completions_compared"],
                                 "drifted_scripts": summ["drift_scripts"], "first_drifts": (summ["first_drifts"] or [])[:3]}
    cov.update({
        "states": tot_states, "transitions": tot_trans,
        "traces_validated_against_impl": n_traces, "trace_events_validated": n_events, "trace_validator_states": vstates,
        "scripts_replayed_on_real_code": summ["scripts"], "script_steps": summ["steps"], "script_steps_infeasible": summ["infeasible"],
        "random_runs": rsumm, "mutant_killers": [k["mutant"] + ":" + k["violates"] for k in gen_killers()],
        "clause": pid,
        "samples": samples[:2] or scripts[:1],
    })
    vlib.write_evidence(pid, tier, "model_checking", cov, time.time() - t0, violations,
                        ["simulated block device / index device (harness/sim): reads see the latest write",
                         "content identities: distinct keys have distinct pseudo-random contents; CAS digests are SHA-256",
                         "the ideal index of the design is refined by hashingKeyLocationMap (C06); tables are sized so that no discard occurs",
                         "cooperative schedules are replayed with testing/synctest; free-running schedules are whatever the Go scheduler produced"])
    return 1 if violations else 0
