#!/usr/bin/env python3
"""Regenerates /verif/MANIFEST.json from the table below and validates it."""
import json, os, sys

VERIF = os.path.dirname(os.path.dirname(os.path.abspath(__file__)))

ALL = ["C%02d" % i for i in range(1, 21)]

CHECKS = {
    "C06": dict(
        level="model_checking",
        technique="TLA+ design spec (KeyLocationMap.tla) model-checked against IndexContract.tla with TLC; every transition of the bounded state graphs, simulated scripts and mutant killer scripts replayed on the real hashingKeyLocationMap (both record arrays); recorded traces validated by TLC against IndexContractTrace.tla",
        text="TLC checks exhaustively, for several tiny colliding table shapes whose slot functions are taken from the real hash, that the statement-by-statement transcription of Get/Put satisfies the contract (sound lookups, no silent loss, frame condition with at most one reported discard, exact release). The code is bound to the spec in both directions: every edge of the state graph is executed on the real map from an injected source state and compared with the design's expectation, whole scripts are replayed from the empty table, and every deviating execution plus a sample of conforming ones plus random real-hash runs are validated by the TLC contract monitor, which alone decides VIOLATION.",
        design_ref="DESIGN.md 4/C06, 10",
        note="Trusted: TLC, the harness's BlockReferenceResolver (blocks below `released` invalid), Prometheus counters as the report channel for discards. Bounded: 3 keys, <=5 blocks x 2 offsets, <=5 (exhaustive) / 12 (simulated) operations per behaviour, tables of 1-8 slots. FNV checksum collisions not modelled.",
    ),
}

_STORE_TECH = "TLA+ design spec LocalStore.tla/BlockMap.tla (one action per harness scheduling step, code-shaped bookkeeping) model-checked with TLC against the property; TLC-simulated behaviours, shortest counterexamples of design mutants and regression scripts replayed on the assembled real store under a deterministic cooperative scheduler (testing/synctest + verif yield hooks), with completions compared to the design; seeded random cooperative and free-running drivers; every recorded trace validated by TLC against the StoreContractTrace.tla monitor (clause %s), which alone decides VIOLATION"
_STORE_NOTE = "Trusted: TLC, the simulated block/index devices (reads see the latest write), content identification by pseudo-random payloads, SHA-256. Bounded: exhaustive for 2 clients x <=4 (quick) / 5 (thorough) operations over 3 keys + 2 composite children on 5-6 tiny geometries; simulated behaviours of 3 clients x 9 operations; random runs of 12-200 operations on random geometries (sector 1-8 bytes, blocks 2-12 bytes). Index tables are sized so that no discard occurs (C06 covers the index)."
CHECKS.update({
    "C01": dict(level="model_checking", technique=_STORE_TECH % "C01", design_ref="DESIGN.md 4/C01, 10",
                text="Design |= 'a read yields exactly the content uploaded for its key, NotFound, or a non-integrity error; failed uploads never visible; no integrity error on a clean medium' for every interleaving of the bounded model; the real store is bound by replaying the model's behaviours step by step (zero design drift required on the unchanged tree) and by validating every recorded execution, including randomly scheduled and truly concurrent ones, against the contract monitor.",
                note=_STORE_NOTE),
    "C04": dict(level="model_checking", technique=_STORE_TECH % "C04", design_ref="DESIGN.md 4/C04, 10",
                text="Design invariants: regions conserved (free + listed + popped-but-pinned = total), nothing pinned when nothing is in flight, a pinned block is never free. On real executions the monitor checks that a region is not handed out while a reader (always) or writer (cooperative runs) of its previous incarnation is open, that every reader is closed exactly once, every upload source exactly once, and that at quiescence every block the list released has been returned to the allocator (Prometheus counters).",
                note=_STORE_NOTE + " Volatile block list only in this check; the persistent list's deferred release is covered by C02/C03/C07 when claimed."),
    "C05": dict(level="model_checking", technique=_STORE_TECH % "C05", design_ref="DESIGN.md 4/C05, 10",
                text="Design invariant and observable action property: a key touched successfully (Get data / FindMissing present) stays resolvable until old+1 further blocks were allocated, measured from the start of the touching call and applied to calls started after it ended; on real executions the monitor counts NewBlock events of the real allocator and additionally requires that an immediately repeated touch causes no allocation and no write.",
                note=_STORE_NOTE),
    "C08": dict(level="model_checking", technique=_STORE_TECH % "C08", design_ref="DESIGN.md 4/C08, 10",
                text="Model and harness inject corruption of stored objects (bit flips on the simulated device); design invariant: after detection in block q nothing in blocks <= q resolves; observable properties: an operation invoked after the detection is not served from a block <= q, an upload written into a quarantined block is not acknowledged, acknowledged uploads are readable. The monitor checks the same on reader-open / writer / integrity events of real executions.",
                note=_STORE_NOTE + " Corruption = flipping the first byte of every stored copy of a key; AC (proto) read buffer factory not exercised, only the CAS factory."),
})

_P_TECH = "TLA+ design specs %s model-checked with TLC (safety%s; design mutants killed); seeded workloads on the assembled real persistent store (PersistentBlockList + PeriodicSyncer + DirectoryBackedPersistentStateStore + block-device allocator and record array over simulated media, virtual clock, cooperative scheduler): %s; every recorded trace validated by TLC against the StoreContractTrace.tla monitor (clause %s), which alone decides VIOLATION"
_P_NOTE = "Trusted: TLC; the simulated media's crash semantics (any subset of sector writes since the last completed Sync lost; index device never synced; ordered metadata journal for the state directory; un-fsynced file data kept or lost); deterministic epoch seeds. The design models abstract the state-file protocol to an atomic write and do not model sectors; both are exercised on the real code only. Real-code schedules are seeded random cooperative schedules, not exhaustive."
CHECKS.update({
    "C02": dict(level="model_checking", technique=_P_TECH % ("CrashEpochs.tla (epochs, seeded record checksums, sync/expose/state-write/release ordering, region reuse, crash with any subset of unsynced data and index writes, recovery)", "", "a machine crash at every device / directory call of each workload with several admissible post-crash media each, restart, read-back of every key, further uploads, read-back again", "C02"),
                design_ref="DESIGN.md 4/C02, 10", note=_P_NOTE,
                text="TLC proves on the bounded design that after any crash every index record that validates against the restored state points into the block incarnation its upload was written to, that this block is listed, its region not reused, and the data durable. The real code is bound by crash enumeration: for every I/O operation n of seeded workloads the n-th call and everything after it is dropped, post-crash images are built from the journals under 6 (quick) / 16 (thorough) loss masks, the store is restarted from them and must never return or report present anything but exactly the uploaded bytes, before and after new uploads."),
    "C03": dict(level="model_checking", technique=_P_TECH % ("CrashEpochs.tla (CommitDurable) and Syncer.tla (closedForWriting / final syncs)", "", "graceful shutdown requested at every scheduler step (in-flight uploads and the two final syncs run to completion) and a process crash at every scheduler step, restart from the media as the process left them, read-back of every key", "C03"),
                design_ref="DESIGN.md 4/C03, 10", note=_P_NOTE + " Eviction excuse: old+1 block hand-outs since the upload started.",
                text="Design: uploads acknowledged before the start of a completed commit are visible after a process crash when nothing was finalized since. Real code: every upload acknowledged before a graceful shutdown completes must read back after restart (unless old+1 blocks were handed out since it started); after a process crash every upload acknowledged before the NotifySyncStarting of a commit that reached NotifyPersistentStateWritten must read back, provided no upload or refresh was logged since that NotifySyncStarting."),
    "C07": dict(level="model_checking", technique=_P_TECH % ("Syncer.tla (both loops of PeriodicSyncer line by line, notification channels, timers as saturating distances, failures, shutdown)", " and liveness under weak fairness", "crash-free runs with injected sync / state-write failures, timers fired by the scheduler, driven to quiescence first without and then with timer expiries", "C07"),
                design_ref="DESIGN.md 4/C07, 10", note=_P_NOTE + " The minimum epoch interval is measured between the timer expiries that trigger epoch syncs (virtual time).",
                text="TLC checks for all interleavings of finalizers, PushBack/PopFront, both loops, failures, ticks and shutdown: no double close, no lost wake-up (pending work implies the installed channel is closed; no loop waits on a stale open channel), the minimum interval between epoch syncs, and, under weak fairness, that eventually every epoch is covered by a written state file and nothing awaits release. On real executions the monitor requires: no panic, consecutive NotifySyncStarting(false) at least the interval apart in virtual time unless shutting down, popped blocks returned to the allocator without any timer expiring (unless a retry is pending), and at quiescence every acknowledged upload covered by a completed commit."),
})

_B_NOTE = "Trusted: TLC; the scripted sources of the harness. The specification abstracts hash functions to content equality; the eight real digest functions are exercised by concretization (2 per quick run, all 8 in the thorough tier)."
CHECKS.update({
    "C09": dict(level="model_checking", design_ref="DESIGN.md 4/C09, 10", note=_B_NOTE + " Bounds: contents over {a,b}, digest content <= 2, source content <= 2 (quick) / 3 (thorough) symbols split into <= 2/3 chunks incl. empty ones, three ways of ending (EOF, data+EOF, I/O error).",
                technique="TLA+ spec BufferValidate.tla: the state space is the case list; TLC checks the transcriptions of casValidatingReader / casValidatingChunkReader against the contract for every case and read size and emits the cases; the Go harness executes every case x 3 constructors x 2 source kinds x ~40 consumption calls on the real buffers; TLC validates every observation against BufferContractTrace.tla",
                text="Exhaustive within the bounds: every (digest content, source content, chunking, ending). For each, the contract fixes the admissible outcomes (success only for matching content with full delivery; otherwise a mismatch error with the source-kind's code or the source's I/O error, never as many bytes as the digest announces, integrity callback never positive for a mismatch nor negative for a match, source closed exactly once, errors sticky, limits and offsets never yield foreign bytes). The design transcription is proven to meet it by TLC and compared with the real code (zero drift), and all observations of the real buffers are judged by the TLC monitor."),
    "C15": dict(level="model_checking", design_ref="DESIGN.md 4/C15, 10", note=_B_NOTE + " Stream-clone interleavings: exhaustive for 2 consumers, TLC-simulated for 3-4; buffer algebra: all terms with <= 2 (quick) / 3 (thorough) operations over 8 base buffers and 9 final methods.",
                technique="TLA+ spec CloneMux.tla (rendezvous of casClonedBuffer.toChunkReader and multiplexedChunkReader) model-checked for 2-4 consumers; its interleavings and mutant counterexamples replayed on real stream clones under testing/synctest, plus free-running consumers; TLA+ spec BufferAlgebra.tla enumerates terms over CloneStream/CloneCopy/WithTask/WithErrorHandler x base buffers x methods; TLC validates all observations against CloneContractTrace.tla",
                text="Design: no panic, all consumers observe a prefix of the same sequence, the source is closed exactly once and never used afterwards, and nobody blocks forever (ENABLED Next while somebody is not closed), for every interleaving. Real code: every generated interleaving is driven through real clones (a blocked bubble is reported as a deadlock), and every term of the algebra is executed with side consumers in goroutines; the monitor requires the expected data / error at every consumer, GetSizeBytes and re-cloning to keep working, completion only after attached tasks finished, sources released exactly once, handlers finished exactly once."),
    "C16": dict(level="model_checking", design_ref="DESIGN.md 4/C16, 10", note=_B_NOTE + " Chains of <= 3 segments (original + 2 replacements) for objects of 2 (quick) / 1-3 (thorough) bytes; replacement kinds: ok, failing after k bytes, known-error buffer, wrong content.",
                technique="TLA+ specs ErrorRetry.tla / ErrorRetryDefs.tla: the state space is the list of failure/replacement chains; the contract computes result, bytes delivered and number of errors offered; every case executed on real buffers (reader and chunk-reader backed, chunk sizes 1-2) with whole-object, streaming, chunked and offset consumption; TLC validates every observation against RetryContractTrace.tla",
                text="For every chain the monitor requires: success exactly when the chain can deliver the object, then every byte exactly once and in order; otherwise the handler's translated error or a validation failure of the stitched stream, with what was delivered being a prefix of the object; OnError called exactly once per underlying error; Done called exactly once."),
})

_C_NOTE = "Trusted: TLC; the harness's model back ends (sets of objects with a per-call fault plan, recording every call). Contract layer decides; design-layer deviations are reported as DRIFT only."
CHECKS.update({
    "C10": dict(level="model_checking", design_ref="DESIGN.md 4/C10, 10", note=_STORE_NOTE + " Instance names: a chain root < a < a/b plus an unrelated sibling; grants are the instance-name sets at which an object's content was validated.",
                technique="TLA+ design spec HierStore.tla (per-instance index entries over shared blocks, lookups along the ancestor chain, refresh re-registering under the instance found, grant only after validation) model-checked with TLC (PropVisibility, NoWidening, EntriesIntact; design mutants refresh_root / grant_without_validation / grant_at_alloc killed); simulated behaviours and mutant counterexamples replayed on the real hierarchicalCASBlobAccess under the cooperative scheduler, seeded random runs; every trace validated by TLC against StoreContractTrace.tla (clause C10)",
                text="Design: an object is visible under an instance name exactly if it was uploaded (and validated) under that name or one of its ancestors (prefix chain) and is still retained; refresh never widens visibility; a failed or corrupt upload grants nothing. Real code: completions are compared with the design (zero drift) and the monitor checks every Get / FindMissing result against the set of instance names granted so far and the retention window."),
    "C11": dict(level="model_checking", design_ref="DESIGN.md 4/C11, 10", note=_C_NOTE + " Two objects, every placement, plans failing the 1st or 2nd call on a replica; a second battery uses two real local stores as replicas.",
                technique="TLA+ design spec Mirrored.tla (round-robin first replica, repair through the replicator, parallel Put / FindMissing, error naming) model-checked with TLC against MirrorDefs.tla; all two-operation behaviours from every placement enumerated, longer ones simulated, mutant counterexamples added; all replayed on the real mirroredBlobAccess over model back ends and over two real local stores; every observation validated by TLC against MirrorContractTrace.tla",
                text="Monitor: a successful upload is in both replicas; a read returns the object whenever a replica holds it and no replica failed, and then the replica consulted first holds it; FindMissing reports missing exactly the objects both lack and has copied the one-sided ones; any replica failure other than NOT_FOUND yields an error that names the replica and is not NOT_FOUND; nothing is ever removed from a replica."),
    "C12": dict(level="model_checking", design_ref="DESIGN.md 4/C12, 10", note=_C_NOTE + " Selector design: every score assignment in 1..3 (quick) / 1..4 and 4 shards (thorough) x every order of key hashes x every listing of every non-empty subset of shards. Real selector: 60 (quick) / 3000 (thorough) random maps of 1-6 shards x ~120 hashes each. The 64-bit fixed-point score itself is outside TLC's integer range and is exercised, not modelled.",
                technique="TLA+ design spec Sharding.tla: part 'selector' transcribes NewRendezvousShardSelector / GetShard over an arbitrary score function and TLC checks order independence and minimal disruption under removal / addition for every score assignment with ties (mutants: no sort, zero scores); part 'composite' models shardingBlobAccess over back ends with failing shards and is model-checked against ShardingDefs.tla, its simulated behaviours and mutant counterexamples replayed on the real composite with an arbitrary configuration order; the real rendezvous selector is probed on random shard maps with hashes crafted through the inverse of its mixer (logarithm argument 0, 1, 2^k, 2^k+-1, 2^64-1, table boundaries) and hashes hunted for score ties, under permutations, every single removal and random additions; every observation validated by TLC against ShardingContractTrace.tla",
                text="Monitor (selector): same answer when asked again, from a rebuilt selector and from selectors built from permutations of the same (key, weight) pairs; removing a shard changes the answer only if the removed shard was the answer; adding a shard changes the answer only to the added shard; no panic. Monitor (composite): every back-end call carries the caller's operation and exactly the digests whose leading eight hash bytes the selector maps to that shard, whatever the instance name, digest function, size and hash tail; each shard is called at most once, and exactly the shards that own a digest when nothing fails; FindMissing returns exactly the union of the shards' answers; a failing shard yields an error naming a failing shard's key; NOT_FOUND carries the key too; contents change only by successful uploads on the owning shard."),
    "C13": dict(level="model_checking", design_ref="DESIGN.md 4/C13, 10", note=_C_NOTE + " Exhaustive: 81k cases (<=1 output file, stdout, stderr, <=1 output directory with root and <=1 child, 3 Tree states, <=1 object missing, batch sizes 1/2/100, FindMissing failure, size limit), 6000 of them executed per quick run and all in the thorough tier, plus 4000 / 60000 random wide cases (<=3 directories, <=3 children, malformed digests at every position, truncated / failing / garbage Trees, five digest functions).",
                technique="TLA+ spec CompletenessDefs.tla / Completeness.tla: the state space is the list of (ActionResult shape, CAS contents, batch size, fault, size limit) cases; TLC checks the statement-by-statement transcription of checkCompleteness and its FindMissing queue against the contract for every case (five design mutants killed) and emits the cases; each case is built as real REv2 protobuf messages and executed on the real completenessCheckingBlobAccess over a model AC and a recording model CAS; TLC validates every observation against CompletenessContractTrace.tla (contract layer decides VIOLATION, design layer reports DRIFT)",
                text="Monitor: the ActionResult is returned only if the AC entry is readable, no digest anywhere in it or in its Trees is malformed, every Tree is readable, the Trees fit the configured total size, and every referenced object - output files, stdout, stderr, Tree objects, root directories, files inside Trees and, when a root directory digest is given, directories inside Trees - exists and was reported present by a successful FindMissing call made during this Get; when the only thing wrong is a missing object the error is NOT_FOUND. The set of references is computed by the specification from the case, independently of the code."),
    "C17": dict(level="model_checking", design_ref="DESIGN.md 4/C17, 10", note=_C_NOTE + " Read-through: 2 objects, all placements, <=5 operations; replicator decorators: exhaustive protocol model for 3-4 callers, real code under 400 (quick) / 20000 (thorough) seeded cooperative schedules with failures and cancellations plus free-running runs; existence cache: sizes 1-3, durations 1-2, LRU/FIFO compared to the design, random replacement against the contract only.",
                technique="TLA+ design specs ReadThrough.tla (caching / fallback with single-shot selector), Replicators.tla (in-flight map, leader / waiter retry, concurrency limit; safety + termination under fairness) and ExistenceCache.tla (insertion times, LRU/FIFO order, virtual clock, back end changing behind the cache) model-checked with TLC, design mutants killed; TLC-generated scripts replayed on the real readcaching / readfallback / existenceCaching composites, seeded schedules of concurrent callers on the real deduplicating / concurrency-limiting / queued replicators over a recording gated base replicator; every observation validated by TLC against ReadThroughContractTrace.tla",
                text="Monitor: (a) without back-end failures a read returns the object iff fast/primary or slow/secondary holds it, uploads reach only the slow resp. primary back end, reads never write to the slow/secondary one, a successful read-through with a copying replicator leaves the object in the fast/primary back end, fallback FindMissing reports exactly the objects missing from both; with failures any answer given must still be right. (b) never two concurrent copies of one object behind the deduplicating decorator, never more concurrent copies than the limit, success only if every object was confirmed in or copied to the sink after the caller asked, no panic, nobody left waiting. (c) an object is answered from the existence cache only if the back end reported it present at most the configured duration ago; whatever the back end is asked is answered with the back end's own answer."),
    "C18": dict(level="model_checking", design_ref="DESIGN.md 4/C18, 10", note=_C_NOTE + " Authorizer trees of depth <= 1 (quick) / 2 (thorough) over two instance names; static allow/deny tables and a failing member.",
                technique="TLA+ spec Authorizing.tla: the state space is the list of (authorizer tree, operation, instance names) cases; TLC checks the any-authorizer algebra and emits the cases; each case executed on the real authorizingBlobAccess + NewAnyAuthorizer over a recording back end; every observation validated by TLC against AuthContractTrace.tla",
                text="Monitor: the back end is called only when the responsible authorizer (get / put / findMissing) allows the instance name; a denied or failed authorization yields PermissionDenied resp. the authorizer's error with no back-end call and, for uploads, a released buffer; allowed operations are forwarded unchanged; 'any' allows iff some member allows and fails only if none allows and one failed."),
    "C19": dict(level="model_checking", design_ref="DESIGN.md 4/C19, 10", note=_C_NOTE + " Instance names over the components {a, ab} up to depth 2.",
                technique="TLA+ spec Routing.tla: the state space is the list of (prefix table, instance name, operation) cases for the instance-name trie, the demultiplexing composite and ancestor chains; TLC checks sanity properties and emits the cases; each executed on the real InstanceNameTrie / demultiplexingBlobAccess / hierarchical instance-name helpers; every observation validated by TLC against RoutingContractTrace.tla",
                text="Monitor: the longest matching component-wise prefix wins (never a string prefix that is not a component prefix), the instance name is rewritten by replacing exactly that prefix, digests keep hash and size, errors carry the back end name, unmatched names yield InvalidArgument without any back-end call, FindMissing is partitioned per back end and reunited."),
})

REASON_WIP = "check not built yet in this round (work in progress; see DESIGN.md section 10 for status)"


def main():
    checks = []
    for pid in ALL:
        if pid not in CHECKS:
            continue
        c = CHECKS[pid]
        checks.append({
            "property_id": pid,
            "quick_cmd": "python3 tools/verif.py check %s --tier quick" % pid,
            "thorough_cmd": "python3 tools/verif.py check %s --tier thorough" % pid,
            "evidence_file": "/verif/evidence/%s.json" % pid,
            "replay_cmd_template": "python3 tools/verif.py check %s --replay {path}" % pid,
            "engine": "tlc+go-harness",
            "level_claimed": {"category": c["level"], "text": c["text"], "design_ref": c["design_ref"]},
            "level_note": c["note"],
            "technique": c["technique"],
        })
    hooks_commits = []
    hp = os.path.join(VERIF, "MANIFEST.hooks")
    if os.path.exists(hp):
        hooks_commits = [l.split()[0] for l in open(hp) if l.strip() and not l.startswith("#")]
    m = {
        "version": 1,
        "setup_cmd": "python3 tools/verif.py setup",
        "hooks": {
            "guard": "verif",
            "enable": "go test -c -tags verif (harness module /verif/harness with replace github.com/buildbarn/bb-storage => /repo)",
            "baseline_off_cmd": "cd /repo && GOFLAGS=-mod=mod GOPROXY=off go test -vet=off -count=1 -timeout 25m ./pkg/blockdevice/... ./pkg/eviction/... ./pkg/filesystem/... ./pkg/random/... ./pkg/zstd/...",
            "source_commits": hooks_commits,
            "add_only": True,
        },
        "engines": [
            {"name": "tlc+go-harness", "path": "/verif/tools/verif.py",
             "serves_properties": [c["property_id"] for c in checks],
             "kind_free_text": "TLA+ specifications in /verif/spec checked with TLC; Go conformance harness in /verif/harness replays TLC-generated behaviours on the real code and records traces that TLC validates against contract trace specifications"},
        ],
        "checks": checks,
        "notes": "Verdicts come only from TLC contract monitors (or spec-derived expected results) evaluated on executions of the real code; design-level deviations are reported as DRIFT in the evidence and never alarm. Exit 2 / BROKEN = tooling problem, never a verdict.",
        "not_applicable": [{"property_id": p, "reason": REASON_WIP} for p in ALL if p not in CHECKS],
    }
    with open(os.path.join(VERIF, "MANIFEST.json"), "w") as fh:
        json.dump(m, fh, indent=1)
    try:
        import jsonschema
        jsonschema.validate(m, json.load(open("/root/.vp/MANIFEST.schema.json")))
        print("MANIFEST.json valid;", len(checks), "checks")
    except ImportError:
        print("jsonschema not available; not validated")


if __name__ == "__main__":
    main()
