#!/usr/bin/env python3
"""Development tool: prints a Markdown table of measured cost / coverage per property from evidence/ (quick)
and gen/thorough/ (deep tier)."""
import json, os
V = os.path.dirname(os.path.dirname(os.path.abspath(__file__)))


def row(path):
    if not os.path.exists(path):
        return None
    e = json.load(open(path))
    c = e["coverage"]
    return e["tier"], e["wall_s"], c.get("states", 0), c.get("traces_validated_against_impl", 0)


print("| id | quick: wall / model states / observations or traces validated | thorough: wall / model states / observations or traces validated |")
print("|----|------|------|")
for i in range(1, 21):
    pid = "C%02d" % i
    q = row(os.path.join(V, "evidence", pid + ".json"))
    t = row(os.path.join(V, "gen", "thorough", pid + ".json"))
    f = lambda r: "-" if not r else "%d s / %s / %s" % (round(r[1]), format(r[2], ","), format(r[3], ","))
    print("| %s | %s%s | %s |" % (pid, f(q), "" if not q or q[0] == "quick" else " (" + q[0] + ")", f(t)))
