#!/usr/bin/env python3
"""Driver: verif.py setup | check <ID> [--tier quick|thorough] | extra <name> [--tier quick|thorough]

`extra` runs checks of specifications that go beyond the listed properties (not registered in MANIFEST.json):
  readcanary   readCanaryingBlobAccess (ReadCanary.tla, CanaryContractTrace.tla)
  eviction     LRU / FIFO / RR replacement sets (Eviction.tla, EvictionDefs.tla)
  sector       sector sharing of the block-device backed block (SectorWriter.tla, SectorContractTrace.tla)
  expiry       actionResultExpiringBlobAccess (ActionExpiry.tla, ExpiryContractTrace.tla)
"""
import importlib, os, sys, time, traceback

sys.path.insert(0, os.path.dirname(os.path.abspath(__file__)))
import vlib
from vlib import Broken, log

FAMILIES = {
    "C06": "fam_klm",
    "C02": "fam_persist", "C03": "fam_persist", "C07": "fam_persist",
    "C10": "fam_hier", "C11": "fam_comp", "C20": "fam_dig", "C14": "fam_rpc", "C12": "fam_comp", "C13": "fam_comp", "C17": "fam_comp", "C18": "fam_comp", "C19": "fam_comp",
    "C09": "fam_buf", "C15": "fam_buf", "C16": "fam_buf",
    "C01": "fam_store", "C04": "fam_store", "C05": "fam_store", "C08": "fam_store",
}


def main():
    if len(sys.argv) < 2:
        print(__doc__)
        return 2
    cmd = sys.argv[1]
    if cmd == "setup":
        import setup as s
        return s.main()
    if cmd == "check":
        pid = sys.argv[2]
        tier = os.environ.get("VERIF_TIER", "quick")
        if "--tier" in sys.argv:
            tier = sys.argv[sys.argv.index("--tier") + 1]
        replay = None
        if "--replay" in sys.argv:
            replay = sys.argv[sys.argv.index("--replay") + 1]
        mod = importlib.import_module(FAMILIES[pid])
        t0 = time.time()
        try:
            rc = mod.check(pid, tier, replay=replay)
        except Broken as e:
            print("BROKEN property=%s %s" % (pid, str(e)[:6000]))
            rc = 2
        except Exception:
            traceback.print_exc()
            print("BROKEN property=%s internal error" % pid)
            rc = 2
        finally:
            vlib.cleanup()
        log("check %s tier=%s rc=%s wall=%.1fs" % (pid, tier, rc, time.time() - t0))
        return rc
    if cmd == "extra":
        name = sys.argv[2]
        tier = sys.argv[sys.argv.index("--tier") + 1] if "--tier" in sys.argv else "quick"
        import fam_extra
        t0 = time.time()
        try:
            rc = fam_extra.check(name, tier)
        except Broken as e:
            print("BROKEN extra=%s %s" % (name, str(e)[:6000]))
            rc = 2
        finally:
            vlib.cleanup()
        log("extra %s tier=%s rc=%s wall=%.1fs" % (name, tier, rc, time.time() - t0))
        return rc
    print(__doc__)
    return 2


if __name__ == "__main__":
    sys.exit(main())
