"""C14: ByteStream / ContentAddressableStorage / ActionCache servers and clients."""
import json, os, random, time
import vlib
from vlib import Broken, log
from fam_comp import validate_obs, report


def bs_cfg(part, mut="none", msgs=3, ns="{0, 2}", entries=2, maxops=2, props=True, emit=None, view=True):
    s = "INIT Init\nNEXT Next\n" + ("VIEW View\n" if view else "")
    s += 'CONSTANTS\n Part = "%s"\n Comps = {"identity", "zstd"}\n Ns = %s\n Payloads = {"object", "other"}\n MaxMsgs = %d\n MaxEntries = %d\n Objs = {"p","q"}\n MaxOps = %d\n Mut = "%s"\n' % (
        part, ns, msgs, entries, maxops, mut)
    if props:
        s += "INVARIANTS WriteInv WriteAccepts ReadInv BatchInv\nPROPERTIES PropB2B\n"
    if emit == "case":
        s += "INVARIANTS EmitCase\n" if not props else "INVARIANT EmitCase\n"
    if emit == "script":
        s += "CONSTRAINT EmitScript\n"
    return s


def b2b_steps(hist):
    return [{"op": h["op"], "objs": sorted(h["objs"]), "b0": sorted(h["b0"]), "failing": h["failing"], "res": h["res"], "code": h["code"],
             "b1": sorted(h["b1"]), "missing": sorted(h["missing"])} for h in hist]


def check(pid, tier, replay=None):
    if replay:
        return vlib.replay_observation(pid, "RpcContractTrace", replay)
    t0 = time.time()
    sd = vlib.seed()
    rng = random.Random(sd)
    binary = vlib.go_build_test("rpc")
    work = vlib.scratch("c14")
    quick = tier == "quick"
    states = trans = 0
    details = {"parts": {}, "mutants_killed": {}}
    env = {"RPC_OUT": work, "VERIF_SEED": sd}
    # write: every message sequence within the bounds is checked on the design; all / a seeded sample executed
    wcases = []
    r = vlib.run_tlc("ByteStream", bs_cfg("write", emit="case"), raw_sink=lambda m, raw: wcases.append(raw), timeout=3000)
    vlib.require_model_ok(r, "ByteStream write")
    states += r.distinct
    trans += r.generated
    details["parts"]["write"] = [{"bounds": "<=3 messages, object of 0 or 2 units", "states": r.distinct, "cases": len(wcases)}]
    if not quick:
        big = []
        rb = vlib.run_tlc("ByteStream", bs_cfg("write", msgs=4, ns="{3}", emit="case"), raw_sink=lambda m, raw: big.append(raw) if rng.random() < 0.03 else None, timeout=3400)
        vlib.require_model_ok(rb, "ByteStream write (4 messages)")
        states += rb.distinct
        trans += rb.generated
        details["parts"]["write"].append({"bounds": "<=4 messages, object of 3 units", "states": rb.distinct, "cases_sampled": len(big)})
        wcases += big
    pick = wcases if not quick else rng.sample(wcases, min(9000, len(wcases)))
    wp = os.path.join(work, "wcases.ndjson")
    open(wp, "w").write("\n".join(pick) + "\n")
    rc, out = vlib.run_harness(binary, "TestWrite", dict(env, RPC_CASES=wp), timeout=3400)
    if rc != 0:
        raise Broken("write harness failed:\n" + out[-3000:])
    # read and batch: every case executed
    counts = {"write": len(pick)}
    for part, test, kw in (("read", "TestRead", dict(ns="{0, 1, 3}")), ("batch", "TestBatch", dict(entries=2 if quick else 3))):
        cases = []
        r = vlib.run_tlc("ByteStream", bs_cfg(part, emit="case", **kw), raw_sink=lambda m, raw: cases.append(raw), timeout=3000)
        vlib.require_model_ok(r, "ByteStream " + part)
        states += r.distinct
        trans += r.generated
        details["parts"][part] = {"cases": len(cases)}
        counts[part] = len(cases)
        cp = os.path.join(work, part + "_cases.ndjson")
        open(cp, "w").write("\n".join(cases) + "\n")
        rc, out = vlib.run_harness(binary, test, dict(env, RPC_CASES=cp), timeout=3000)
        if rc != 0:
            raise Broken("%s harness failed:\n%s" % (part, out[-3000:]))
    # back to back
    r = vlib.run_tlc("ByteStream", bs_cfg("b2b", maxops=3 if quick else 4), timeout=3000)
    vlib.require_model_ok(r, "ByteStream b2b")
    states += r.distinct
    trans += r.generated
    hists = []
    rs = vlib.run_tlc("ByteStream", bs_cfg("b2b", maxops=2, props=False, emit="script", view=False), marker_sink=lambda m, o: hists.append(o), timeout=3000)
    if not rs.ok:
        raise Broken("b2b enumeration failed: %s %s" % (rs.violated, rs.error))
    rs = vlib.run_tlc("ByteStream", bs_cfg("b2b", maxops=6, props=False, emit="script", view=False), mode="simulate", sim_num=60 if quick else 1500, sim_depth=8,
                      sim_seed=sd * 29 + 3, workers=1, marker_sink=lambda m, o: hists.append(o), timeout=3000)
    if not rs.ok:
        raise Broken("b2b simulation failed: %s %s" % (rs.violated, rs.error))
    if quick and len(hists) > 1500:
        hists = rng.sample(hists, 1500)
    scripts = [{"id": "b2b/%d" % n, "steps": b2b_steps(h)} for n, h in enumerate(hists)]
    sp = os.path.join(work, "scripts.ndjson")
    vlib.write_ndjson(sp, scripts)
    rc, out = vlib.run_harness(binary, "TestB2B", dict(env, RPC_SCRIPTS=sp), timeout=3400)
    if rc != 0:
        raise Broken("b2b harness failed:\n" + out[-3000:])
    summ = json.load(open(os.path.join(work, "b2b_summary.json")))
    for part, mut in [("write", "first_offset_unchecked"), ("write", "no_offset_check"), ("write", "no_finish_check"), ("write", "zstd_ignores_after_finish"),
                      ("read", "zstd_ignores_offset"), ("batch", "batch_stores_mismatch")]:
        rm = vlib.run_tlc("ByteStream", bs_cfg(part, mut), timeout=900)
        if not rm.violated:
            raise Broken("ByteStream mutant %s not killed" % mut)
        details["mutants_killed"]["%s/%s" % (part, mut)] = rm.violated
    allp = os.path.join(work, "all.ndjson")
    with open(allp, "w") as fh:
        for f in ("write.ndjson", "read.ndjson", "batch.ndjson", "b2b.ndjson"):
            fh.write(open(os.path.join(work, f)).read())
    n_events, rejects, vstates = validate_obs("RpcContractTrace", allp)
    known = vlib.load_known_findings()
    violations = report_with_known(pid, sd, rejects, known)
    if summ["drift"]:
        log("DRIFT property=%s %d of %d back-to-back operations deviate from the design: %s" % (pid, summ["drift"], summ["compared"], json.dumps(summ.get("first_drifts"))[:1500]))
    cov = {"states": states, "transitions": trans, "traces_validated_against_impl": n_events, "cases_executed": counts, "b2b_scripts": len(scripts),
           "design_conformance": {"operations_compared": summ["compared"], "drifted": summ["drift"]}, "model": details,
           "trace_validator_states": vstates, "samples": [json.loads(pick[0]), scripts[0]]}
    vlib.write_evidence(pid, tier, "model_checking", cov, time.time() - t0, violations,
                        ["service methods are driven in-process with scripted streams (Recv returns the case's messages, then EOF or a cancellation error); every ninth orderly write case and all back-to-back scripts run over a real gRPC connection on an in-memory listener",
                         "the back end is a model that stores bytes (with per-object failures and a corrupted-last-byte mode)",
                         "compressed uploads are abstracted to pieces of a zstd stream produced by the klauspost encoder; a corrupted piece is three junk bytes",
                         "stream breakage is modelled at message boundaries; cancellation over the wire is not driven (it races with completion)",
                         "resource-name parsing is covered by C20, not here"])
    return 1 if violations else 0


def report_with_known(pid, sd, rejects, known):
    violations = 0
    for rj in rejects:
        ev = rj["event"]
        path = vlib.save_replay(pid, "s%d_%d" % (sd, violations), {"observation.json": ev})
        violations += 1
        print("VIOLATION property=%s replay=%s" % (pid, path))
        log("  rejected observation: %s" % json.dumps(ev)[:700])
    return violations
