------------------------------ MODULE Authorizing ------------------------------
(***************************************************************************)
(* C18 -- case generator for authorizingBlobAccess and NewAnyAuthorizer:   *)
(* every leaf table over two instance names, `any` nodes of 0-3 members,   *)
(* two-member nodes nested to depth 2, every operation kind.  The invariants state the      *)
(* algebra of `any` that the property relies on.                           *)
(***************************************************************************)
EXTENDS AuthDefs

Names == {"a", "b"}
Verdicts == {"allow", "deny", "err"}
Leaves == {[kind |-> "leaf", tab |-> t] : t \in [Names -> Verdicts]}
Any2(S, T) == {[kind |-> "any", members |-> <<x, y>>] : x \in S, y \in T}
\* `any` of no member, of one member and of three members (the code special-cases 0 and 1, and filters the
\* still-denied names member by member from the second on)
AnyOdd == {[kind |-> "any", members |-> <<>>]} \cup {[kind |-> "any", members |-> <<x>>] : x \in Leaves}
            \cup {[kind |-> "any", members |-> <<x, y, z>>] : x \in Leaves, y \in Leaves, z \in Leaves}
CONSTANT Depth
Deep2 == Leaves \cup Any2(Leaves, Leaves) \cup AnyOdd \cup Any2(Leaves, Any2(Leaves, Leaves)) \cup Any2(Any2(Leaves, Leaves), Leaves)
Trees == IF Depth = 0 THEN Leaves ELSE IF Depth = 1 THEN Leaves \cup Any2(Leaves, Leaves) \cup AnyOdd
         ELSE IF Depth = 2 THEN Deep2
         ELSE Deep2 \cup Any2(Any2(Leaves, Leaves), Any2(Leaves, Leaves))
Ops == {[op |-> "Get", names |-> {"a"}], [op |-> "Comp", names |-> {"a"}], [op |-> "Put", names |-> {"a"}],
        [op |-> "Fm", names |-> {"a"}], [op |-> "Fm", names |-> {"a", "b"}], [op |-> "Fm", names |-> {}]}

VARIABLE case
Init == case \in {[op |-> o.op, names |-> o.names, tree |-> t] : o \in Ops, t \in Trees}
Next == UNCHANGED case

RECURSIVE LeavesOf(_)
LeavesOf(t) == IF t.kind = "leaf" THEN {t} ELSE UNION {LeavesOf(t.members[i]) : i \in 1..Len(t.members)}
\* `any` grants only if some member grants, and grants if some member grants and no member before it failed
AnyAlgebra ==
    \A n \in Names :
        /\ Verdict(case.tree, n) = "allow" => \E l \in LeavesOf(case.tree) : l.tab[n] = "allow"
        /\ (\A l \in LeavesOf(case.tree) : l.tab[n] = "deny") => Verdict(case.tree, n) = "deny"
        /\ (\A l \in LeavesOf(case.tree) : l.tab[n] # "err") =>
              (Verdict(case.tree, n) = "allow" <=> \E l \in LeavesOf(case.tree) : l.tab[n] = "allow")
Emit == PrintT(<<"CASE", ToJson(case)>>)
=============================================================================
