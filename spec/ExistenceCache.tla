---------------------------- MODULE ExistenceCache ----------------------------
(***************************************************************************)
(* C17 (c) -- design specification of digest.ExistenceCache with an LRU or *)
(* FIFO eviction set (pkg/digest/existence_cache.go, pkg/eviction) behind  *)
(* existenceCachingBlobAccess.FindMissing, with a virtual clock and a back *)
(* end whose contents change behind the cache's back.                      *)
(***************************************************************************)
EXTENDS Integers, Sequences, FiniteSets, TLC, Json

CONSTANTS Objs, Size, Duration, MaxOps, MaxTime, Policy, Mut
CONSTANT Rank(_)    \* position of an object in the order of a digest set

VARIABLES ins,      \* cached key -> insertion time
          order,    \* eviction order: sequence of keys, head = next victim
          now, backend, lastSeen, nops, last, hist
vars == <<ins, order, now, backend, lastSeen, nops, last, hist>>

ToSet(s) == {s[i] : i \in 1..Len(s)}
Remove(s, x) == SelectSeq(s, LAMBDA y : y # x)
\* objects are processed in a fixed order (the order of a digest set)
RECURSIVE Ordered(_)
Ordered(S) == IF S = {} THEN <<>> ELSE LET x == CHOOSE x \in S : \A y \in S : Rank(x) <= Rank(y) IN <<x>> \o Ordered(S \ {x})

Fresh(k) == k \in DOMAIN ins /\ (IF Mut = "compare_reversed" THEN ins[k] <= now - Duration ELSE ins[k] >= now - Duration)

\* RemoveExisting: cached-and-fresh keys are touched (LRU: moved to the tail)
RECURSIVE TouchAll(_, _)
TouchAll(ord, ks) == IF ks = <<>> THEN ord
                     ELSE TouchAll(IF Policy = "LRU" THEN Append(Remove(ord, Head(ks)), Head(ks)) ELSE ord, Tail(ks))

\* Add: one key at a time, evicting the head when the cache is full
RECURSIVE AddAll(_, _, _)
AddAll(i, ord, ks) ==
    IF ks = <<>> THEN [ins |-> i, order |-> ord]
    ELSE LET k == Head(ks)
             full == Cardinality(DOMAIN i) >= Size
             i1 == IF full THEN [x \in DOMAIN i \ {Head(ord)} |-> i[x]] ELSE i
             o1 == IF full THEN Tail(ord) ELSE ord
             i2 == [x \in DOMAIN i1 \cup {k} |-> IF x = k THEN now ELSE i1[x]]
             o2 == IF k \in DOMAIN i1 THEN o1 ELSE Append(o1, k) IN
         AddAll(i2, o2, Tail(ks))

Fm(S) ==
    /\ nops < MaxOps /\ nops' = nops + 1
    /\ LET cachedFresh == {k \in S : Fresh(k)}
           maybe == S \ cachedFresh
           missing == IF Mut = "cache_missing" THEN {} ELSE maybe \ backend
           present == IF Mut = "cache_missing" THEN maybe ELSE maybe \cap backend
           ord1 == TouchAll(order, Ordered(cachedFresh))
           a == AddAll(ins, ord1, Ordered(present)) IN
       /\ ins' = a.ins /\ order' = a.order
       /\ lastSeen' = [x \in DOMAIN lastSeen \cup (maybe \cap backend) |-> IF x \in maybe \cap backend THEN now ELSE lastSeen[x]]
       /\ last' = [op |-> "fm", t |-> now, objs |-> S, backendPresent |-> backend, reportedMissing |-> missing,
                   askedBackend |-> maybe, hidden |-> cachedFresh]
       /\ hist' = Append(hist, last')
    /\ UNCHANGED <<now, backend>>

Advance(d) == /\ now + d <= MaxTime /\ now' = now + d /\ nops < MaxOps
              /\ last' = [op |-> "advance", t |-> now + d] /\ hist' = Append(hist, last')
              /\ UNCHANGED <<ins, order, backend, lastSeen, nops>>
Lose(x) == /\ x \in backend /\ backend' = backend \ {x} /\ nops < MaxOps
           /\ last' = [op |-> "lose", obj |-> x, t |-> now] /\ hist' = Append(hist, last')
           /\ UNCHANGED <<ins, order, now, lastSeen, nops>>

Init == /\ ins = <<>> /\ order = <<>> /\ now = 0 /\ backend \in SUBSET Objs /\ lastSeen = <<>> /\ nops = 0
        /\ last = [op |-> "init"] /\ hist = <<[op |-> "init", t |-> 0, objs |-> backend]>>
Next == (\E S \in SUBSET Objs : S # {} /\ Fm(S)) \/ (\E d \in 1..(Duration + 1) : Advance(d)) \/ (\E x \in Objs : Lose(x))
Spec == Init /\ [][Next]_vars
View == <<ins, order, now, backend, lastSeen, nops>>

\* an object is answered "present" from the cache only if the back end reported it present within the duration
NeverStale ==
    last'.op = "fm" => \A x \in last'.hidden : x \in DOMAIN lastSeen /\ last'.t - lastSeen[x] <= Duration
PropNeverStale == [][NeverStale]_vars
Bounded == Cardinality(DOMAIN ins) <= Size /\ ToSet(order) = DOMAIN ins /\ Len(order) = Cardinality(DOMAIN ins)
EmitScript == (nops = MaxOps) => PrintT(<<"SCRIPT", ToJson(hist)>>)
=============================================================================
