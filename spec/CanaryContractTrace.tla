------------------------- MODULE CanaryContractTrace -------------------------
(***************************************************************************)
(* Contract monitor for executions of the real readCanaryingBlobAccess     *)
(* (beyond the listed properties; design: ReadCanary.tla).  Events, in the *)
(* order the harness's cooperative scheduler produced them:                *)
(*   Reset   [duration, maxSize]                                           *)
(*   Decide  [c, name, to ("replica" | "source"), t]   Get() returned      *)
(*   Answer  [c, name, infra, t]    the replica's answer was consumed      *)
(*   Finish  [c, ok, sourceHas]     the read completed                     *)
(*   Panic                                                                 *)
(***************************************************************************)
EXTENDS Integers, Sequences, FiniteSets, TLC, Json
Trace == ndJsonDeserialize("trace.ndjson")
VARIABLES l, s
Ev == Trace[l]
Get0(f, x, d) == IF x \in DOMAIN f THEN f[x] ELSE d
Put0(f, x, v) == [y \in DOMAIN f \cup {x} |-> IF y = x THEN v ELSE f[y]]
S0 == [duration |-> 0, maxSize |-> 0,
       atReplica |-> <<>>,   \* client -> [name, canary, others (names looked up since)] of the request currently at the replica
       failedAt |-> <<>>,    \* name -> [t, others]: time of the last infrastructure failure, names decided since
       okAt |-> <<>>]        \* name -> time of the last answer without infrastructure failure
TInit == l = 1 /\ s = S0
Reset == Ev.ev = "Reset" /\ s' = [S0 EXCEPT !.duration = Ev.duration, !.maxSize = Ev.maxSize]
Decide ==
    /\ Ev.ev = "Decide"
    /\ LET n == Ev.name
           f == Get0(s.failedAt, n, [t |-> -1, others |-> {}])
           \* the entry recording the failure may have been evicted once more than maxSize other names were looked up
           evictable == Cardinality(f.others) > s.maxSize
           fresh == n \in DOMAIN s.okAt /\ Ev.t < s.okAt[n] + s.duration /\ (f.t < 0 \/ s.okAt[n] >= f.t)
           \* canaries for this name whose cache entry can neither have been evicted nor overwritten by another answer yet
           canaries == {s.atReplica[c].name : c \in {x \in DOMAIN s.atReplica : s.atReplica[x].canary /\ ~s.atReplica[x].disturbed /\ Cardinality(s.atReplica[x].others) <= s.maxSize}} IN
       /\ Ev.to = "replica" =>
            \* after an infrastructure failure nothing is sent to the replica for that name until Duration has passed
            /\ (f.t >= 0 /\ ~(n \in DOMAIN s.okAt /\ s.okAt[n] >= f.t)) => (Ev.t >= f.t + s.duration \/ evictable)
            \* without a fresh positive verdict at most one request (the canary) is at the replica per name
            /\ ~fresh => n \notin canaries
       /\ s' = [s EXCEPT !.atReplica = LET upd == [x \in DOMAIN @ |-> IF @[x].name # n THEN [@[x] EXCEPT !.others = @ \cup {n}] ELSE @[x]] IN
                                        IF Ev.to = "replica" THEN Put0(upd, Ev.c, [name |-> n, canary |-> ~fresh, others |-> {}, disturbed |-> FALSE]) ELSE upd,
                         !.failedAt = [x \in DOMAIN @ |-> IF x # n THEN [@[x] EXCEPT !.others = @ \cup {n}] ELSE @[x]]]
Answer ==
    /\ Ev.ev = "Answer" /\ Ev.c \in DOMAIN s.atReplica
    \* recording the answer looks the name up as well (and may evict other entries)
    /\ LET n == Ev.name
           rest == [x \in DOMAIN s.atReplica \ {Ev.c} |-> IF s.atReplica[x].name # n THEN [s.atReplica[x] EXCEPT !.others = @ \cup {n}]
                                                                ELSE [s.atReplica[x] EXCEPT !.disturbed = TRUE]]   \* its entry is overwritten by this answer
           fa == [x \in DOMAIN s.failedAt |-> IF x # n THEN [s.failedAt[x] EXCEPT !.others = @ \cup {n}] ELSE s.failedAt[x]] IN
       s' = [s EXCEPT !.atReplica = rest,
                      !.failedAt = IF Ev.infra THEN Put0(fa, n, [t |-> Ev.t, others |-> {}]) ELSE fa,
                      !.okAt = IF Ev.infra THEN @ ELSE Put0(@, n, Ev.t)]
Finish ==
    /\ Ev.ev = "Finish"
    /\ Ev.sourceHas => Ev.ok          \* a replica outage never fails a read the source can serve
    /\ s' = s
TNext == /\ l <= Len(Trace) /\ l' = l + 1 /\ (Reset \/ Decide \/ Answer \/ Finish)
TSpec == TInit /\ [][TNext]_<<l, s>>
Accepted == TLCGet("stats").diameter - 1 = Len(Trace)
=============================================================================
