------------------------------- MODULE CloneMux -------------------------------
(***************************************************************************)
(* C15 -- design specification of stream clones: the rendezvous in         *)
(* casClonedBuffer.toChunkReader (cas_cloned_buffer.go:47-84) and          *)
(* multiplexedChunkReader (multiplexed_chunk_reader.go).  N consumers hold *)
(* clones of one buffer; each, in its own goroutine, obtains the shared    *)
(* chunk reader and then calls Read any number of times and Close once     *)
(* (Discard = obtain + Close).  The underlying source is a script of       *)
(* chunks followed by EOF or an error.                                     *)
(***************************************************************************)
EXTENDS Integers, Sequences, FiniteSets, TLC, Json

CONSTANTS Consumers,   \* e.g. {"c1","c2","c3"}
          Script,      \* sequence of chunks (strings) the source delivers
          EndsWithError,
          Mut

VARIABLES remaining,   \* casClonedBuffer.consumersRemaining
          obtWaiting,  \* consumers blocked in toChunkReader
          mux,         \* "none" | "live"
          pending,     \* multiplexedChunkReader.pendingConsumers
          rdWaiting,   \* consumers blocked in Read (in arrival order)
          pos,         \* next item of the script
          srcClosed,   \* number of Close() calls on the source
          srcReadsAfterClose,
          st,          \* consumer -> "new" | "obtaining" | "ready" | "reading" | "closed"
          got,         \* consumer -> sequence of results observed
          panic,
          hist         \* script for the harness: sequence of [c, op]

vars == <<remaining, obtWaiting, mux, pending, rdWaiting, pos, srcClosed, srcReadsAfterClose, st, got, panic, hist>>

N == Cardinality(Consumers)
Item(i) == IF i <= Len(Script) THEN Script[i] ELSE IF EndsWithError THEN "ERR" ELSE "EOF"
Terminal(x) == x \in {"EOF", "ERR"}

Init ==
    /\ remaining = N /\ obtWaiting = {} /\ mux = "none" /\ pending = 0 /\ rdWaiting = <<>>
    /\ pos = 1 /\ srcClosed = 0 /\ srcReadsAfterClose = 0
    /\ st = [c \in Consumers |-> "new"] /\ got = [c \in Consumers |-> <<>>]
    /\ panic = FALSE /\ hist = <<>>

\* r.r.Read() and distribution to the waiting consumers
ReadAndShare(continues) ==
    LET x == Item(pos) IN
    /\ pos' = IF Terminal(x) THEN pos ELSE pos + 1
    /\ srcReadsAfterClose' = IF srcClosed > 0 THEN srcReadsAfterClose + 1 ELSE srcReadsAfterClose
    /\ got' = [c \in Consumers |-> IF \E i \in 1..Len(rdWaiting) : rdWaiting[i] = c THEN Append(got[c], x) ELSE got[c]]
    /\ st' = [c \in Consumers |-> IF \E i \in 1..Len(rdWaiting) : rdWaiting[i] = c THEN "ready" ELSE st[c]]
    /\ pending' = IF Mut = "rearm_wrong" THEN N ELSE Len(rdWaiting) + continues
    /\ rdWaiting' = <<>>

\* toChunkReader(): the last consumer to arrive creates the multiplexed reader
Obtain(c) ==
    /\ st[c] = "new"
    /\ hist' = Append(hist, [c |-> c, op |-> "obtain"])
    /\ remaining' = remaining - 1
    /\ IF remaining - 1 = 0
       THEN /\ mux' = "live" /\ pending' = 1 + Cardinality(obtWaiting)
            /\ st' = [x \in Consumers |-> IF x = c \/ x \in obtWaiting THEN "ready" ELSE st[x]]
            /\ obtWaiting' = {}
       ELSE /\ obtWaiting' = obtWaiting \cup {c} /\ st' = [st EXCEPT ![c] = "obtaining"]
            /\ UNCHANGED <<mux, pending>>
    /\ UNCHANGED <<rdWaiting, pos, srcClosed, srcReadsAfterClose, got, panic>>

Read(c) ==
    /\ st[c] = "ready"
    /\ (IF got[c] = <<>> THEN TRUE ELSE ~Terminal(got[c][Len(got[c])]))   \* a consumer stops reading after EOF / an error
    /\ hist' = Append(hist, [c |-> c, op |-> "read"])
    /\ IF pending <= 0 THEN panic' = TRUE /\ UNCHANGED <<remaining, obtWaiting, mux, pending, rdWaiting, pos, srcClosed, srcReadsAfterClose, st, got>>
       ELSE IF pending - 1 = 0
       THEN \* this consumer performs the read on behalf of everybody
            LET x == Item(pos) IN
            /\ pos' = IF Terminal(x) THEN pos ELSE pos + 1
            /\ srcReadsAfterClose' = IF srcClosed > 0 THEN srcReadsAfterClose + 1 ELSE srcReadsAfterClose
            /\ got' = [k \in Consumers |-> IF k = c \/ \E i \in 1..Len(rdWaiting) : rdWaiting[i] = k THEN Append(got[k], x) ELSE got[k]]
            /\ st' = [k \in Consumers |-> IF \E i \in 1..Len(rdWaiting) : rdWaiting[i] = k THEN "ready" ELSE st[k]]
            /\ pending' = IF Mut = "rearm_wrong" THEN N ELSE Len(rdWaiting) + 1
            /\ rdWaiting' = <<>>
            /\ UNCHANGED <<remaining, obtWaiting, mux, srcClosed, panic>>
       ELSE /\ pending' = pending - 1
            /\ rdWaiting' = Append(rdWaiting, c)
            /\ st' = [st EXCEPT ![c] = "reading"]
            /\ UNCHANGED <<remaining, obtWaiting, mux, pos, srcClosed, srcReadsAfterClose, got, panic>>

Close(c) ==
    /\ st[c] = "ready"
    /\ hist' = Append(hist, [c |-> c, op |-> "close"])
    /\ IF pending <= 0 THEN panic' = TRUE /\ UNCHANGED <<remaining, obtWaiting, mux, pending, rdWaiting, pos, srcClosed, srcReadsAfterClose, st, got>>
       ELSE IF pending - 1 > 0
       THEN /\ pending' = pending - 1 /\ st' = [st EXCEPT ![c] = "closed"]
            /\ UNCHANGED <<remaining, obtWaiting, mux, rdWaiting, pos, srcClosed, srcReadsAfterClose, got, panic>>
       ELSE IF rdWaiting = <<>> \/ Mut = "close_while_waiting"
       THEN /\ srcClosed' = srcClosed + 1 /\ pending' = 0 /\ st' = [st EXCEPT ![c] = "closed"]
            /\ UNCHANGED <<remaining, obtWaiting, mux, rdWaiting, pos, srcReadsAfterClose, got, panic>>
       ELSE \* the last arriver closes: it reads on behalf of the consumers that are waiting
            LET x == Item(pos) IN
            /\ pos' = IF Terminal(x) THEN pos ELSE pos + 1
            /\ srcReadsAfterClose' = IF srcClosed > 0 THEN srcReadsAfterClose + 1 ELSE srcReadsAfterClose
            /\ got' = [k \in Consumers |-> IF \E i \in 1..Len(rdWaiting) : rdWaiting[i] = k THEN Append(got[k], x) ELSE got[k]]
            /\ st' = [k \in Consumers |-> IF k = c THEN "closed" ELSE IF \E i \in 1..Len(rdWaiting) : rdWaiting[i] = k THEN "ready" ELSE st[k]]
            /\ pending' = Len(rdWaiting)
            /\ rdWaiting' = <<>>
            /\ UNCHANGED <<remaining, obtWaiting, mux, srcClosed, panic>>

Next == \E c \in Consumers : Obtain(c) \/ Read(c) \/ Close(c)
Spec == Init /\ [][Next]_vars
View == <<remaining, obtWaiting, mux, pending, rdWaiting, pos, srcClosed, srcReadsAfterClose, st, got, panic>>

AllClosed == \A c \in Consumers : st[c] = "closed"
IsPrefix(p, q) == Len(p) <= Len(q) /\ SubSeq(q, 1, Len(p)) = p

NoPanic == ~panic
\* every consumer that reads sees a prefix of one and the same sequence
Agreement == \A a, b \in Consumers : IsPrefix(got[a], got[b]) \/ IsPrefix(got[b], got[a])
SameAsSource == \A c \in Consumers : \A i \in 1..Len(got[c]) : got[c][i] = Item(i)
\* the source is closed exactly once, when the last consumer is done, and never used afterwards
ClosedOnce == /\ srcClosed <= 1 /\ srcReadsAfterClose = 0
              /\ (AllClosed <=> srcClosed = 1)
\* nobody blocks forever: as long as a consumer is not closed, somebody can take a step
NoDeadlock == ~AllClosed => ENABLED Next

EmitScript == AllClosed => PrintT(<<"SCRIPT", ToJson(hist)>>)
=============================================================================
