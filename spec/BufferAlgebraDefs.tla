--------------------------- MODULE BufferAlgebraDefs ---------------------------
(***************************************************************************)
(* C15 -- vocabulary and contract of the buffer algebra (see               *)
(* BufferAlgebra.tla): what every consumer of a term observes.             *)
(***************************************************************************)
EXTENDS Integers, Sequences, FiniteSets, TLC, Json

Bases == {"cas_slice", "cas_reader", "cas_chunk", "cas_reader_bad", "cas_reader_ioerr", "validated_slice", "validated_readerat", "error"}
Ops == {"CloneStream", "CloneCopy", "WithTaskOK", "WithTaskFail", "WithHandler"}
Methods == {"GetSizeBytes", "ToByteSlice", "IntoWriter", "ToReader", "ToChunkReader", "ReadAt", "Discard", "CloneStreamBoth", "CloneCopyBoth"}

GoodBase(b) == b \in {"cas_slice", "cas_reader", "cas_chunk", "validated_slice", "validated_readerat"}
\* the error a consumer of the base's data gets
BaseError(b) == CASE b = "cas_reader_bad" -> "InvalidArgument"     \* checksum mismatch of user-provided data
                  [] b = "cas_reader_ioerr" -> "Aborted"            \* injected I/O error of the source
                  [] b = "error" -> "NotFound"                      \* buffer in a known error state
                  [] OTHER -> ""
TaskError == "Unavailable"


\* outcome of consuming the chain's buffer after the first n operations: a failed task turns good
\* data into that task's error; when the data is bad as well, either error may be reported
OutcomeAfter(t, n) ==
    LET failed == \E i \in 1..n : t.ops[i] = "WithTaskFail" IN
    IF ~GoodBase(t.base) THEN [res |-> "ERR", code |-> BaseError(t.base),
                               codes |-> {BaseError(t.base)} \cup (IF failed THEN {TaskError} ELSE {})]
    ELSE IF failed THEN [res |-> "ERR", code |-> TaskError, codes |-> {TaskError}]
    ELSE [res |-> "DATA", code |-> "OK", codes |-> {"OK"}]

\* positions of the clone operations: each hands a clone to a side consumer
SidePositions(t) == {i \in 1..Len(t.ops) : t.ops[i] \in {"CloneStream", "CloneCopy"}}

Expected(t) ==
    [main |-> IF t.method = "GetSizeBytes"
              THEN (IF t.base = "error" THEN [res |-> "ERR", code |-> "NotFound", codes |-> {"NotFound"}] ELSE [res |-> "SIZE", code |-> "OK", codes |-> {"OK"}])
              ELSE IF t.method = "Discard" THEN [res |-> "DISCARDED", code |-> "OK", codes |-> {"OK"}]
              ELSE OutcomeAfter(t, Len(t.ops)),
     sides |-> [i \in SidePositions(t) |-> OutcomeAfter(t, i)]]

=============================================================================
