------------------------------ MODULE HierStore ------------------------------
(***************************************************************************)
(* C10 -- design specification of the hierarchical CAS access              *)
(* (pkg/blobstore/local/hierarchical_cas_blob_access.go) over the same     *)
(* block map as LocalStore.tla.  Every object has one canonical index      *)
(* entry (no instance name) and one lookup entry per instance name it was  *)
(* uploaded under; reads consult the lookup entries of all ancestors of    *)
(* the reader's instance name, least specific first.                       *)
(*                                                                         *)
(* One action per harness scheduling step, exactly as in LocalStore.tla.   *)
(***************************************************************************)
EXTENDS BlockMap, TLC, Json

CONSTANTS Clients, Digests, Names, MaxOps, Mut, OpKinds
CONSTANTS DSize(_),        \* digest -> size in units
          Ancestors(_)     \* name -> sequence of names, least specific first, ending with the name itself

VARIABLES S, exts, index, pins, ops, nops, goodPut, granted, done, hist
vars == <<S, exts, index, pins, ops, nops, goodPut, granted, done, hist>>

MaxAbs == 12
NoLoc == [abs |-> -1, off |-> -1, size |-> -1]
Canon(d) == <<d, "*">>
Lk(d, n) == <<d, n>>
IKeys == {Canon(d) : d \in Digests} \cup {Lk(d, n) : d \in Digests, n \in Names}
IsAnc(i, j) == \E k \in 1..Len(Ancestors(j)) : Ancestors(j)[k] = i
CanSee(d, j) == \E i \in granted[d] : IsAnc(i, j)

Idle == [t |-> "", d |-> "", name |-> "", pc |-> "", src |-> -1, off |-> -1, dabs |-> -1, doff |-> -1, bad |-> "", lk |-> "", mode |-> ""]

ContentAt(E, abs, off, size) ==
    LET exact == {e \in E : e.abs = abs /\ e.off = off /\ e.size = size} IN
    IF \E e \in exact : e.st = "ok" THEN (CHOOSE e \in exact : e.st = "ok").cid ELSE "MIX"

Unpin(P, Sx, abs) ==
    LET P2 == [P EXCEPT ![abs] = @ - 1] IN
    IF P2[abs] = 0 /\ abs \in Sx.zomb
    THEN <<P2, [Sx EXCEPT !.zomb = @ \ {abs}, !.free = IF @ >= 0 THEN @ + 1 ELSE @]>>
    ELSE <<P2, Sx>>

Newer(a, b) == a.abs > b.abs \/ (a.abs = b.abs /\ a.off > b.off)
IndexPut(ix, Sx, k, loc) ==
    IF ix[k] # NoLoc /\ Resolves(Sx, ix[k].abs) /\ ~Newer(loc, ix[k]) THEN ix ELSE [ix EXCEPT ![k] = loc]
Lookup(ix, Sx, k) == IF ix[k] # NoLoc /\ Resolves(Sx, ix[k].abs) THEN ix[k] ELSE NoLoc

\* getLeastSpecificLookupEntry: [key, loc] of the first ancestor that has an entry
LeastSpecific(ix, Sx, d, j) ==
    LET anc == IF Mut = "string_prefix" THEN Ancestors(j) ELSE Ancestors(j)
        hits == {k \in 1..Len(anc) : Lookup(ix, Sx, Lk(d, anc[k])) # NoLoc} IN
    IF hits = {} THEN [name |-> "", loc |-> NoLoc]
    ELSE LET k == CHOOSE k \in hits : \A m \in hits : k <= m IN
         [name |-> anc[k], loc |-> Lookup(ix, Sx, Lk(d, anc[k]))]

Completion(c, o, res, what) == [p |-> c, op |-> o.t, k |-> o.d, inst |-> o.name, res |-> res, what |-> what, valid |-> o.bad = ""]
Record(step, comps) == done' = comps /\ hist' = Append(hist, [step |-> step, exp |-> comps])
StartStep(c, op, d, n, extra) == [do |-> "start", p |-> c, op |-> op, k |-> d, inst |-> n] @@ extra
RelStep(l, n) == [do |-> "rel", l |-> l, n |-> n]

(***************************************************************************)
(* Put                                                                     *)
(***************************************************************************)
PutStart(c, d, n, bad) ==
    /\ ops[c] = Idle /\ nops < MaxOps
    /\ (IF bad = "" THEN "Put" ELSE "BadPut") \in OpKinds
    /\ nops' = nops + 1
    /\ LET o == [Idle EXCEPT !.t = "Put", !.d = d, !.name = n, !.bad = bad]
           cl == Lookup(index, S, Canon(d)) IN
       IF cl # NoLoc /\ ~NeedsRefresh(S, cl.abs)
       THEN \* the object already exists under some name: only validate what the client sends
            /\ ops' = [ops EXCEPT ![c] = [o EXCEPT !.pc = "src", !.mode = "exists"]]
            /\ goodPut' = IF bad = "" THEN goodPut \cup {d} ELSE goodPut
            /\ UNCHANGED <<S, exts, index, pins, granted>>
            /\ Record(StartStep(c, "Put", d, n, [bad |-> bad]), <<>>)
       ELSE LET r == FindBlockWithSpace(S, DSize(d), pins) IN
            IF r.idx < 0
            THEN /\ S' = [r.s EXCEPT !.err = ""]
                 /\ UNCHANGED <<exts, index, pins, ops, goodPut, granted>>
                 /\ Record(StartStep(c, "Put", d, n, [bad |-> bad]), <<Completion(c, o, "Unavailable", "")>>)
            ELSE LET abs == r.s.released + r.idx
                     off == r.s.used[r.idx + 1] IN
                 /\ abs <= MaxAbs
                 /\ S' = [r.s EXCEPT !.used[r.idx + 1] = @ + DSize(d)]
                 /\ exts' = exts \cup {[abs |-> abs, off |-> off, size |-> DSize(d), cid |-> IF bad = "" THEN d ELSE "X", st |-> "w"]}
                 /\ pins' = [pins EXCEPT ![abs] = @ + 1]
                 /\ ops' = [ops EXCEPT ![c] = [o EXCEPT !.pc = "src", !.mode = "new", !.dabs = abs, !.doff = off]]
                 /\ goodPut' = IF bad = "" THEN goodPut \cup {d} ELSE goodPut
                 /\ index' = IF Mut = "grant_at_alloc" THEN IndexPut(index, r.s, Lk(d, n), [abs |-> abs, off |-> off, size |-> DSize(d)]) ELSE index
                 /\ UNCHANGED granted
                 /\ Record(StartStep(c, "Put", d, n, [bad |-> bad]), <<>>)

PutFinish(c) ==
    LET o == ops[c]
        res0 == IF o.bad = "error" THEN "Aborted" ELSE IF o.bad # "" THEN "InvalidArgument" ELSE "OK" IN
    /\ o.t = "Put" /\ o.pc = "src"
    /\ IF o.mode = "exists"
       THEN LET cl == Lookup(index, S, Canon(o.d))
                valid == o.bad = "" \/ Mut = "grant_without_validation"
                res == IF ~valid THEN res0 ELSE IF cl = NoLoc THEN "Internal" ELSE "OK" IN
            /\ index' = IF res = "OK" THEN IndexPut(index, S, Lk(o.d, o.name), cl) ELSE index
            /\ granted' = IF res = "OK" /\ o.bad = "" THEN [granted EXCEPT ![o.d] = @ \cup {o.name}] ELSE granted
            /\ UNCHANGED <<S, exts, pins>>
            /\ Record(RelStep("src:" \o c, -1), <<Completion(c, o, res, "")>>)
       ELSE LET ext == CHOOSE e \in exts : e.abs = o.dabs /\ e.off = o.doff /\ e.st = "w"
                u == Unpin(pins, S, o.dabs)
                S1 == u[2]
                gone == o.dabs < S1.tbr
                res == IF o.bad # "" THEN res0 ELSE IF gone THEN "Internal" ELSE "OK"
                loc == [abs |-> o.dabs, off |-> o.doff, size |-> DSize(o.d)] IN
            /\ exts' = (exts \ {ext}) \cup {[ext EXCEPT !.st = IF o.bad = "" THEN "ok" ELSE "bad"]}
            /\ pins' = u[1] /\ S' = S1
            /\ index' = IF res = "OK" THEN IndexPut(IndexPut(index, S1, Canon(o.d), loc), S1, Lk(o.d, o.name), loc) ELSE index
            /\ granted' = IF res = "OK" THEN [granted EXCEPT ![o.d] = @ \cup {o.name}] ELSE granted
            /\ Record(RelStep("src:" \o c, -1), <<Completion(c, o, res, "")>>)
    /\ ops' = [ops EXCEPT ![c] = Idle]
    /\ UNCHANGED <<nops, goodPut>>

(***************************************************************************)
(* Get                                                                     *)
(***************************************************************************)
GetStart(c, d, j) ==
    /\ ops[c] = Idle /\ nops < MaxOps /\ "Get" \in OpKinds
    /\ nops' = nops + 1
    /\ LET e == LeastSpecific(index, S, d, j)
           o == [Idle EXCEPT !.t = "Get", !.d = d, !.name = j] IN
       IF e.loc = NoLoc
       THEN /\ UNCHANGED <<pins, ops>>
            /\ Record(StartStep(c, "Get", d, j, [hold |-> TRUE]), <<Completion(c, o, "NotFound", "")>>)
       ELSE IF ~NeedsRefresh(S, e.loc.abs)
       THEN /\ pins' = [pins EXCEPT ![e.loc.abs] = @ + 1]
            /\ ops' = [ops EXCEPT ![c] = [o EXCEPT !.pc = "consume", !.src = e.loc.abs, !.off = e.loc.off]]
            /\ Record(StartStep(c, "Get", d, j, [hold |-> TRUE]), <<>>)
       ELSE /\ UNCHANGED pins
            /\ ops' = [ops EXCEPT ![c] = [o EXCEPT !.pc = "upgrade"]]
            /\ Record(StartStep(c, "Get", d, j, [hold |-> TRUE]), <<>>)
    /\ UNCHANGED <<S, exts, index, goodPut, granted>>

GetUpgrade(c) ==
    LET o == ops[c]
        step == RelStep("yield:" \o c \o ":hier.Get.upgrade", 1) IN
    /\ o.t = "Get" /\ o.pc = "upgrade"
    /\ LET e == LeastSpecific(index, S, o.d, o.name) IN
       IF e.loc = NoLoc
       THEN /\ ops' = [ops EXCEPT ![c] = Idle]
            /\ UNCHANGED <<S, exts, index, pins>>
            /\ Record(step, <<Completion(c, o, "NotFound", "")>>)
       ELSE IF ~NeedsRefresh(S, e.loc.abs)
       THEN /\ pins' = [pins EXCEPT ![e.loc.abs] = @ + 1]
            /\ ops' = [ops EXCEPT ![c] = [o EXCEPT !.pc = "consume", !.src = e.loc.abs, !.off = e.loc.off]]
            /\ UNCHANGED <<S, exts, index>>
            /\ Record(step, <<>>)
       ELSE LET cl == Lookup(index, S, Canon(o.d))
                \* the key that is (re)written: the entry that was found -- the mutant uses the reader's own name
                wkey == IF Mut = "refresh_most_specific" THEN Lk(o.d, o.name)
                        ELSE IF Mut = "refresh_root" THEN Lk(o.d, Ancestors(o.name)[1]) ELSE Lk(o.d, e.name) IN
            IF cl # NoLoc /\ ~NeedsRefresh(S, cl.abs)
            THEN \* syncFromCanonicalEntry: point the lookup entry at the canonical copy
                 /\ index' = IndexPut(index, S, wkey, cl)
                 /\ pins' = [pins EXCEPT ![cl.abs] = @ + 1]
                 /\ ops' = [ops EXCEPT ![c] = [o EXCEPT !.pc = "consume", !.src = cl.abs, !.off = cl.off]]
                 /\ UNCHANGED <<S, exts>>
                 /\ Record(step, <<>>)
            ELSE LET P1 == [pins EXCEPT ![e.loc.abs] = @ + 1]
                     r == FindBlockWithSpace(S, e.loc.size, P1) IN
                 IF r.idx < 0
                 THEN \* the allocation for the refresh failed: the buffer that was opened is released again
                      LET u == Unpin(P1, [r.s EXCEPT !.err = ""], e.loc.abs) IN
                      /\ pins' = u[1] /\ S' = u[2]
                      /\ ops' = [ops EXCEPT ![c] = Idle]
                      /\ UNCHANGED <<exts, index>>
                      /\ Record(step, <<Completion(c, o, "Unavailable", "")>>)
                 ELSE LET dabs == r.s.released + r.idx
                          doff == r.s.used[r.idx + 1] IN
                      /\ dabs <= MaxAbs
                      /\ S' = [r.s EXCEPT !.used[r.idx + 1] = @ + e.loc.size]
                      /\ exts' = exts \cup {[abs |-> dabs, off |-> doff, size |-> e.loc.size, cid |-> o.d, st |-> "w"]}
                      /\ pins' = [P1 EXCEPT ![dabs] = @ + 1]
                      /\ ops' = [ops EXCEPT ![c] = [o EXCEPT !.pc = "rconsume", !.src = e.loc.abs, !.off = e.loc.off,
                                                             !.dabs = dabs, !.doff = doff, !.lk = IF Mut = "refresh_most_specific" THEN o.name
                                                                                            ELSE IF Mut = "refresh_root" THEN Ancestors(o.name)[1] ELSE e.name]]
                      /\ UNCHANGED index
                      /\ Record(step, <<>>)
    /\ UNCHANGED <<nops, goodPut, granted>>

GetConsume(c) ==
    LET o == ops[c] IN
    /\ o.t = "Get" /\ o.pc = "consume"
    /\ LET what == ContentAt(exts, o.src, o.off, DSize(o.d))
           u == Unpin(pins, S, o.src) IN
       /\ pins' = u[1] /\ S' = u[2]
       /\ ops' = [ops EXCEPT ![c] = Idle]
       /\ Record(RelStep("consume:" \o c, 1), <<Completion(c, o, IF what = o.d THEN "Data" ELSE "Integrity", IF what = o.d THEN what ELSE "")>>)
    /\ UNCHANGED <<exts, index, nops, goodPut, granted>>

GetRConsume(c) ==
    LET o == ops[c] IN
    /\ o.t = "Get" /\ o.pc = "rconsume"
    /\ LET what == ContentAt(exts, o.src, o.off, DSize(o.d))
           good == what = o.d
           ext == CHOOSE e \in exts : e.abs = o.dabs /\ e.off = o.doff /\ e.st = "w"
           u1 == Unpin(pins, S, o.dabs)
           u2 == Unpin(u1[1], u1[2], o.src)
           S2 == u2[2]
           gone == o.dabs < S2.tbr
           loc == [abs |-> o.dabs, off |-> o.doff, size |-> DSize(o.d)] IN
       /\ exts' = (exts \ {ext}) \cup {[ext EXCEPT !.st = IF good THEN "ok" ELSE "bad"]}
       /\ pins' = u2[1] /\ S' = S2
       /\ index' = IF good /\ ~gone THEN IndexPut(IndexPut(index, S2, Canon(o.d), loc), S2, Lk(o.d, o.lk), loc) ELSE index
       /\ ops' = [ops EXCEPT ![c] = Idle]
       /\ Record(RelStep("consume:" \o c, 1),
                 <<Completion(c, o, IF ~good THEN "Integrity" ELSE IF gone THEN "Internal" ELSE "Data", IF good /\ ~gone THEN what ELSE "")>>)
    /\ UNCHANGED <<nops, goodPut, granted>>

(***************************************************************************)
(* FindMissing (one digest)                                                *)
(***************************************************************************)
FmStart(c, d, j) ==
    /\ ops[c] = Idle /\ nops < MaxOps /\ "Fm" \in OpKinds
    /\ nops' = nops + 1
    /\ LET e == LeastSpecific(index, S, d, j)
           o == [Idle EXCEPT !.t = "Fm", !.d = d, !.name = j] IN
       IF e.loc = NoLoc
       THEN /\ ops' = ops /\ Record(StartStep(c, "Fm", d, j, [ks |-> <<d>>]), <<Completion(c, o, "OK", {d})>>)
       ELSE IF ~NeedsRefresh(S, e.loc.abs)
       THEN /\ ops' = ops /\ Record(StartStep(c, "Fm", d, j, [ks |-> <<d>>]), <<Completion(c, o, "OK", {})>>)
       ELSE /\ ops' = [ops EXCEPT ![c] = [o EXCEPT !.pc = "fmrefresh"]]
            /\ Record(StartStep(c, "Fm", d, j, [ks |-> <<d>>]), <<>>)
    /\ UNCHANGED <<S, exts, index, pins, goodPut, granted>>

FmRefresh(c) ==
    LET o == ops[c]
        step == RelStep("yield:" \o c \o ":hier.FindMissing.refresh", 1) IN
    /\ o.t = "Fm" /\ o.pc = "fmrefresh"
    /\ ops' = [ops EXCEPT ![c] = Idle]
    /\ LET e == LeastSpecific(index, S, o.d, o.name) IN
       IF e.loc = NoLoc
       THEN /\ UNCHANGED <<S, exts, index, pins>> /\ Record(step, <<Completion(c, o, "OK", {o.d})>>)
       ELSE IF ~NeedsRefresh(S, e.loc.abs)
       THEN /\ UNCHANGED <<S, exts, index, pins>> /\ Record(step, <<Completion(c, o, "OK", {})>>)
       ELSE LET cl == Lookup(index, S, Canon(o.d)) IN
            IF cl # NoLoc /\ ~NeedsRefresh(S, cl.abs)
            THEN /\ index' = IndexPut(index, S, Lk(o.d, e.name), cl)
                 /\ UNCHANGED <<S, exts, pins>> /\ Record(step, <<Completion(c, o, "OK", {})>>)
            ELSE LET P1 == [pins EXCEPT ![e.loc.abs] = @ + 1]
                     r == FindBlockWithSpace(S, e.loc.size, P1) IN
                 IF r.idx < 0
                 THEN LET u == Unpin(P1, [r.s EXCEPT !.err = ""], e.loc.abs) IN
                      /\ S' = u[2] /\ UNCHANGED <<exts, index, pins>>
                      /\ Record(step, <<Completion(c, o, "Unavailable", {})>>)
                 ELSE LET dabs == r.s.released + r.idx
                          doff == r.s.used[r.idx + 1]
                          S1 == [r.s EXCEPT !.used[r.idx + 1] = @ + e.loc.size]
                          what == ContentAt(exts, e.loc.abs, e.loc.off, e.loc.size)
                          good == what = o.d
                          u == Unpin(P1, S1, e.loc.abs)
                          S3 == u[2]
                          gone == dabs < S3.tbr
                          nloc == [abs |-> dabs, off |-> doff, size |-> e.loc.size] IN
                      /\ dabs <= MaxAbs
                      /\ S' = S3 /\ pins' = pins
                      /\ exts' = exts \cup {[abs |-> dabs, off |-> doff, size |-> e.loc.size, cid |-> o.d, st |-> IF good THEN "ok" ELSE "bad"]}
                      /\ index' = IF good /\ ~gone THEN IndexPut(IndexPut(index, S3, Canon(o.d), nloc), S3, Lk(o.d, e.name), nloc) ELSE index
                      /\ Record(step, <<Completion(c, o, IF ~good THEN "Integrity" ELSE IF gone THEN "Internal" ELSE "OK", {})>>)
    /\ UNCHANGED <<nops, goodPut, granted>>

(***************************************************************************)
Init ==
    /\ S = InitStore /\ exts = {}
    /\ index = [k \in IKeys |-> NoLoc]
    /\ pins = [a \in 0..MaxAbs |-> 0]
    /\ ops = [c \in Clients |-> Idle]
    /\ nops = 0 /\ goodPut = {} /\ granted = [d \in Digests |-> {}]
    /\ done = <<>> /\ hist = <<>>

Next ==
    \E c \in Clients :
        \/ \E d \in Digests, n \in Names, bad \in {"", "content", "short", "error"} : PutStart(c, d, n, bad)
        \/ PutFinish(c)
        \/ \E d \in Digests, n \in Names : GetStart(c, d, n) \/ FmStart(c, d, n)
        \/ GetUpgrade(c) \/ GetConsume(c) \/ GetRConsume(c) \/ FmRefresh(c)

Spec == Init /\ [][Next]_vars
LiveExts == {e \in exts : e.abs >= S.released \/ e.abs \in S.zomb}
View == <<S, LiveExts, index, pins, ops, nops, goodPut, granted>>

(***************************************************************************)
(* Properties                                                              *)
(***************************************************************************)
Range(s) == {s[i] : i \in 1..Len(s)}
\* C10: an object is returned or reported present under J only if a successful upload of it was
\* made under a component-wise prefix of J
Visibility ==
    \A x \in Range(done) :
        /\ (x.op = "Get" /\ x.res = "Data") => (x.what = x.k /\ CanSee(x.k, x.inst))
        /\ (x.op = "Fm" /\ x.res = "OK" /\ x.what = {}) => CanSee(x.k, x.inst)
        /\ x.res = "Integrity" => FALSE
        /\ (x.op = "Put" /\ x.res = "OK") => x.valid      \* only complete, valid content is acknowledged
PropVisibility == [][Visibility']_vars
\* no lookup entry exists under a name that no successful upload covers: refresh, synchronisation
\* with the canonical entry and rotation never widen the set of names that can see an object
NoWidening ==
    \A d \in Digests, n \in Names : Lookup(index, S, Lk(d, n)) # NoLoc => CanSee(d, n)
\* every resolvable entry points at the object's own bytes
EntriesIntact ==
    \A k \in IKeys : LET loc == Lookup(index, S, k) IN loc # NoLoc => ContentAt(exts, loc.abs, loc.off, loc.size) = k[1]
C04Quiescent == (\A c \in Clients : ops[c] = Idle) => (S.zomb = {} /\ \A a \in 0..MaxAbs : pins[a] = 0)

EmitScript == (nops = MaxOps /\ \A c \in Clients : ops[c] = Idle) => PrintT(<<"SCRIPT", ToJson(hist)>>)
=============================================================================
