----------------------------- MODULE SectorWriter -----------------------------
(***************************************************************************)
(* Design specification of the sector sharing of                           *)
(* blockDeviceBackedBlock.Put / blockDeviceBackedBlockWriter               *)
(* (pkg/blobstore/local/block_device_backed_block_allocator.go:228-415):   *)
(* objects are allocated back to back inside a block; a sector that holds  *)
(* the end of one object and the start of the next is written through an   *)
(* in-memory image shared by both writers (sharedSector), every other      *)
(* sector directly.  Writers run concurrently and receive their data in    *)
(* arbitrary chunks.  C01 depends on it: whatever the interleaving and the *)
(* chunking, once a writer has flushed, its object is on the device and    *)
(* stays there, also while its neighbours are still writing.               *)
(*                                                                         *)
(* A byte is <<object, index>>; <<0, 0>> is "never written".  Each Write() *)
(* call is one action (the first-sector part runs under the shared         *)
(* sector's lock, the rest touches sectors nobody else writes).            *)
(***************************************************************************)
EXTENDS Integers, Sequences, FiniteSets, TLC, Json
Mod(a, b) == a - b * (a \div b)
CONSTANTS S,        \* sector size in bytes
          NObj, MaxSize,   \* number of objects; their sizes range over 1..MaxSize (chosen in Init)
          MaxChunk, Mut
VARIABLE Sizes             \* sizes of the objects, in allocation order (constant during a behaviour)
N == NObj
Objs == 1..N
RECURSIVE Start(_)
Start(k) == IF k = 1 THEN 0 ELSE Start(k - 1) + Sizes[k - 1]
End(k) == Start(k) + Sizes[k]
Zero == <<0, 0>>
ZeroSector == [i \in 1..S |-> Zero]
\* Put(): which sharedSector OBJECT an allocation ends in.  A new one is created when the allocation ends inside
\* a sector, unless the object lies entirely inside the sector it started in (then that sector's image is kept).
RECURSIVE SharedAtEnd(_)
SharedAtEnd(k) ==
    IF Mod(End(k), S) = 0 THEN 0
    ELSE LET prev == IF k = 1 THEN 0 ELSE SharedAtEnd(k - 1)
             firstOff == Mod(Start(k), S)
             sectorCount == (firstOff + Sizes[k]) \div S IN
         IF prev = 0 \/ (sectorCount > 0 /\ Mut # "reuse_shared_sector") THEN k ELSE prev
FirstShared(k) == IF k = 1 THEN 0 ELSE SharedAtEnd(k - 1)

VARIABLES device,   \* sector number -> sector image on the device
          img,      \* shared sector object -> its in-memory image
          w,        \* object -> writer state [sent, first, firstOff, partial, sector, flushed]
          steps
vars == <<device, img, w, steps, Sizes>>
Sectors == 0..((NObj * MaxSize + S - 1) \div S)
Byte(k, i) == <<k, i>>
Data(k, from, n) == [j \in 1..n |-> Byte(k, from + j)]    \* bytes from+1 .. from+n of object k

Init ==
    /\ Sizes \in [1..NObj -> 1..MaxSize]
    /\ device = [s \in Sectors |-> ZeroSector]
    /\ img = [k \in Objs |-> ZeroSector]
    /\ w = [k \in Objs |-> [sent |-> 0, first |-> FirstShared(k), firstOff |-> Mod(Start(k), S), partial |-> <<>>,
                            sector |-> Start(k) \div S, flushed |-> FALSE]]
    /\ steps = <<>>

Overlay(image, off, bytes) == [i \in 1..S |-> IF i > off /\ i <= off + Len(bytes) THEN bytes[i - off] ELSE image[i]]

\* blockDeviceBackedBlockWriter.Write(p), p = the next n bytes of object k
WriteChunk(k, n) ==
    LET st == w[k]
        p0 == Data(k, st.sent, n)
        \* 1. the first, shared sector
        c1 == IF st.first # 0 THEN (IF n < S - st.firstOff THEN n ELSE S - st.firstOff) ELSE 0
        img1 == IF st.first # 0 THEN [img EXCEPT ![st.first] = Overlay(@, st.firstOff, SubSeq(p0, 1, c1))] ELSE img
        firstDone == st.first # 0 /\ st.firstOff + c1 = S
        dev1 == IF firstDone THEN [device EXCEPT ![st.sector] = img1[st.first]] ELSE device
        first1 == IF firstDone THEN 0 ELSE st.first
        sec1 == IF firstDone THEN st.sector + 1 ELSE st.sector
        p1 == SubSeq(p0, c1 + 1, n)
        stop == st.first # 0 /\ ~firstDone
        \* 2. a partial middle sector
        c2 == IF ~stop /\ Len(st.partial) > 0 THEN (IF Len(p1) < S - Len(st.partial) THEN Len(p1) ELSE S - Len(st.partial)) ELSE 0
        part2 == st.partial \o SubSeq(p1, 1, c2)
        partDone == ~stop /\ Len(st.partial) > 0 /\ Len(part2) = S
        dev2 == IF partDone THEN [dev1 EXCEPT ![sec1] = part2] ELSE dev1
        sec2 == IF partDone THEN sec1 + 1 ELSE sec1
        part2b == IF partDone THEN <<>> ELSE part2
        p2 == SubSeq(p1, c2 + 1, Len(p1))
        stop2 == stop \/ (Len(st.partial) > 0 /\ ~partDone)
        \* 3. whole sectors directly
        whole == IF stop2 THEN 0 ELSE Len(p2) \div S
        dev3 == [s \in Sectors |-> IF ~stop2 /\ s >= sec2 /\ s < sec2 + whole THEN SubSeq(p2, (s - sec2) * S + 1, (s - sec2 + 1) * S) ELSE dev2[s]]
        sec3 == sec2 + whole
        p3 == IF stop2 THEN <<>> ELSE SubSeq(p2, whole * S + 1, Len(p2))
        \* 4. the rest becomes the new partial sector
        part4 == IF stop2 THEN part2b ELSE part2b \o p3 IN
    /\ ~st.flushed /\ n >= 1 /\ n <= MaxChunk /\ st.sent + n <= Sizes[k]
    /\ img' = img1 /\ device' = dev3
    /\ w' = [w EXCEPT ![k] = [@ EXCEPT !.sent = st.sent + n, !.first = first1, !.firstOff = st.firstOff + c1, !.partial = part4, !.sector = sec3]]
    /\ steps' = Append(steps, [k |-> k, n |-> n]) /\ UNCHANGED Sizes

\* flush(): the trailing partial sector is combined with the image shared with the next object
Flush(k) ==
    LET st == w[k]
        last == SharedAtEnd(k) IN
    /\ ~st.flushed /\ st.sent = Sizes[k]
    /\ IF last = 0 THEN img' = img /\ device' = device
       ELSE LET im == Overlay(img[last], 0, st.partial) IN img' = [img EXCEPT ![last] = im] /\ device' = [device EXCEPT ![st.sector] = im]
    /\ w' = [w EXCEPT ![k].flushed = TRUE]
    /\ steps' = Append(steps, [k |-> k, n |-> 0]) /\ UNCHANGED Sizes

Next == \E k \in Objs : Flush(k) \/ \E n \in 1..MaxChunk : WriteChunk(k, n)
Spec == Init /\ [][Next]_vars
View == <<device, img, w, Sizes>>

\* the bytes of object k as the device holds them
OnDevice(k) == [i \in 1..Sizes[k] |-> LET pos == Start(k) + i - 1 IN device[pos \div S][Mod(pos, S) + 1]]
\* once flushed, an object is on the device and stays there, whatever its neighbours do
Durable == \A k \in Objs : w[k].flushed => OnDevice(k) = Data(k, 0, Sizes[k])
AllDone == \A k \in Objs : w[k].flushed
EmitScript == AllDone => PrintT(<<"SCRIPT", ToJson([s |-> S, sizes |-> Sizes, steps |-> steps])>>)
=============================================================================
