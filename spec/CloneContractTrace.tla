------------------------- MODULE CloneContractTrace -------------------------
(***************************************************************************)
(* C15 -- contract monitor for observations of real stream clones ("Mux")  *)
(* and of terms of the buffer algebra ("Alg").                             *)
(***************************************************************************)
EXTENDS BufferAlgebraDefs

Trace == ndJsonDeserialize("trace.ndjson")
VARIABLE l
Ev == Trace[l]

IsPrefix(p, q) == Len(p) <= Len(q) /\ SubSeq(q, 1, Len(p)) = p

MuxOK(o) ==
    LET cs == DOMAIN o.got
        \* what the validated source delivers: all chunks then EOF, or -- if the source fails at
        \* its end -- all chunks but the last (withheld, C09) and then the error, which is sticky
        n == IF o.err /\ Len(o.chunks) > 0 THEN Len(o.chunks) - 1 ELSE Len(o.chunks)
        item(i) == IF i <= n THEN o.chunks[i] ELSE IF o.err THEN "ERR" ELSE "EOF" IN
    /\ o.panic = "" /\ ~o.deadlock                       \* no panic, nobody blocks forever
    \* every consumer that reads sees the same sequence: the source's
    /\ \A c \in cs : \A i \in 1..Len(o.got[c]) : o.got[c][i] = item(i)
    /\ \A a, b \in cs : IsPrefix(o.got[a], o.got[b]) \/ IsPrefix(o.got[b], o.got[a])
    \* once everybody is done the source has been closed exactly once
    /\ (\A c \in cs : o.closed[c]) => o.srcClosed = 1
    /\ o.srcClosed <= 1

AlgOK(o) ==
    LET t == [base |-> o.base, ops |-> o.ops, method |-> o.method]
        e == Expected(t)
        after == OutcomeAfter(t, Len(t.ops)) IN
    /\ o.panic = "" /\ ~o.hang
    /\ IF o.method = "GetSizeBytes"
       THEN \/ o.res = "SIZE"
            \/ (o.res = "ERR" /\ after.res = "ERR" /\ o.code \in after.codes)
       ELSE o.res = e.main.res /\ o.code \in e.main.codes
    \* completion (the data, to the end) is not reported before the attached tasks have finished; an error may be
    \* reported earlier (another task or the data failed), and discarding a clone does not wait for tasks that
    \* were attached below the point of cloning while other clones are still being read
    /\ o.res = "DATA" => o.tasksPending = 0
    \* every side consumer observes what the chain was worth when its clone was made
    /\ \A i \in 1..Len(o.sides) :
          LET sd == o.sides[i] IN
          IF sd.small THEN sd.res = "ERR"        \* turned away by its own size limit (or by the chain's error): never data
          ELSE IF sd.pos <= Len(t.ops)
          THEN sd.pos \in SidePositions(t) /\ sd.res = OutcomeAfter(t, sd.pos).res /\ sd.code \in OutcomeAfter(t, sd.pos).codes
          ELSE sd.res = after.res /\ sd.code \in after.codes
    /\ Len(o.sides) = Cardinality(SidePositions(t)) + (IF o.method \in {"CloneStreamBoth", "CloneCopyBoth"} THEN 1 ELSE 0)
    \* the underlying source is released exactly once on every path
    /\ o.srcClosed = 1
    \* every error handler is told exactly once that the buffer is finished
    /\ \A i \in 1..Len(o.handlersDone) : o.handlersDone[i] = 1

TInit == l = 1
TNext == /\ l <= Len(Trace) /\ l' = l + 1
         /\ \/ Ev.ev = "Mux" /\ MuxOK(Ev)
            \/ Ev.ev = "Alg" /\ AlgOK(Ev)
TSpec == TInit /\ [][TNext]_l
Accepted == TLCGet("stats").diameter - 1 = Len(Trace)
=============================================================================
