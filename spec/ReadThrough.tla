------------------------------ MODULE ReadThrough ------------------------------
(***************************************************************************)
(* C17 (a) -- design specification of readCachingBlobAccess and            *)
(* readFallbackBlobAccess (single-shot replicator selector, local          *)
(* replicator) over two back ends that are sets of objects, with a fault   *)
(* plan per back end and operation (see Mirrored.tla).                     *)
(***************************************************************************)
EXTENDS ReadThroughDefs
CONSTANTS Objs, MaxOps, Kind, Repl, Mut
VARIABLES F, Sl, nops, last, hist
vars == <<F, Sl, nops, last, hist>>
Plans == {<<>>, <<"fail">>, <<"ok", "fail">>}
Fails(plan, n) == n <= Len(plan) /\ plan[n] = "fail"

R(res, code, f1, s1, failed, missing) == [res |-> res, code |-> code, f1 |-> f1, s1 |-> s1, failed |-> failed, missing |-> missing]

DoGet(d, pf, ps) ==
    IF Fails(pf, 1) THEN R("ERR", "Unavailable", F, Sl, {"F"}, {})
    ELSE IF d \in F THEN R("Data", "OK", F, Sl, {}, {})
    ELSE IF Mut = "no_fallback" THEN R("ERR", "NotFound", F, Sl, {}, {})
    ELSE IF Fails(ps, 1) THEN R("ERR", "Unavailable", F, Sl, {"S"}, {})
    ELSE IF d \notin Sl THEN R("ERR", "NotFound", F, Sl, {}, {})
    ELSE IF Repl = "noop" \/ Mut = "no_copy" THEN R("Data", "OK", F, Sl, {}, {})
    ELSE IF Fails(pf, 2) THEN R("ERR", "Unavailable", F, Sl, {"F"}, {})
    ELSE R("Data", "OK", F \cup {d}, Sl, {}, {})

DoPut(d, pf, ps) ==
    IF Kind = "caching"
    THEN (IF Mut = "put_to_fast" THEN (IF Fails(pf, 1) THEN R("ERR", "Unavailable", F, Sl, {"F"}, {}) ELSE R("OK", "OK", F \cup {d}, Sl, {}, {}))
          ELSE IF Fails(ps, 1) THEN R("ERR", "Unavailable", F, Sl, {"S"}, {}) ELSE R("OK", "OK", F, Sl \cup {d}, {}, {}))
    ELSE IF Fails(pf, 1) THEN R("ERR", "Unavailable", F, Sl, {"F"}, {}) ELSE R("OK", "OK", F \cup {d}, Sl, {}, {})

DoFm(S, pf, ps) ==
    IF Kind = "caching"
    THEN IF Fails(ps, 1) THEN R("ERR", "Unavailable", F, Sl, {"S"}, {}) ELSE R("OK", "OK", F, Sl, {}, S \ Sl)
    ELSE IF Fails(pf, 1) THEN R("ERR", "Unavailable", F, Sl, {"F"}, {})
    ELSE IF Fails(ps, 1) THEN R("ERR", "Unavailable", F, Sl, {"S"}, {})
    ELSE LET onlyS == (S \ F) \cap Sl IN
         IF onlyS # {} /\ Repl # "noop" /\ (Fails(ps, 2) \/ Fails(pf, 2)) THEN R("ERR", "Unavailable", F, Sl, {"F", "S"}, {})
         ELSE R("OK", "OK", IF Repl = "noop" THEN F ELSE F \cup onlyS, Sl, {}, IF Mut = "missing_from_primary" THEN S \ F ELSE S \ (F \cup Sl))

Obs(op, S, pf, ps, r) ==
    [kind |-> Kind, op |-> op, objs |-> S, repl |-> Repl, f0 |-> F, s0 |-> Sl, f1 |-> r.f1, s1 |-> r.s1, failed |-> r.failed,
     res |-> r.res, code |-> r.code, missing |-> r.missing, planF |-> pf, planS |-> ps]
Step(op, S, pf, ps, r) ==
    /\ nops < MaxOps /\ nops' = nops + 1 /\ F' = r.f1 /\ Sl' = r.s1
    /\ last' = Obs(op, S, pf, ps, r) /\ hist' = Append(hist, last')
Init == F \in SUBSET Objs /\ Sl \in SUBSET Objs /\ nops = 0 /\ last = [op |-> "Init"] /\ hist = <<>>
Next == \E pf \in Plans, ps \in Plans :
          \/ \E d \in Objs : Step("Get", {d}, pf, ps, DoGet(d, pf, ps))
          \/ \E d \in Objs : Step("Put", {d}, pf, ps, DoPut(d, pf, ps))
          \/ \E S \in SUBSET Objs : S # {} /\ Step("Fm", S, pf, ps, DoFm(S, pf, ps))
Spec == Init /\ [][Next]_vars
View == <<F, Sl, nops>>
PropContract == [][ReadThroughOK(last')]_vars
EmitScript == (nops = MaxOps) => PrintT(<<"SCRIPT", ToJson(hist)>>)
=============================================================================
