---------------------------- MODULE ErrorRetryDefs ----------------------------
(***************************************************************************)
(* C16 -- what a consumer of a buffer with an error handler observes.      *)
(*                                                                         *)
(* A case is the object's length n and a chain of segments.  Segment 1 is  *)
(* the original buffer, segment i+1 the replacement the handler supplies   *)
(* for the i-th error it is offered (when the chain is exhausted the       *)
(* handler translates the error instead).  Every segment is a stream of    *)
(* the complete object that                                                *)
(*    "ok"     delivers everything,                                        *)
(*    "fail"   fails with an I/O error after delivering cnt bytes,         *)
(*    "errbuf" is a buffer in a known error state,                         *)
(*    "wrong"  delivers n bytes that differ from the object in the last.   *)
(* Streaming consumption (reader, chunk reader, writer) resumes a          *)
(* replacement at the offset reached so far; whole-object consumption      *)
(* (ToByteSlice, ReadAt) retries the operation on the replacement.         *)
(***************************************************************************)
EXTENDS Integers, Sequences, FiniteSets, TLC, Json

Min(a, b) == IF a < b THEN a ELSE b
Max(a, b) == IF a > b THEN a ELSE b

\* Streaming from start offset off.  Result: res, number of bytes delivered from off, number of
\* errors offered to the handler, whether bytes of a "wrong" segment were delivered.
RECURSIVE StreamWalk(_, _, _, _, _, _)
StreamWalk(n, segs, i, pos, errs, tainted) ==
    LET sg == segs[i] IN
    IF sg.kind = "ok" \/ (sg.kind = "wrong" /\ pos = n)
    THEN [res |-> IF tainted THEN "MISMATCH" ELSE "OK", pos |-> n, errs |-> errs, tainted |-> tainted]
    ELSE IF sg.kind = "wrong"
    THEN [res |-> "MISMATCH", pos |-> n, errs |-> errs, tainted |-> TRUE]
    ELSE LET reach == IF sg.kind = "fail" THEN Max(pos, Min(sg.cnt, n)) ELSE pos IN
         \* the segment fails once its own stream is exhausted up to cnt (possibly while the
         \* consumer's offset is still being skipped)
         IF i = Len(segs)
         THEN [res |-> "TRANSLATED", pos |-> reach, errs |-> errs + 1, tainted |-> tainted]
         ELSE StreamWalk(n, segs, i + 1, reach, errs + 1, tainted)

\* Whole-object consumption: every attempt starts from the beginning.
RECURSIVE WholeWalk(_, _, _, _)
WholeWalk(n, segs, i, errs) ==
    LET sg == segs[i] IN
    IF sg.kind = "ok" THEN [res |-> "OK", errs |-> errs]
    ELSE IF i = Len(segs) THEN [res |-> "TRANSLATED", errs |-> errs + 1]
    ELSE WholeWalk(n, segs, i + 1, errs + 1)   \* a replacement's own validation failure is an error like any other

\* an offset read still streams (and validates) the object from its beginning; the offset only
\* determines which part is handed to the consumer
ExpectedStream(n, segs, off) == StreamWalk(n, segs, 1, 0, 0, FALSE)
ExpectedWhole(n, segs) == WholeWalk(n, segs, 1, 0)
=============================================================================
