-------------------------- MODULE AuthContractTrace --------------------------
(* C18 -- contract monitor for observations of the real authorizing decorator. *)
EXTENDS AuthDefs
Trace == ndJsonDeserialize("trace.ndjson")
VARIABLE l
Ev == Trace[l]
ToSet(q) == {q[i] : i \in 1..Len(q)}
TInit == l = 1
TNext == /\ l <= Len(Trace) /\ Ev.ev = "Auth" /\ l' = l + 1
         /\ AuthOK([op |-> Ev.op, names |-> ToSet(Ev.names), tree |-> Ev.tree, res |-> Ev.res, code |-> Ev.code,
                    backendCalls |-> Ev.backendCalls, srcClosed |-> Ev.srcClosed])
TSpec == TInit /\ [][TNext]_l
Accepted == TLCGet("stats").diameter - 1 = Len(Trace)
=============================================================================
