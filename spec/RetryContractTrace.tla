------------------------- MODULE RetryContractTrace -------------------------
(***************************************************************************)
(* C16 -- contract monitor for observations of real buffers with error     *)
(* handlers: what was delivered, the status code, how often OnError and    *)
(* Done were called; judged against ErrorRetryDefs.tla.                    *)
(***************************************************************************)
EXTENDS ErrorRetryDefs

Trace == ndJsonDeserialize("trace.ndjson")
VARIABLE l
Ev == Trace[l]

ObsOK(o) ==
    LET streaming == o.method \in {"ToReader", "ToChunkReader", "IntoWriter"}
        off == IF o.method = "ToChunkReader" THEN o.a1 ELSE 0
        e == IF streaming THEN ExpectedStream(o.n, o.segs, off)
             ELSE [res |-> ExpectedWhole(o.n, o.segs).res, errs |-> ExpectedWhole(o.n, o.segs).errs, pos |-> o.n, tainted |-> FALSE] IN
    /\ o.res \in {"OK", "ERR"}          \* never a panic, never a hang
    \* success exactly when the chain can deliver the object; then each byte exactly once, in order
    /\ (o.res = "OK") <=> (e.res = "OK")
    /\ o.res = "OK" => o.delivered = o.n - off /\ o.intact
    \* otherwise an error: the handler's translation, or a validation failure of the stitched parts
    /\ o.res = "ERR" =>
          /\ e.res = "TRANSLATED" => o.code = "Unavailable"
          /\ e.res = "MISMATCH" => o.code = "InvalidArgument"
          /\ o.delivered <= Max(0, e.pos - off)
          /\ ~e.tainted => o.intact      \* what was delivered is a prefix of the object: nothing duplicated, nothing skipped
    \* every I/O error was offered to the handler exactly once; the handler was told once that the buffer is finished
    /\ o.onErrors = e.errs
    /\ o.done = 1

TInit == l = 1
TNext == l <= Len(Trace) /\ Ev.ev = "Retry" /\ ObsOK(Ev) /\ l' = l + 1
TSpec == TInit /\ [][TNext]_l
Accepted == TLCGet("stats").diameter - 1 = Len(Trace)
=============================================================================
