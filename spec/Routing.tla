-------------------------------- MODULE Routing --------------------------------
(***************************************************************************)
(* C19 -- case generator: trie operation sequences, demultiplexer          *)
(* configurations x operations, hierarchical placements x operations.      *)
(* The state space is the case list.                                       *)
(***************************************************************************)
EXTENDS RoutingDefs

CONSTANTS Comps, MaxDepth, Family, MaxTrieOps

Names == UNION {[1..k -> Comps] : k \in 0..MaxDepth}
Adds == {<<>>, <<"x">>, <<"x", "y">>}
Objs == {"p", "q"}
Items == {[obj |-> o, name |-> n] : o \in Objs, n \in Names}

TrieOps == {[op |-> "set", name |-> n, v |-> v] : n \in Names, v \in {1, 2}} \cup {[op |-> "remove", name |-> n, v |-> 0] : n \in Names}
\* a name is only removed while it is present
TrieSeqs == {s \in UNION {[1..k -> TrieOps] : k \in 1..MaxTrieOps} :
                \A i \in 1..Len(s) : s[i].op = "remove" => \E e \in TrieAfter(s, i - 1) : e.name = s[i].name}

Pairs == {pq \in Names \X Names : pq[1] # pq[2]}
PrefixCfgs == UNION {{<<[match |-> p, add |-> a, has |-> h]>> : a \in Adds, h \in BOOLEAN} : p \in Names}
                \cup UNION {{<<[match |-> pq[1], add |-> a1, has |-> h1], [match |-> pq[2], add |-> a2, has |-> h2]>> :
                             a1 \in Adds, a2 \in {<<>>, <<"x">>}, h1 \in BOOLEAN, h2 \in BOOLEAN} : pq \in Pairs}
DemuxOps == {[op |-> "Get", items |-> <<i>>] : i \in Items} \cup {[op |-> "Put", items |-> <<i>>] : i \in Items}
              \cup {[op |-> "Fm", items |-> <<i, j>>] : i \in {x \in Items : x.obj = "p"}, j \in {x \in Items : x.obj = "q"}}

Placements == SUBSET {[obj |-> "p", name |-> n] : n \in Names}
HierOps == {[op |-> "Get", items |-> <<[obj |-> "p", name |-> n]>>] : n \in Names}
             \cup {[op |-> "Fm", items |-> <<[obj |-> "p", name |-> n], [obj |-> "p", name |-> m]>>] : n \in Names, m \in Names}

Cases ==
    IF Family = "trie" THEN {[fam |-> "trie", ops |-> s] : s \in TrieSeqs}
    ELSE IF Family = "demux" THEN {[fam |-> "demux", prefixes |-> c, op |-> o.op, items |-> o.items] : c \in PrefixCfgs, o \in DemuxOps}
    ELSE {[fam |-> "hier", placement |-> pl, op |-> o.op, items |-> o.items] : pl \in Placements, o \in HierOps}

VARIABLE case
Init == case \in Cases
Next == UNCHANGED case
\* the longest registered prefix is a registered prefix of the name, and no longer one exists
Sane == \A q \in Names, P \in SUBSET {n \in Names : Len(n) <= 1} :
            LET l == Longest(P, q) IN
            IF l = <<"?">> THEN \A p \in P : ~IsPrefix(p, q)
            ELSE l \in P /\ IsPrefix(l, q) /\ \A p \in P : IsPrefix(p, q) => Len(p) <= Len(l)
Emit == PrintT(<<"CASE", ToJson(case)>>)
=============================================================================
