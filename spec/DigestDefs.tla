------------------------------ MODULE DigestDefs ------------------------------
(***************************************************************************)
(* C20 -- the grammar of ByteStream resource names, of instance names and  *)
(* of digests, and the algebra of digest sets, as the contract for         *)
(* pkg/digest.                                                             *)
(*                                                                         *)
(* A resource name is a sequence of TOKENS joined by "/".  A token is a    *)
(* record [k (class), v (name)]; what matters to the grammar is only what  *)
(* the token IS as a string, which the tables below describe.  Hash tokens *)
(* are named by length and quality: h32 .. h128 (lowercase hex of that     *)
(* length), h10 (too short), H64 (upper case), x64 (a non-hex character).  *)
(***************************************************************************)
EXTENDS Integers, Sequences, FiniteSets, TLC, Json
ToSet(q) == {q[i] : i \in 1..Len(q)}
T(k, v) == [k |-> k, v |-> v]

Reserved == {"blobs", "uploads", "actions", "actionResults", "operations", "capabilities", "compressed-blobs"}
Compressors == {"zstd", "deflate", "brotli"}                 \* every REv2 compressor except identity
ExplicitFns == [sha256tree |-> 64, blake3 |-> 64, gitsha1 |-> 40]   \* functions that are named in the path
InferredFns == [h32 |-> "MD5", h40 |-> "SHA1", h64 |-> "SHA256", h96 |-> "SHA384", h128 |-> "SHA512"]
FnName == [sha256tree |-> "SHA256TREE", blake3 |-> "BLAKE3", gitsha1 |-> "GITSHA1"]
HashLen == [h32 |-> 32, h40 |-> 40, h64 |-> 64, h96 |-> 96, h128 |-> 128, h10 |-> 10, H64 |-> 64, x64 |-> 64]
GoodHash(t) == t.k = "hash" /\ t.v \in {"h32", "h40", "h64", "h96", "h128"}
\* sizes: "ok" must be accepted, "bad" must be rejected, "odd" (explicit plus sign, leading zeros) may go either way
SizeClass == [s0 |-> "ok", s123 |-> "ok", smax |-> "ok", sneg |-> "bad", sabc |-> "bad", sexp |-> "bad", sover |-> "bad", splus |-> "odd", szero7 |-> "odd"]
SizeVal == [s0 |-> "0", s123 |-> "123", smax |-> "9223372036854775807", splus |-> "5", szero7 |-> "7", sneg |-> "", sabc |-> "", sexp |-> "", sover |-> ""]

\* Parse the part after the "blobs" / "compressed-blobs" keyword.  Result: [ok, why] or [ok, fn, hash, size, sizeCls, comp, rest]
ParseTrailer(kw, r, inst) ==
    LET bad(why) == [ok |-> FALSE, why |-> why]
        afterComp == IF kw = "compressed-blobs" THEN Tail(r) ELSE r
        comp == IF kw = "compressed-blobs" THEN r[1].v ELSE "identity" IN
    IF kw = "compressed-blobs" /\ (r = <<>> \/ r[1].v \notin Compressors) THEN bad("unknown compressor")
    ELSE IF afterComp = <<>> THEN bad("truncated")
    ELSE LET explicit == afterComp[1].v \in DOMAIN ExplicitFns
             q == IF explicit THEN Tail(afterComp) ELSE afterComp IN
         IF Len(q) < 2 THEN bad("truncated")
         ELSE LET h == q[1]
                  s == q[2] IN
              IF ~GoodHash(h) THEN bad("bad hash")
              ELSE IF explicit /\ HashLen[h.v] # ExplicitFns[afterComp[1].v] THEN bad("hash length does not fit the function")
              ELSE IF s.k # "size" \/ SizeClass[s.v] = "bad" THEN bad("bad size")
              ELSE [ok |-> TRUE, inst |-> [i \in 1..Len(inst) |-> inst[i].v], comp |-> comp,
                    fn |-> IF explicit THEN FnName[afterComp[1].v] ELSE InferredFns[h.v],
                    hash |-> h.v, size |-> SizeVal[s.v], odd |-> SizeClass[s.v] = "odd", rest |-> SubSeq(q, 3, Len(q))]

First(s, P(_)) == IF \E i \in 1..Len(s) : P(s[i]) THEN CHOOSE i \in 1..Len(s) : P(s[i]) /\ \A j \in 1..(i - 1) : ~P(s[j]) ELSE 0
InstOK(inst) == \A i \in 1..Len(inst) : inst[i].v \notin Reserved

\* ${instance}/blobs/[${fn}/]${hash}/${size}   |   ${instance}/compressed-blobs/${compressor}/[${fn}/]${hash}/${size}
ParseRead(s) ==
    LET i == First(s, LAMBDA t : t.v \in {"blobs", "compressed-blobs"}) IN
    IF i = 0 THEN [ok |-> FALSE, why |-> "no blobs keyword"]
    ELSE IF ~InstOK(SubSeq(s, 1, i - 1)) THEN [ok |-> FALSE, why |-> "reserved keyword in instance name"]
    ELSE ParseTrailer(s[i].v, SubSeq(s, i + 1, Len(s)), SubSeq(s, 1, i - 1))
\* ${instance}/uploads/${uuid}/blobs/...[/${path}]
ParseWrite(s) ==
    LET i == First(s, LAMBDA t : t.v = "uploads") IN
    IF i = 0 THEN [ok |-> FALSE, why |-> "no uploads keyword"]
    ELSE IF Len(s) < i + 2 THEN [ok |-> FALSE, why |-> "truncated"]
    ELSE IF s[i + 2].v \notin {"blobs", "compressed-blobs"} THEN [ok |-> FALSE, why |-> "no blobs keyword after the upload identifier"]
    ELSE IF ~InstOK(SubSeq(s, 1, i - 1)) THEN [ok |-> FALSE, why |-> "reserved keyword in instance name"]
    ELSE ParseTrailer(s[i + 2].v, SubSeq(s, i + 3, Len(s)), SubSeq(s, 1, i - 1))

NonEmpty(s) == SelectSeq(s, LAMBDA t : t.k # "empty")
\* c: [kind, toks]; o: [accepted, inst (seq), fn, hash, size, comp, panic]
PathOK(c, o) ==
    LET s == NonEmpty(c.toks)
        p == IF c.kind = "read" THEN ParseRead(s) ELSE ParseWrite(s)
        strict == p.ok /\ s = c.toks /\ ~p.odd /\ (c.kind = "read" => p.rest = <<>>) IN   \* no redundant slashes, no trailing components on reads
    /\ o.panic = ""
    /\ ~p.ok => ~o.accepted                                   \* malformed input is rejected
    /\ strict => o.accepted                                   \* well-formed input is accepted
    /\ o.accepted => /\ o.inst = p.inst /\ o.fn = p.fn /\ o.hash = p.hash /\ o.size = p.size   \* and parsed into the right digest
                     /\ o.comp = p.comp

\* Instance names.  c: [comps: seq of strings, lead, trail, dbl (redundant slashes)]; o: [accepted, comps, panic]
InstanceOK(c, o) ==
    LET fine == ~c.lead /\ ~c.trail /\ ~c.dbl /\ \A i \in 1..Len(c.comps) : c.comps[i] \notin Reserved IN
    /\ o.panic = ""
    /\ o.accepted <=> fine
    /\ o.accepted => o.comps = c.comps

\* Digest construction.  c: [fn, hash (token name), size]; o: [accepted, panic]
FnLen == [MD5 |-> 32, SHA1 |-> 40, SHA256 |-> 64, SHA384 |-> 96, SHA512 |-> 128, SHA256TREE |-> 64, BLAKE3 |-> 64, GITSHA1 |-> 40]
NewDigestOK(c, o) ==
    /\ o.panic = ""
    \* (function UNKNOWN: the function is inferred from the hash length, as the servers do for old clients)
    /\ o.accepted <=> (/\ c.hash \in {"h32", "h40", "h64", "h96", "h128"} /\ c.size >= 0
                       /\ (c.fn # "UNKNOWN" => HashLen[c.hash] = FnLen[c.fn]))

\* Round trips and keys.  d: [inst (seq), fn, hash ("p" | "q": two different hashes of the function's length), size]
\* o: [proto, compact, readI, readZ, writeI, writeZ (each a digest record again, or [err |-> ..]), ancestors (seq of inst seqs)]
Prefixes(s) == [i \in 1..(Len(s) + 1) |-> SubSeq(s, 1, i - 1)]
RoundTripOK(d, o) ==
    /\ o.panic = ""
    /\ o.proto = d /\ o.compact = d /\ o.readI = d /\ o.readZ = d /\ o.writeI = d /\ o.writeZ = d
    /\ o.compI = "identity" /\ o.compZ = "zstd"
    /\ o.ancestors = Prefixes(d.inst)                        \* exactly the chain of component prefixes
    /\ o.ancestorsSameObject
\* p: [a, b (digests), keyEq (without instance), keyInstEq (with instance)]
KeysOK(p) ==
    /\ p.keyInstEq <=> p.a = p.b
    /\ p.keyEq <=> (p.a.fn = p.b.fn /\ p.a.hash = p.b.hash /\ p.a.size = p.b.size)

\* Sets.  c: [sets: seq of sets of element names, adds: seq of names]; rank: the order of the elements (by their string form)
\* o: [union, onlyA, both, onlyB, nonEmpty, partition (seq of seqs), built (seqs of names), instOf, emptyOnes, rank]
Sorted(q, rank) == \A i \in 1..(Len(q) - 1) : rank[q[i]] < rank[q[i + 1]]
SetsOK(c, o) ==
    LET A == c.sets[1]
        B == IF Len(c.sets) >= 2 THEN c.sets[2] ELSE {} IN
    /\ o.panic = ""
    /\ ToSet(o.union) = UNION ToSet(c.sets) /\ Sorted(o.union, o.rank)
    /\ ToSet(o.onlyA) = A \ B /\ ToSet(o.both) = A \cap B /\ ToSet(o.onlyB) = B \ A
    /\ Sorted(o.onlyA, o.rank) /\ Sorted(o.both, o.rank) /\ Sorted(o.onlyB, o.rank)
    /\ ToSet(o.nonEmpty) = A \ ToSet(o.emptyOnes) /\ Sorted(o.nonEmpty, o.rank)
    /\ ToSet(o.built) = ToSet(c.adds) /\ Sorted(o.built, o.rank)
    /\ UNION {ToSet(o.partition[i]) : i \in 1..Len(o.partition)} = A
    /\ \A i \in 1..Len(o.partition) :
         /\ o.partition[i] # <<>> /\ Sorted(o.partition[i], o.rank)
         /\ \A x, y \in ToSet(o.partition[i]) : o.instOf[x] = o.instOf[y]
         /\ \A j \in 1..Len(o.partition) : i # j => o.instOf[o.partition[i][1]] # o.instOf[o.partition[j][1]]
    /\ o.inputsIntact                                         \* the operands still hold what they held

\* Arbitrary strings.  o: [panic, accepted, stable (formatting the parsed digest and parsing it again gives the same digest)]
FuzzOK(o) == o.panic = "" /\ (o.accepted => o.stable)
=============================================================================
