-------------------------------- MODULE Syncer --------------------------------
(***************************************************************************)
(* C07 -- design specification of the persistence wake-up machinery:       *)
(* the counters and the two notification channels of PersistentBlockList   *)
(* (pkg/blobstore/local/persistent_block_list.go) and the two loops of     *)
(* PeriodicSyncer (periodic_syncer.go), line by line, with time kept as    *)
(* saturating distances so that the state space is finite without          *)
(* bounding the clock.                                                     *)
(*                                                                         *)
(* Environment: upload finalizers (which create epochs under the code's    *)
(* two conditions), PushBack / PopFront of blocks, failures of the data    *)
(* sync and of the state write (finitely many), the passage of time,       *)
(* shutdown.                                                               *)
(***************************************************************************)
EXTENDS Integers, Sequences, FiniteSets, TLC

CONSTANTS Interval,     \* minimumEpochInterval in ticks (>= 1)
          Retry,        \* errorRetryInterval in ticks (>= 1)
          MaxFinalize, MaxPush, MaxPop, MaxFail, AllowShutdown,
          Mut

VARIABLES
    becs,       \* per live block: number of epochs attributed to it (epochCount)
    newest,     \* absolute index of the newest block (-1: none)
    lastEB,     \* epochLastAbsoluteBlockIndex of the newest epoch (-1: none)
    nE,         \* len(epochHashSeeds)
    syncingE, syncedE,
    putCh, relCh,   \* [id, blocking]
    closed,     \* ids of closed channels
    nextId,
    nToRel, releasing, closedW,
    ver,                    \* ghost: version of what a state file would contain (bumped by NotifySyncCompleted and PopFront)
    snapV, stateV,          \* ghost: version captured by GetPersistentState / contained in the last state file written
    pl,         \* put loop: [pc, ch, keep, left (timer ticks left), retry]
    rl,         \* release loop: [pc, ch, retry]
    storeLock,  \* "" | "pl" | "rl"
    sinceSync,  \* ticks since lastSynchronizationTime, saturating at Interval
    sinceStart, \* ghost: ticks since the previous epoch sync started, saturating at Interval (-1: none yet)
    shutdown, panic, tooSoon,
    budget      \* [fin, push, pop, fail]

vars == <<becs, newest, lastEB, nE, syncingE, syncedE, putCh, relCh, closed, nextId, nToRel, releasing, closedW,
          ver, snapV, stateV, pl, rl, storeLock, sinceSync, sinceStart,
          shutdown, panic, tooSoon, budget>>

Max(a, b) == IF a > b THEN a ELSE b
Min(a, b) == IF a < b THEN a ELSE b

(***************************************************************************)
(* notificationChannel                                                     *)
(***************************************************************************)
\* unblock(): returns <<channel, closed set, panicked>>
Unblock(c, cl) ==
    IF c.blocking \/ Mut = "unblock_no_guard"
    THEN <<[c EXCEPT !.blocking = FALSE], cl \cup {c.id}, c.id \in cl>>
    ELSE <<c, cl, FALSE>>
\* block(): returns <<channel, next id>>
Block(c, nid) == IF ~c.blocking THEN <<[id |-> nid, blocking |-> TRUE], nid + 1>> ELSE <<c, nid>>

(***************************************************************************)
(* Environment: the store's side of PersistentBlockList                    *)
(***************************************************************************)
PushBack ==
    /\ budget.push > 0 /\ ~closedW /\ Len(becs) < 3
    /\ becs' = Append(becs, 0) /\ newest' = newest + 1
    /\ budget' = [budget EXCEPT !.push = @ - 1]
    /\ UNCHANGED <<lastEB, nE, syncingE, syncedE, putCh, relCh, closed, nextId, nToRel, releasing, closedW, ver, snapV, stateV, pl, rl, storeLock, sinceSync, sinceStart, shutdown, panic, tooSoon>>

\* finalizer of an upload into the live block with absolute index b (persistent_block_list.go:295-342)
Finalize(b) ==
    /\ budget.fin > 0 /\ ~closedW
    /\ b > newest - Len(becs) /\ b <= newest
    /\ budget' = [budget EXCEPT !.fin = @ - 1]
    /\ IF nE = syncingE \/ lastEB < b
       THEN LET u == Unblock(putCh, closed) IN
            /\ nE' = nE + 1 /\ lastEB' = newest
            /\ becs' = [becs EXCEPT ![Len(becs)] = @ + 1]
            /\ putCh' = u[1] /\ closed' = u[2] /\ panic' = (panic \/ u[3])
       ELSE UNCHANGED <<nE, lastEB, becs, putCh, closed, panic>>
    /\ UNCHANGED <<newest, syncingE, syncedE, relCh, nextId, nToRel, releasing, closedW, ver, snapV, stateV,
                   pl, rl, storeLock, sinceSync, sinceStart, shutdown, tooSoon>>

PopFront ==
    /\ budget.pop > 0 /\ Len(becs) > 1
    /\ budget' = [budget EXCEPT !.pop = @ - 1]
    /\ LET ec == becs[1]
           u == Unblock(relCh, closed)
           nE1 == nE - ec
           sgE == IF ec >= syncingE THEN 0 ELSE syncingE - ec
           sdE == IF ec >= syncedE THEN 0 ELSE syncedE - ec
           rearm == IF Mut = "pop_rearm_wrong" THEN sdE = 0 ELSE sdE = nE1
           bp == IF rearm THEN Block(putCh, nextId) ELSE <<putCh, nextId>> IN
       /\ becs' = Tail(becs)
       /\ nToRel' = nToRel + 1
       /\ relCh' = u[1] /\ closed' = u[2] /\ panic' = (panic \/ u[3])
       /\ nE' = nE1 /\ syncingE' = sgE /\ syncedE' = sdE
       /\ putCh' = bp[1] /\ nextId' = bp[2]
       /\ ver' = ver + 1
    /\ UNCHANGED <<newest, lastEB, releasing, closedW, snapV, stateV, pl, rl, storeLock,
                   sinceSync, sinceStart, shutdown, tooSoon>>

Tick ==
    /\ sinceSync' = Min(Interval, sinceSync + 1)
    /\ sinceStart' = IF sinceStart < 0 THEN sinceStart ELSE Min(Interval, sinceStart + 1)
    /\ pl' = [pl EXCEPT !.left = Max(0, @ - 1), !.retry = Max(0, @ - 1)]
    /\ rl' = [rl EXCEPT !.retry = Max(0, @ - 1)]
    \* time only needs to pass while somebody is waiting for it
    /\ (pl.pc \in {"timer", "dsretry1", "dsretry2", "wretry"} /\ (pl.left > 0 \/ pl.retry > 0)) \/ (rl.pc = "wretry" /\ rl.retry > 0)
    /\ UNCHANGED <<becs, newest, lastEB, nE, syncingE, syncedE, putCh, relCh, closed, nextId, nToRel, releasing, closedW, ver, snapV, stateV, storeLock, shutdown, panic, tooSoon, budget>>

Shutdown ==
    /\ AllowShutdown /\ ~shutdown /\ shutdown' = TRUE
    /\ UNCHANGED <<becs, newest, lastEB, nE, syncingE, syncedE, putCh, relCh, closed, nextId, nToRel, releasing, closedW, ver, snapV, stateV, pl, rl, storeLock, sinceSync, sinceStart, panic, tooSoon, budget>>

(***************************************************************************)
(* writePersistentState(), shared by both loops (periodic_syncer.go:69-91) *)
(***************************************************************************)

\* storeLock.Lock(); RLock; GetPersistentState(); RUnlock
WpsGet(who) ==
    /\ storeLock = "" /\ storeLock' = who
    /\ releasing' = IF Mut = "release_all" THEN releasing ELSE nToRel
    /\ snapV' = ver

\* store.WritePersistentState() succeeded; Lock; NotifyPersistentStateWritten(); Unlock; storeLock.Unlock()
WpsWritten(who) ==
    /\ storeLock = who /\ storeLock' = ""
    /\ LET rel == IF Mut = "release_all" THEN nToRel ELSE releasing
           n1 == nToRel - rel
           b == IF n1 = 0 THEN Block(relCh, nextId) ELSE <<relCh, nextId>> IN
       /\ nToRel' = n1 /\ releasing' = 0
       /\ relCh' = b[1] /\ nextId' = b[2]
    /\ stateV' = snapV

WpsFailed(who) ==
    /\ storeLock = who /\ storeLock' = ""
    /\ budget.fail > 0 /\ budget' = [budget EXCEPT !.fail = @ - 1]

(***************************************************************************)
(* ProcessBlockPut (periodic_syncer.go:142-199)                            *)
(***************************************************************************)
PLFetch ==
    /\ pl.pc = "fetch"
    /\ pl' = [pl EXCEPT !.pc = "sel1", !.ch = putCh.id, !.keep = TRUE]
    /\ UNCHANGED <<becs, newest, lastEB, nE, syncingE, syncedE, putCh, relCh, closed, nextId, nToRel, releasing, closedW, ver, snapV, stateV, rl, storeLock, sinceSync, sinceStart, shutdown, panic, tooSoon, budget>>

\* first select: the channel is already closed -> timer until lastSynchronizationTime + interval
PLSel1 ==
    /\ pl.pc = "sel1"
    /\ pl' = IF pl.ch \in closed
             THEN [pl EXCEPT !.pc = "timer", !.left = IF Mut = "timer_zero" THEN 0 ELSE Interval - sinceSync]
             ELSE [pl EXCEPT !.pc = "sel2"]
    /\ UNCHANGED <<becs, newest, lastEB, nE, syncingE, syncedE, putCh, relCh, closed, nextId, nToRel, releasing, closedW, ver, snapV, stateV, rl, storeLock, sinceSync, sinceStart, shutdown, panic, tooSoon, budget>>

\* second select: wait for the channel or for shutdown
PLSel2 ==
    /\ pl.pc = "sel2"
    /\ \/ /\ pl.ch \in closed /\ pl' = [pl EXCEPT !.pc = "timer", !.left = Interval]
       \/ /\ shutdown /\ pl' = [pl EXCEPT !.pc = "lock", !.keep = FALSE]
    /\ UNCHANGED <<becs, newest, lastEB, nE, syncingE, syncedE, putCh, relCh, closed, nextId, nToRel, releasing, closedW, ver, snapV, stateV, rl, storeLock, sinceSync, sinceStart, shutdown, panic, tooSoon, budget>>

PLTimer ==
    /\ pl.pc = "timer"
    /\ \/ /\ pl.left = 0 /\ pl' = [pl EXCEPT !.pc = "lock"] /\ sinceSync' = 0   \* lastSynchronizationTime = <-t
          \* the minimum epoch interval is kept between the expiries that trigger epoch syncs
          /\ tooSoon' = (tooSoon \/ (sinceStart >= 0 /\ sinceStart < Interval))
          /\ sinceStart' = 0
       \/ /\ shutdown /\ pl' = [pl EXCEPT !.pc = "lock", !.keep = FALSE] /\ sinceSync' = sinceSync
          /\ UNCHANGED <<tooSoon, sinceStart>>
    /\ UNCHANGED <<becs, newest, lastEB, nE, syncingE, syncedE, putCh, relCh, closed, nextId, nToRel, releasing, closedW, ver, snapV, stateV, rl, storeLock, shutdown, panic, budget>>

\* Lock; NotifySyncStarting(false); Unlock
PLSyncStart1 ==
    /\ pl.pc = "lock"
    /\ syncingE' = nE
    /\ pl' = [pl EXCEPT !.pc = "ds1"]
    /\ UNCHANGED <<becs, newest, lastEB, nE, syncedE, putCh, relCh, closed, nextId, nToRel, releasing, closedW, ver, snapV, stateV, rl, storeLock, sinceSync, sinceStart, tooSoon, shutdown, panic, budget>>

PLDataSync(from, to, retrypc) ==
    /\ pl.pc = from
    /\ \/ /\ pl' = [pl EXCEPT !.pc = to] /\ budget' = budget
       \/ /\ budget.fail > 0 /\ budget' = [budget EXCEPT !.fail = @ - 1]
          /\ pl' = [pl EXCEPT !.pc = retrypc, !.retry = Retry]
    /\ UNCHANGED <<becs, newest, lastEB, nE, syncingE, syncedE, putCh, relCh, closed, nextId, nToRel, releasing, closedW, ver, snapV, stateV, rl, storeLock, sinceSync, sinceStart, shutdown, panic, tooSoon>>

PLRetryDone(from, to) ==
    /\ pl.pc = from /\ pl.retry = 0 /\ pl' = [pl EXCEPT !.pc = to]
    /\ UNCHANGED <<becs, newest, lastEB, nE, syncingE, syncedE, putCh, relCh, closed, nextId, nToRel, releasing, closedW, ver, snapV, stateV, rl, storeLock, sinceSync, sinceStart, shutdown, panic, tooSoon, budget>>

\* Lock; NotifySyncCompleted(); [if shutting down: NotifySyncStarting(true)]; Unlock
PLSyncDone1 ==
    /\ pl.pc = "sc1"
    /\ LET sd == IF Mut = "expose_all_epochs" THEN nE ELSE syncingE
           b == IF sd = nE \/ Mut = "block_unconditional" THEN Block(putCh, nextId) ELSE <<putCh, nextId>> IN
       /\ syncedE' = sd /\ ver' = ver + 1
       /\ putCh' = b[1] /\ nextId' = b[2]
       /\ IF pl.keep
          THEN /\ pl' = [pl EXCEPT !.pc = "wps"]
               /\ UNCHANGED <<syncingE, closedW>>
          ELSE /\ pl' = [pl EXCEPT !.pc = "ds2"]
               /\ closedW' = TRUE /\ syncingE' = nE
    /\ UNCHANGED <<becs, newest, lastEB, nE, relCh, closed, nToRel, releasing, snapV, stateV, rl,
                   storeLock, sinceSync, sinceStart, shutdown, panic, tooSoon, budget>>

PLSyncDone2 ==
    /\ pl.pc = "sc2"
    /\ LET b == IF syncingE = nE THEN Block(putCh, nextId) ELSE <<putCh, nextId>> IN
       /\ syncedE' = syncingE /\ ver' = ver + 1
       /\ putCh' = b[1] /\ nextId' = b[2]
    /\ pl' = [pl EXCEPT !.pc = "wps"]
    /\ UNCHANGED <<becs, newest, lastEB, nE, syncingE, relCh, closed, nToRel, releasing, closedW, snapV, stateV, rl, storeLock, sinceSync, sinceStart, shutdown, panic, tooSoon, budget>>

PLWpsGet ==
    /\ pl.pc = "wps" /\ WpsGet("pl") /\ pl' = [pl EXCEPT !.pc = "wr"]
    /\ UNCHANGED <<becs, newest, lastEB, nE, syncingE, syncedE, putCh, relCh, closed, nextId, nToRel, closedW, ver, stateV, rl, sinceSync, sinceStart, shutdown, panic, tooSoon, budget>>

PLWpsWritten ==
    /\ pl.pc = "wr" /\ WpsWritten("pl")
    /\ pl' = [pl EXCEPT !.pc = IF pl.keep THEN "fetch" ELSE "exit"]
    /\ UNCHANGED <<becs, newest, lastEB, nE, syncingE, syncedE, putCh, closed, closedW, ver, snapV,
                   rl, sinceSync, sinceStart, shutdown, panic, tooSoon, budget>>

PLWpsFailed ==
    /\ pl.pc = "wr" /\ WpsFailed("pl")
    /\ pl' = IF Mut = "no_state_retry" THEN [pl EXCEPT !.pc = IF pl.keep THEN "fetch" ELSE "exit"]
             ELSE [pl EXCEPT !.pc = "wretry", !.retry = Retry]
    /\ UNCHANGED <<becs, newest, lastEB, nE, syncingE, syncedE, putCh, relCh, closed, nextId, nToRel, releasing, closedW, ver, snapV, stateV, rl, sinceSync, sinceStart, shutdown, panic, tooSoon>>

(***************************************************************************)
(* ProcessBlockRelease (periodic_syncer.go:107-116)                        *)
(***************************************************************************)
RLFetch ==
    /\ rl.pc = "fetch" /\ rl' = [rl EXCEPT !.pc = "wait", !.ch = relCh.id]
    /\ UNCHANGED <<becs, newest, lastEB, nE, syncingE, syncedE, putCh, relCh, closed, nextId, nToRel, releasing, closedW, ver, snapV, stateV, pl, storeLock, sinceSync, sinceStart, shutdown, panic, tooSoon, budget>>

RLWake ==
    /\ rl.pc = "wait" /\ rl.ch \in closed /\ rl' = [rl EXCEPT !.pc = "wps"]
    /\ UNCHANGED <<becs, newest, lastEB, nE, syncingE, syncedE, putCh, relCh, closed, nextId, nToRel, releasing, closedW, ver, snapV, stateV, pl, storeLock, sinceSync, sinceStart, shutdown, panic, tooSoon, budget>>

RLWpsGet ==
    /\ rl.pc = "wps" /\ WpsGet("rl") /\ rl' = [rl EXCEPT !.pc = "wr"]
    /\ UNCHANGED <<becs, newest, lastEB, nE, syncingE, syncedE, putCh, relCh, closed, nextId, nToRel, closedW, ver, stateV, pl, sinceSync, sinceStart, shutdown, panic, tooSoon, budget>>

RLWpsWritten ==
    /\ rl.pc = "wr" /\ WpsWritten("rl") /\ rl' = [rl EXCEPT !.pc = "fetch"]
    /\ UNCHANGED <<becs, newest, lastEB, nE, syncingE, syncedE, putCh, closed, closedW, ver, snapV,
                   pl, sinceSync, sinceStart, shutdown, panic, tooSoon, budget>>

RLWpsFailed ==
    /\ rl.pc = "wr" /\ WpsFailed("rl") /\ rl' = [rl EXCEPT !.pc = "wretry", !.retry = Retry]
    /\ UNCHANGED <<becs, newest, lastEB, nE, syncingE, syncedE, putCh, relCh, closed, nextId, nToRel, releasing, closedW, ver, snapV, stateV, pl, sinceSync, sinceStart, shutdown, panic, tooSoon>>

RLRetryDone ==
    /\ rl.pc = "wretry" /\ rl.retry = 0 /\ rl' = [rl EXCEPT !.pc = "wps"]
    /\ UNCHANGED <<becs, newest, lastEB, nE, syncingE, syncedE, putCh, relCh, closed, nextId, nToRel, releasing, closedW, ver, snapV, stateV, pl, storeLock, sinceSync, sinceStart, shutdown, panic, tooSoon, budget>>

(***************************************************************************)
Init ==
    /\ becs = <<0>> /\ newest = 0 /\ lastEB = -1
    /\ nE = 0 /\ syncingE = 0 /\ syncedE = 0
    /\ putCh = [id |-> 1, blocking |-> TRUE] /\ relCh = [id |-> 2, blocking |-> TRUE]
    /\ closed = {} /\ nextId = 3
    /\ nToRel = 0 /\ releasing = 0 /\ closedW = FALSE
    /\ ver = 0 /\ snapV = 0 /\ stateV = 0
    /\ pl = [pc |-> "fetch", ch |-> 0, keep |-> TRUE, left |-> 0, retry |-> 0]
    /\ rl = [pc |-> "fetch", ch |-> 0, retry |-> 0]
    /\ storeLock = ""
    /\ sinceSync = 0 /\ sinceStart = -1
    /\ shutdown = FALSE /\ panic = FALSE /\ tooSoon = FALSE
    /\ budget = [fin |-> MaxFinalize, push |-> MaxPush, pop |-> MaxPop, fail |-> MaxFail]

PutLoop ==
    \/ PLFetch \/ PLSel1 \/ PLSel2 \/ PLTimer \/ PLSyncStart1
    \/ PLDataSync("ds1", "sc1", "dsretry1") \/ PLRetryDone("dsretry1", "ds1")
    \/ PLDataSync("ds2", "sc2", "dsretry2") \/ PLRetryDone("dsretry2", "ds2")
    \/ PLSyncDone1 \/ PLSyncDone2 \/ PLWpsGet \/ PLWpsWritten \/ PLWpsFailed \/ PLRetryDone("wretry", "wps")
RelLoop == RLFetch \/ RLWake \/ RLWpsGet \/ RLWpsWritten \/ RLWpsFailed \/ RLRetryDone
Env == PushBack \/ PopFront \/ (\E b \in 0..3 : Finalize(b)) \/ Shutdown

Next == PutLoop \/ RelLoop \/ Env \/ Tick

Spec == Init /\ [][Next]_vars
FairSpec == Spec /\ WF_vars(PutLoop) /\ WF_vars(RelLoop) /\ WF_vars(Tick)

(***************************************************************************)
(* Properties                                                              *)
(***************************************************************************)
NoPanic == ~panic
MinInterval == ~tooSoon
\* pending work implies the wake-up channel currently installed is closed
NoLostPutWakeup == (nE > syncedE /\ ~closedW) => putCh.id \in closed
NoLostRelWakeup == nToRel > 0 => relCh.id \in closed
\* a loop never waits on a channel that can no longer be closed
NoStaleWait ==
    /\ (pl.pc \in {"sel1", "sel2"} /\ pl.ch # putCh.id) => pl.ch \in closed
    /\ (rl.pc = "wait" /\ rl.ch # relCh.id) => rl.ch \in closed
Counters ==
    /\ 0 <= syncedE /\ syncedE <= syncingE /\ syncingE <= nE
    /\ 0 <= releasing /\ releasing <= nToRel
\* eventually every epoch is covered by a durable state file and every popped block is released
Settled == (closedW \/ syncedE = nE) /\ stateV = ver /\ nToRel = 0
Progress == <>[]Settled
=============================================================================
