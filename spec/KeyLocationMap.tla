--------------------------- MODULE KeyLocationMap ---------------------------
(***************************************************************************)
(* C06 -- design specification of hashingKeyLocationMap                    *)
(* (pkg/blobstore/local/hashing_key_location_map.go:139-216), a            *)
(* statement-by-statement transcription of Get() and Put() over a table of *)
(* N slots, with the BlockReferenceResolver reduced to "blocks with an     *)
(* absolute number below `released` are invalid".                          *)
(*                                                                         *)
(* Checked against IndexContract (Sound, NoSilentLoss, PutFrame,           *)
(* ReleaseExact) and the structural invariant ProbeOrder that makes early  *)
(* termination of the probe loops sound.                                   *)
(*                                                                         *)
(* `Mut` selects a deliberately wrong variant of one statement; TLC's      *)
(* shortest counterexample for each mutant becomes a "killer script" that  *)
(* is replayed against the real code (DESIGN.md 3.2 item 4).               *)
(***************************************************************************)
EXTENDS Integers, Sequences, FiniteSets, TLC, Json, IndexContract

CONSTANTS N,           \* number of slots
          Keys,        \* set of keys (strings)
          MaxGet,      \* maximumGetAttempts
          MaxPut,      \* maximumPutAttempts
          NumBlocks,   \* absolute block numbers 0..NumBlocks-1
          NumOffsets,  \* offsets 0..NumOffsets-1
          MaxOps,      \* bound on the number of operations
          Mut          \* "none" or the name of a mutant
CONSTANT SlotOf(_, _)  \* (key, attempt) -> 0..N-1

VARIABLES table,     \* 0..N-1 -> record or Empty
          released,  \* blocks < released are invalid
          stored,    \* ghost: key -> set of locations ever put
          discards,  \* number of discards reported so far
          nops,
          last,      \* last operation with its observable results
          hist       \* script: sequence of operations with expected observations

vars == <<table, released, stored, discards, nops, last, hist>>

Empty == [key |-> "", attempt |-> -1, abs |-> -1, off |-> -1]
Loc(r) == [abs |-> r.abs, off |-> r.off]
RecValid(r, rel) == r # Empty /\ r.abs >= rel
Locs == [abs : 0..(NumBlocks-1), off : 0..(NumOffsets-1)]

(***************************************************************************)
(* Get(): hashing_key_location_map.go:139-162                              *)
(***************************************************************************)
RECURSIVE GetLoop(_, _, _, _)
GetLoop(tbl, rel, k, a) ==
    LET r == tbl[SlotOf(k, a)] IN
    IF ~RecValid(r, rel)
    THEN IF Mut = "get_skip_invalid" /\ a + 1 < MaxGet
         THEN GetLoop(tbl, rel, k, a + 1) ELSE None
    ELSE IF (r.key = k \/ Mut = "get_wrong_key") /\ (r.attempt = a \/ Mut = "get_cmp_no_attempt") THEN Loc(r)
    ELSE IF a + 1 >= MaxGet THEN None
    ELSE GetLoop(tbl, rel, k, a + 1)

Get(tbl, rel, k) == GetLoop(tbl, rel, k, 0)
GetAll(tbl, rel) == [k \in Keys |-> Get(tbl, rel, k)]

(***************************************************************************)
(* Put(): hashing_key_location_map.go:164-216.  Returns the new table, the *)
(* outcome label (the Prometheus outcome the code reports) and the number  *)
(* of discards it reports.                                                 *)
(***************************************************************************)
AttemptLimit == IF Mut = "put_limit_off_by_one" THEN MaxGet + 1 ELSE MaxGet

RECURSIVE PutLoop(_, _, _, _)
PutLoop(tbl, rel, rec, iter) ==
    IF iter > MaxPut
    THEN [t |-> tbl, o |-> "TooManyIterations", d |-> 1]
    ELSE
    LET s   == SlotOf(rec.key, rec.attempt)
        old == tbl[s] IN
    IF ~RecValid(old, rel)
    THEN [t |-> [tbl EXCEPT ![s] = rec], o |-> "Inserted", d |-> 0]
    ELSE IF old.key = rec.key /\ (old.attempt = rec.attempt \/ Mut = "put_cmp_no_attempt")
    THEN IF (IF Mut = "update_reversed" THEN Older(Loc(rec), Loc(old))
             ELSE IF Mut = "update_always" THEN TRUE ELSE Older(Loc(old), Loc(rec)))
         THEN [t |-> [tbl EXCEPT ![s] = rec], o |-> "Updated", d |-> 0]
         ELSE [t |-> tbl, o |-> "IgnoredOlder", d |-> 0]
    ELSE
    LET swap == IF Mut = "displace_reversed" THEN Older(Loc(rec), Loc(old))
                ELSE IF Mut = "displace_nonstrict" THEN ~Older(Loc(rec), Loc(old))
                ELSE Older(Loc(old), Loc(rec))
        tbl2 == IF swap THEN [tbl EXCEPT ![s] = rec] ELSE tbl
        rec2 == IF swap THEN old ELSE rec
        rec3 == [rec2 EXCEPT !.attempt = @ + 1] IN
    IF swap /\ Mut = "displace_drop" THEN [t |-> tbl2, o |-> "Inserted", d |-> 0]
    ELSE IF rec3.attempt >= AttemptLimit
    THEN [t |-> tbl2, o |-> "TooManyAttempts", d |-> 1]
    ELSE PutLoop(tbl2, rel, rec3, iter + 1)

Put(tbl, rel, k, l) ==
    PutLoop(tbl, rel, [key |-> k, attempt |-> 0, abs |-> l.abs, off |-> l.off], 1)

(***************************************************************************)
(* Observable projection used in scripts and traces.                       *)
(***************************************************************************)
\* stale records (released blocks) are indistinguishable from empty slots
SetToSeq(S) == LET RECURSIVE F(_) F(T) == IF T = {} THEN <<>> ELSE LET x == CHOOSE x \in T : TRUE IN <<x>> \o F(T \ {x}) IN F(S)
TableSeq(tbl, rel) == [i \in 1..N |-> IF RecValid(tbl[i - 1], rel) THEN tbl[i - 1] ELSE Empty]

Obs(op, k, l, outcome, d, tbl, rel) ==
    [op |-> op, key |-> k, abs |-> l.abs, off |-> l.off, outcome |-> outcome,
     d |-> d, released |-> rel, gets |-> GetAll(tbl, rel), table |-> TableSeq(tbl, rel)]

(***************************************************************************)
(* Behaviour                                                               *)
(***************************************************************************)
Init ==
    /\ table = [s \in 0..(N-1) |-> Empty]
    /\ released = 0
    /\ stored = [k \in Keys |-> {}]
    /\ discards = 0
    /\ nops = 0
    /\ last = Obs("Init", "", None, "", 0, [s \in 0..(N-1) |-> Empty], 0)
    /\ hist = <<>>

DoPut(k, l) ==
    /\ nops < MaxOps
    /\ l.abs >= released
    /\ LET r == Put(table, released, k, l)
           dd == IF Mut = "discard_not_counted" THEN 0 ELSE r.d IN
       /\ table' = r.t
       /\ discards' = discards + dd
       /\ last' = Obs("Put", k, l, r.o, dd, r.t, released)
       /\ hist' = Append(hist, last')
    /\ stored' = [stored EXCEPT ![k] = @ \cup {l}]
    /\ nops' = nops + 1
    /\ UNCHANGED released

DoRelease ==
    /\ nops < MaxOps
    /\ released < NumBlocks
    /\ released' = released + 1
    /\ last' = Obs("Release", "", None, "", 0, table, released + 1)
    /\ hist' = Append(hist, last')
    /\ nops' = nops + 1
    /\ UNCHANGED <<table, stored, discards>>

Next == (\E k \in Keys, l \in Locs : DoPut(k, l)) \/ DoRelease

Spec == Init /\ [][Next]_vars

View == <<table, released, stored, discards, nops>>

(***************************************************************************)
(* Properties                                                              *)
(***************************************************************************)
TypeOK ==
    /\ released \in 0..NumBlocks
    /\ \A s \in 0..(N-1) : table[s] = Empty \/
          (table[s].key \in Keys /\ table[s].attempt \in 0..MaxGet /\ Loc(table[s]) \in Locs)

InvSound == Sound(Keys, GetAll(table, released), stored, released)
InvNoSilentLoss == NoSilentLoss(Keys, GetAll(table, released), stored, released, discards)

\* Along the probe sequence of every stored, valid record, every earlier slot
\* holds a valid record that is not older.
ProbeOrder ==
    \A s \in 0..(N-1) :
        LET r == table[s] IN
        (RecValid(r, released) /\ SlotOf(r.key, r.attempt) = s) =>
            \A a \in 0..(r.attempt - 1) :
                LET e == table[SlotOf(r.key, a)] IN
                RecValid(e, released) /\ ~Older(Loc(e), Loc(r))

\* Every valid record sits in the slot its key and attempt hash to.
Placed ==
    \A s \in 0..(N-1) :
        RecValid(table[s], released) =>
            /\ table[s].attempt < MaxGet
            /\ SlotOf(table[s].key, table[s].attempt) = s

StepFrame ==
    LET g0 == GetAll(table, released)
        g1 == GetAll(table', released') IN
    CASE last'.op = "Put" ->
            PutFrame(Keys, g0, g1, last'.key, [abs |-> last'.abs, off |-> last'.off], last'.d)
      [] last'.op = "Release" -> ReleaseExact(Keys, g0, g1, released')
      [] OTHER -> TRUE

PropFrame == [][StepFrame]_vars

\* Emission of one replayable edge per transition: source state, operation and
\* expected observations (used with ACTION_CONSTRAINT in the *_edges configs).
EmitEdge ==
    PrintT(<<"EDGE", ToJson([src |-> [table |-> TableSeq(table, released), released |-> released,
                                      stored |-> [k \in Keys |-> SetToSeq(stored[k])], discards |-> discards],
                             step |-> last'])>>)
\* Emission of whole scripts from simulation (used as a CONSTRAINT with -simulate).
EmitScript == (nops = MaxOps) => PrintT(<<"SCRIPT", ToJson(hist)>>)
=============================================================================
