------------------------------- MODULE AuthDefs -------------------------------
(***************************************************************************)
(* C18 -- verdicts of authorizers.  A leaf is a table instance name ->      *)
(* "allow" | "deny" | "err"; an `any` node is a sequence of authorizers    *)
(* consulted in order: a name's verdict is that of the first member that   *)
(* does not deny it (so a member's failure is reported rather than being   *)
(* treated as a denial), and a denial if all members deny.                 *)
(***************************************************************************)
EXTENDS Integers, Sequences, FiniteSets, TLC, Json

\* tree: [kind |-> "leaf", tab |-> [name -> verdict]] or [kind |-> "any", members |-> <<tree, ...>>]
RECURSIVE Verdict(_, _)
Verdict(t, n) ==
    IF t.kind = "leaf" THEN t.tab[n]
    ELSE LET RECURSIVE Walk(_)
             Walk(i) == IF i > Len(t.members) THEN "deny"
                        ELSE LET v == Verdict(t.members[i], n) IN IF v # "deny" THEN v ELSE Walk(i + 1)
         IN Walk(1)

CodeOf(v) == IF v = "deny" THEN "PermissionDenied" ELSE IF v = "err" THEN "Internal" ELSE "OK"

\* o: [op, names (set), tree, res, code, backendCalls, srcClosed]
AuthOK(o) ==
    LET vs == {Verdict(o.tree, n) : n \in o.names}
        granted == vs \subseteq {"allow"} IN
    /\ o.res \in {"OK", "ERR"}
    /\ IF granted
       THEN \* the operation reaches the back end and its answer comes back
            o.res = "OK" /\ o.backendCalls = 1
       ELSE \* the back end is not contacted and the caller gets an authorizer's error
            /\ o.res = "ERR" /\ o.backendCalls = 0
            /\ o.code \in {CodeOf(v) : v \in vs \ {"allow"}}
    \* a buffer handed to Put is released exactly once, also when the upload is rejected
    /\ o.op = "Put" => o.srcClosed = 1
=============================================================================
