----------------------------- MODULE ShardingDefs -----------------------------
(***************************************************************************)
(* C12 -- contract of shard selection and of the sharding composite over   *)
(* observables.                                                            *)
(***************************************************************************)
EXTENDS Integers, Sequences, FiniteSets, TLC, Json
ToSet(q) == {q[i] : i \in 1..Len(q)}

(* Selector observation o:
     keys       set of shard keys of the map the question is about
     base       key chosen for the hash
     again      key chosen when asked a second time, and by a selector rebuilt from the same map
     perms      keys chosen by selectors built from permutations of the same (key, weight) pairs
     removals   seq of [removed, choice]: the map without one shard
     additions  seq of [added, choice]:   the map plus one shard                                 *)
SelectorOK(o) ==
    /\ o.panic = ""
    /\ o.base \in o.keys
    /\ \A i \in 1..Len(o.again) : o.again[i] = o.base                   \* deterministic
    /\ \A i \in 1..Len(o.perms) : o.perms[i] = o.base                   \* independent of the listing order
    /\ \A i \in 1..Len(o.removals) :
         LET r == o.removals[i] IN
         /\ r.choice \in o.keys \ {r.removed}
         /\ (o.base # r.removed) => r.choice = o.base                   \* removal re-routes only the removed shard's objects
    /\ \A i \in 1..Len(o.additions) :
         LET a == o.additions[i] IN a.choice \in {o.base, a.added}      \* addition re-routes only to the new shard

(* Composite observation o:
     op, objs (set), shardOf [obj -> key] (what the selector answers for the leading hash bytes),
     before [key -> set of objs], after, failing (set of keys whose calls fail),
     calls (set of [key, op, objs (set)]), ncalls, res, code, msg names (set of keys named in the error), missing *)
Group(o, k) == {x \in o.objs : o.shardOf[x] = k}
ShardOK(o) ==
    LET used == {k \in DOMAIN o.before : Group(o, k) # {}}
        failed == used \cap o.failing IN
    /\ o.panic = ""
    \* every shard is asked only about its own digests, with the caller's operation, at most once
    /\ \A c \in o.calls : c.op = o.op /\ c.key \in used /\ c.objs = Group(o, c.key)
    /\ o.ncalls = Cardinality(o.calls)
    /\ \A k \in DOMAIN o.before : o.before[k] \subseteq o.after[k]
    /\ \A k \in DOMAIN o.before : o.after[k] \ o.before[k] \subseteq (IF o.op = "Put" /\ k \notin o.failing THEN Group(o, k) ELSE {})
    /\ IF failed # {}
       THEN o.res = "ERR" /\ o.code = "Unavailable" /\ o.named \cap failed # {} /\ o.named \subseteq used
       ELSE /\ {c.key : c \in o.calls} = used
            /\ CASE o.op = "Get" ->
                      LET d == CHOOSE d \in o.objs : TRUE
                          k == o.shardOf[d] IN
                      IF d \in o.before[k] THEN o.res = "Data"
                      ELSE o.res = "ERR" /\ o.code = "NotFound" /\ o.named = {k}     \* errors carry the shard key
                 [] o.op = "Put" ->
                      /\ o.res = "OK"
                      /\ \A d \in o.objs : d \in o.after[o.shardOf[d]]
                 [] o.op = "Fm" ->
                      /\ o.res = "OK"
                      /\ o.missing = {d \in o.objs : d \notin o.before[o.shardOf[d]]}   \* exactly the union of the shards' answers
=============================================================================
