------------------------------- MODULE Sharding -------------------------------
(***************************************************************************)
(* C12 -- design specification.                                            *)
(*                                                                         *)
(* Part "selector": rendezvousShardSelector.GetShard                       *)
(* (pkg/blobstore/sharding/rendezvous_shard_selector.go:33-56,143-155)     *)
(* over an ARBITRARY score function: TLC enumerates every assignment of    *)
(* scores (with ties) to (shard, hash) pairs and every order of the key    *)
(* hashes, and checks that the choice is independent of the listing order  *)
(* and minimally disrupted by removals and additions.  The fixed-point     *)
(* arithmetic of the real score is not modelled (64-bit); it only has to   *)
(* be a function of (key, weight, hash), which the conformance harness     *)
(* probes at its numerical edge cases.                                     *)
(*                                                                         *)
(* Part "composite": shardingBlobAccess over back ends that are sets of    *)
(* objects (sharding_blob_access.go:41-110).                               *)
(***************************************************************************)
EXTENDS ShardingDefs
CONSTANTS Part, Keys, Objs, MinScore, MaxScore, MaxOps, Mut
\* MinScore = 1: every weight is positive, hence every real score is (>= 2^32 / 2^22); MinScore = 0 shows why
\* the configuration must reject zero weights: with all scores 0 the choice falls back to the listing order

VARIABLES score,     \* [Keys -> MinScore..MaxScore]: score of each shard for the hash under consideration
          rank,      \* [Keys -> Nat]: order of the key hashes (injective)
          listing,   \* the configured shards, in configuration order
          contents, shardOf, nops, last, hist
vars == <<score, rank, listing, contents, shardOf, nops, last, hist>>

Perms(S) == {q \in [1..Cardinality(S) -> S] : \A i, j \in 1..Cardinality(S) : i # j => q[i] # q[j]}
Listings == UNION {Perms(S) : S \in SUBSET Keys \ {{}}}

\* NewRendezvousShardSelector: shards sorted by key hash; GetShard: first strictly greater score wins
SortByRank(l) == LET n == Len(l) IN
    CHOOSE q \in Perms(ToSet(l)) : \A i, j \in 1..n : i < j => rank[q[i]] < rank[q[j]]
RECURSIVE Scan(_, _, _, _)
Scan(l, i, best, bestKey) ==
    IF i > Len(l) THEN bestKey
    ELSE IF score[l[i]] > best THEN Scan(l, i + 1, score[l[i]], l[i]) ELSE Scan(l, i + 1, best, bestKey)
Pick(l) == LET s == IF Mut = "no_sort" THEN l ELSE SortByRank(l) IN
           \* bestIndex starts at 0: the first configured shard (reached only if every score is 0)
           Scan(s, 1, 0, l[1])

SelectorProps ==
    /\ Pick(listing) \in ToSet(listing)
    /\ \A p \in Perms(ToSet(listing)) : Pick(p) = Pick(listing)
    /\ \A i \in 1..Len(listing) : Len(listing) > 1 =>
         LET rest == SelectSeq(listing, LAMBDA k : k # listing[i]) IN
         Pick(listing) # listing[i] => Pick(rest) = Pick(listing)
    /\ \A k \in Keys \ ToSet(listing) : Pick(Append(listing, k)) \in {Pick(listing), k}

\* ---- composite ----
Group2(S, k) == {x \in S : shardOf[x] = k}
Used(S) == {k \in Keys : Group2(S, k) # {}}
DoOp(op, S, failing) ==
    LET failed == Used(S) \cap failing
        calls == {[key |-> k, op |-> op, objs |-> Group2(S, k)] : k \in Used(S)}
        mk(res, code, after, named, missing) ==
          [op |-> op, objs |-> S, shardOf |-> shardOf, before |-> contents, after |-> after, failing |-> failing, calls |-> calls,
           ncalls |-> Cardinality(calls), res |-> res, code |-> code, named |-> named, missing |-> missing, panic |-> ""] IN
    IF failed # {} /\ Mut # "ignore_failing_shard"
    THEN mk("ERR", "Unavailable", contents, {CHOOSE k \in failed : TRUE}, {})
    ELSE CASE op = "Get" -> LET d == CHOOSE d \in S : TRUE IN
                            IF d \in contents[shardOf[d]] THEN mk("Data", "OK", contents, {}, {})
                            ELSE mk("ERR", "NotFound", contents, {shardOf[d]}, {})
           [] op = "Put" -> mk("OK", "OK", [k \in Keys |-> contents[k] \cup Group2(S, k)], {}, {})
           [] op = "Fm"  -> mk("OK", "OK", contents, {},
                               IF Mut = "first_shard_only"
                               THEN LET k == CHOOSE k \in Used(S) : TRUE IN Group2(S, k) \ contents[k]
                               ELSE {d \in S : d \notin contents[shardOf[d]] /\ shardOf[d] \notin failing})
Step(op, S, failing) ==
    /\ nops < MaxOps /\ nops' = nops + 1
    /\ last' = DoOp(op, S, failing) /\ hist' = Append(hist, last')
    /\ contents' = last'.after
    /\ UNCHANGED <<score, rank, listing, shardOf>>

Init == /\ nops = 0 /\ last = [op |-> "Init"] /\ hist = <<>>
        /\ IF Part = "selector"
           THEN /\ score \in [Keys -> MinScore..MaxScore] /\ rank \in {r \in [Keys -> 1..Cardinality(Keys)] : \A a, b \in Keys : a # b => r[a] # r[b]}
                /\ listing \in Listings /\ contents = <<>> /\ shardOf = <<>>
           ELSE /\ score = <<>> /\ rank = <<>> /\ listing = <<>>
                /\ shardOf \in [Objs -> Keys] /\ contents \in [Keys -> SUBSET Objs]
                /\ \A k \in Keys : contents[k] \subseteq {x \in Objs : shardOf[x] = k}
Next == /\ Part = "composite"
        /\ \E failing \in SUBSET Keys :
             \/ \E d \in Objs : Step("Get", {d}, failing) \/ Step("Put", {d}, failing)
             \/ \E S \in SUBSET Objs : S # {} /\ Step("Fm", S, failing)
Spec == Init /\ [][Next]_vars
View == <<score, rank, listing, contents, shardOf, nops>>
SelectorInv == Part = "selector" => SelectorProps
PropContract == [][ShardOK(last')]_vars
EmitScript == (nops = MaxOps) => PrintT(<<"SCRIPT", ToJson(hist)>>)
=============================================================================
