------------------------- MODULE SectorContractTrace -------------------------
(***************************************************************************)
(* Contract monitor for executions of the real block-device backed block   *)
(* (sector sharing between neighbouring objects; design: SectorWriter.tla).*)
(* An observation holds the sector size, the object sizes in allocation    *)
(* order and, after every scheduler step, which writers had returned and   *)
(* what the device held (bytes decoded to <<object, index>>).              *)
(***************************************************************************)
EXTENDS Integers, Sequences, FiniteSets, TLC, Json
Trace == ndJsonDeserialize("trace.ndjson")
VARIABLE l
Ev == Trace[l]
ToSet(q) == {q[i] : i \in 1..Len(q)}
RECURSIVE Start(_, _)
Start(sizes, k) == IF k = 1 THEN 0 ELSE Start(sizes, k - 1) + sizes[k - 1]
\* once a writer has returned, its object is on the device, at its place, and stays there
SnapOK(sizes, snap) ==
    \A k \in ToSet(snap.flushed) : \A i \in 1..sizes[k] : snap.dev[Start(sizes, k) + i] = <<k, i>>
SectorOK(o) ==
    /\ o.panic = ""
    /\ \A j \in 1..Len(o.snaps) : SnapOK(o.sizes, o.snaps[j])
    /\ ToSet(o.snaps[Len(o.snaps)].flushed) = 1..Len(o.sizes)      \* every writer returns
    /\ \A k \in 1..Len(o.sizes) : o.offsets[k] = Start(o.sizes, k) /\ o.errors[k] = ""   \* at the offset handed out, without error
    /\ \A k \in 1..Len(o.sizes) : o.reads[k] = "ok"       \* and reads back, validated against its digest, as uploaded (C01)
TInit == l = 1
TNext == l <= Len(Trace) /\ l' = l + 1 /\ Ev.ev = "Sector" /\ SectorOK(Ev)
TSpec == TInit /\ [][TNext]_l
Accepted == TLCGet("stats").diameter - 1 = Len(Trace)
=============================================================================
