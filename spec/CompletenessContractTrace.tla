---------------------- MODULE CompletenessContractTrace ----------------------
(* C13 -- monitor for observations of the real completenessCheckingBlobAccess.
   Layer = "contract": the property (decides VIOLATION); Layer = "design": agreement with the transcription (DRIFT). *)
EXTENDS CompletenessDefs
CONSTANT Layer
Trace == ndJsonDeserialize("trace.ndjson")
VARIABLE l
Ev == Trace[l]
Obs(e) == [res |-> e.res, code |-> e.code, confirmed |-> ToSet(e.confirmed), fmFailed |-> e.fmFailed,
           fm |-> [i \in 1..Len(e.fm) |-> ToSet(e.fm[i])]]
TInit == l = 1
TNext == /\ l <= Len(Trace) /\ Ev.ev = "Complete" /\ l' = l + 1
         /\ Ev.panic = ""
         /\ IF Layer = "contract" THEN CompleteOK(Ev.case, Obs(Ev)) ELSE Conforms(Ev.case, Obs(Ev))
TSpec == TInit /\ [][TNext]_l
Accepted == TLCGet("stats").diameter - 1 = Len(Trace)
=============================================================================
