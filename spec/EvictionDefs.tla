----------------------------- MODULE EvictionDefs -----------------------------
(* Contract of the cache replacement sets of pkg/eviction over observations (see Eviction.tla). *)
EXTENDS Integers, Sequences, FiniteSets, TLC, Json
ToSet(q) == {q[i] : i \in 1..Len(q)}
Remove(s, x) == SelectSeq(s, LAMBDA y : y # x)

(* Contract over an observation o: [policy, steps: seq of [op, x, peek (element Peek returns after the step, "" if empty),
   removed (TRUE if the harness then removed it)]].  The monitor replays the steps on both views. *)
RECURSIVE Replay(_, _, _, _, _)
Replay(policy, steps, i, ord, ff) ==
    IF i > Len(steps) THEN TRUE
    ELSE LET st == steps[i]
             ord1 == IF st.op = "insert" THEN Append(ord, st.x) ELSE Append(Remove(ord, st.x), st.x)
             ff1 == IF st.op = "insert" THEN Append(ff, st.x) ELSE ff
             okPeek == IF ord1 = <<>> THEN st.peek = ""
                       ELSE CASE policy = "LRU" -> st.peek = Head(ord1)       \* least recently used
                              [] policy = "FIFO" -> st.peek = Head(ff1)       \* oldest insertion, touching has no effect
                              [] OTHER -> st.peek \in ToSet(ord1)             \* random replacement: any element that is present
             ord2 == IF st.removed THEN Remove(ord1, st.peek) ELSE ord1
             ff2 == IF st.removed THEN Remove(ff1, st.peek) ELSE ff1 IN
         okPeek /\ Replay(policy, steps, i + 1, ord2, ff2)
EvictionOK(o) == o.panic = "" /\ Replay(o.policy, o.steps, 1, <<>>, <<>>)
=============================================================================
