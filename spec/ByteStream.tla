------------------------------ MODULE ByteStream ------------------------------
(***************************************************************************)
(* C14 -- design specification of the RPC front end                        *)
(* (pkg/blobstore/grpcservers).  The client is untrusted: TLC explores     *)
(* every sequence of WriteRequest messages it can send (part "write"),     *)
(* every read request (part "read"), every batch composition (part         *)
(* "batch") and sequences of operations through a client and a server      *)
(* connected back to back (part "b2b").                                    *)
(*                                                                         *)
(* Part "write" is the protocol state machine of byteStreamServer.Write:   *)
(* byte_stream_server.go:94-135 (identity: byteStreamWriteServerChunkReader*)
(* feeding a validating CAS buffer), :167-242 (zstd: zstdWriteStreamReader *)
(* feeding a decoder feeding a validating CAS buffer).                     *)
(***************************************************************************)
EXTENDS RpcDefs
CONSTANTS Part, Comps, Ns, Payloads, MaxMsgs, MaxEntries, Objs, MaxOps, Mut

VARIABLES case,    \* part write: the message sequence being built; read / batch: the case
          B, nops, last, hist
vars == <<case, B, nops, last, hist>>

\* ---- write ----
Exp(c) == SumLen(c.msgs)
DataChoices(c) == LET e == Exp(c) IN
    {<<>>, <<99>>} \cup {[i \in 1..k |-> e + i] : k \in {j \in 1..2 : e + j <= c.n}} \cup (IF e < c.n THEN {[i \in 1..(c.n - e) |-> e + i]} ELSE {})
                   \cup (IF e > 0 THEN {<<e>>} ELSE {})
OffChoices(c) == LET e == Exp(c) IN {e, e + 1, 0} \cup (IF e > 0 THEN {e - 1} ELSE {})
AddMsg == /\ case.ended = "" /\ Len(case.msgs) < MaxMsgs
          /\ \E d \in DataChoices(case), o \in OffChoices(case), f \in BOOLEAN :
               case' = [case EXCEPT !.msgs = Append(@, [off |-> o, data |-> d, fin |-> f])]
End == case.ended = "" /\ \E k \in {"close", "abort"} : case' = [case EXCEPT !.ended = k]

\* The server: walk the messages in order; "expected offset / finished flag" is the per-stream state.
RECURSIVE Walk(_, _, _, _, _)
Walk(c, i, exp, fin, got) ==
    IF i > Len(c.msgs)
    THEN IF c.ended = "abort" THEN "ERR"                                  \* Recv fails
         ELSE IF ~fin /\ Mut # "no_finish_check" THEN "ERR"                \* closed without finishing the write
         ELSE IF got = Iota(c.n) /\ c.payload = "object" THEN "STORED" ELSE "ERR"   \* validation of the complete stream
    ELSE LET m == c.msgs[i] IN
         IF fin THEN (IF c.comp = "zstd" /\ Mut = "zstd_ignores_after_finish" THEN Walk(c, Len(c.msgs) + 1, exp, fin, got) ELSE "ERR")  \* closed twice
         ELSE IF m.off # exp /\ ~(Mut = "first_offset_unchecked" /\ i = 1) /\ Mut # "no_offset_check" THEN "ERR"
         ELSE IF Len(got) + Len(m.data) > c.n /\ c.comp = "identity" THEN "ERR"     \* more data than the digest announces
         ELSE Walk(c, i + 1, exp + Len(m.data), m.fin, got \o m.data)
WriteDesign(c) == IF Len(c.msgs) = 0 THEN "ERR" ELSE Walk(c, 1, 0, FALSE, <<>>)
AsWriteObs(c, r) == [res |-> IF r = "STORED" THEN "OK" ELSE "ERR", stored |-> r = "STORED", storedIntact |-> TRUE, payloadMatches |-> UnitsMatch(c), panic |-> ""]
WriteInv == (Part = "write" /\ case.ended # "") => WriteOK(case, AsWriteObs(case, WriteDesign(case)))
\* the design accepts every valid upload (not part of the property; the back-to-back part relies on it)
WriteAccepts == (Part = "write" /\ case.ended = "close" /\ ValidUpload(case, AsWriteObs(case, ""))) => WriteDesign(case) = "STORED"

\* ---- read ----
ReadDesign(c) ==
    LET inside == 0 <= c.k /\ c.k <= c.n IN
    IF c.limit # 0 THEN [res |-> "ERR", code |-> "Unimplemented", data |-> <<>>]
    ELSE IF c.backend = "absent" THEN [res |-> "ERR", code |-> "NotFound", data |-> <<>>]
    ELSE IF c.backend = "failing" THEN [res |-> "ERR", code |-> "Unavailable", data |-> <<>>]
    ELSE IF ~inside /\ ~(c.comp = "zstd" /\ Mut = "zstd_ignores_offset") THEN [res |-> "ERR", code |-> "InvalidArgument", data |-> <<>>]
    ELSE LET from == IF c.comp = "zstd" /\ Mut = "zstd_ignores_offset" THEN 0 ELSE c.k IN
         IF c.backend = "corrupt" THEN [res |-> "ERR", code |-> "Internal", data |-> <<>>]   \* how much was streamed before depends on chunking
         ELSE [res |-> "OK", code |-> "OK", data |-> SubSeq(Iota(c.n), from + 1, c.n)]
ReadInv == Part = "read" => ReadOK(case, ReadDesign(case) @@ [panic |-> ""])

\* ---- batch ----
BatchDesign(c) ==
    LET n == Len(c.entries) IN
    IF c.op = "read" /\ c.limitExceeded
    THEN [res |-> "ERR", statuses |-> <<>>, datas |-> <<>>, stored |-> c.before, storedIntact |-> [i \in 1..n |-> TRUE], before |-> c.before, panic |-> ""]
    ELSE IF c.op = "update"
    THEN [res |-> "OK", statuses |-> [i \in 1..n |-> IF c.entries[i].kind = "match" THEN "OK" ELSE IF c.entries[i].kind = "backendfail" THEN "Unavailable" ELSE "InvalidArgument"],
          datas |-> [i \in 1..n |-> ""],
          stored |-> [i \in 1..n |-> c.before[i] \/ \E j \in 1..n : c.entries[j].obj = c.entries[i].obj /\ (c.entries[j].kind = "match" \/ (Mut = "batch_stores_mismatch" /\ c.entries[j].kind = "mismatch"))],
          storedIntact |-> [i \in 1..n |-> ~(Mut = "batch_stores_mismatch" /\ c.entries[i].kind = "mismatch" /\ ~c.before[i])], before |-> c.before, panic |-> ""]
    ELSE [res |-> "OK", statuses |-> [i \in 1..n |-> CASE c.entries[i].kind = "present" -> "OK" [] c.entries[i].kind = "absent" -> "NotFound"
                                                      [] c.entries[i].kind = "corrupt" -> "Internal" [] OTHER -> "Unavailable"],
          datas |-> [i \in 1..n |-> IF c.entries[i].kind = "present" THEN "match" ELSE ""], stored |-> c.before, storedIntact |-> [i \in 1..n |-> TRUE], before |-> c.before, panic |-> ""]
BatchInv == Part = "batch" => BatchOK(case, BatchDesign(case))

\* ---- back to back ----
DoB2B(op, S, failing) ==
    LET mk(res, code, b1, missing) == [op |-> op, objs |-> S, b0 |-> B, b1 |-> b1, failing |-> failing, res |-> res, code |-> code, missing |-> missing, dataOK |-> TRUE, panic |-> ""] IN
    IF failing THEN mk("ERR", "Unavailable", B, {})
    ELSE CASE op = "Get" -> (IF S \subseteq B THEN mk("Data", "OK", B, {}) ELSE mk("ERR", "NotFound", B, {}))
           [] op = "Put" -> mk("OK", "OK", B \cup S, {})
           [] op = "PutBad" -> mk("ERR", "InvalidArgument", B, {})
           [] op = "Fm" -> mk("OK", "OK", B, S \ B)
StepB2B(op, S, failing) == /\ nops < MaxOps /\ nops' = nops + 1 /\ last' = DoB2B(op, S, failing) /\ hist' = Append(hist, last')
                           /\ B' = last'.b1 /\ UNCHANGED case

UpdKinds == {"match", "mismatch", "baddigest", "backendfail"}
ReadKinds == {"present", "absent", "corrupt", "backendfail"}
SeqsUpTo(S, n) == UNION {[1..k -> S] : k \in 1..n}
Init == /\ nops = 0 /\ last = [op |-> "Init"] /\ hist = <<>>
        /\ CASE Part = "write" -> /\ B = {} /\ \E cp \in Comps, n \in Ns, p \in Payloads : case = [comp |-> cp, n |-> n, payload |-> p, msgs |-> <<>>, ended |-> ""]
             [] Part = "read" -> /\ B = {} /\ \E cp \in Comps, n \in Ns, k \in -1..4, lim \in {0, 1}, be \in {"ok", "absent", "failing", "corrupt"} :
                                       k <= n + 1 /\ (be = "corrupt" => n > 0) /\ case = [comp |-> cp, n |-> n, k |-> k, limit |-> lim, backend |-> be]
             [] Part = "batch" -> /\ B = {} /\ \E op \in {"update", "read"} :
                                       \E es \in SeqsUpTo([obj : Objs, kind : IF op = "update" THEN UpdKinds ELSE ReadKinds], MaxEntries), lim \in BOOLEAN :
                                         \E bf \in [1..Len(es) -> BOOLEAN] :
                                           /\ \A i, j \in 1..Len(es) : es[i].obj = es[j].obj => (bf[i] = bf[j] /\ (op = "read" => es[i].kind = es[j].kind)
                                                                                                    /\ ((es[i].kind = "backendfail") <=> (es[j].kind = "backendfail")))
                                           /\ \A i \in 1..Len(es) : (op = "read" /\ es[i].kind \in {"present", "corrupt"}) => bf[i]
                                           /\ \A i \in 1..Len(es) : (op = "read" /\ es[i].kind = "absent") => ~bf[i]
                                           /\ (op = "update" => ~lim)
                                           /\ case = [op |-> op, entries |-> es, limitExceeded |-> lim, before |-> bf]
             [] Part = "b2b" -> case = <<>> /\ B \in SUBSET Objs
Next == \/ Part = "write" /\ (AddMsg \/ End) /\ UNCHANGED <<B, nops, last, hist>>
        \/ Part = "b2b" /\ \E failing \in BOOLEAN :
              \/ \E d \in Objs : StepB2B("Get", {d}, failing) \/ StepB2B("Put", {d}, failing) \/ StepB2B("PutBad", {d}, failing)
              \/ \E S \in SUBSET Objs : S # {} /\ StepB2B("Fm", S, failing)
Spec == Init /\ [][Next]_vars
View == <<case, B, nops>>
PropB2B == [][Part = "b2b" => TransparentOK(last')]_vars
EmitCase == ((Part = "write" /\ case.ended # "") \/ Part \in {"read", "batch"}) => PrintT(<<"CASE", ToJson(case)>>)
EmitScript == (Part = "b2b" /\ nops = MaxOps) => PrintT(<<"SCRIPT", ToJson(hist)>>)
=============================================================================
