---------------------------- MODULE BufferValidate ----------------------------
(***************************************************************************)
(* C09 -- CAS buffers never complete a read of content that mismatches     *)
(* its digest.                                                             *)
(*                                                                         *)
(* The state space *is* the case list: one initial state per               *)
(* (digest content, source content split into chunks, way the source       *)
(* ends).  For every case the module                                       *)
(*  - states the contract: which outcomes a consumer may observe;          *)
(*  - contains a statement-by-statement transcription of the two           *)
(*    validators (casValidatingReader.doRead with its one-byte look-ahead, *)
(*    casValidatingChunkReader with maybeFinalize before and after each    *)
(*    chunk) and checks that they meet the contract for every read size;   *)
(*  - emits the case with the design's expected outcomes, so that the      *)
(*    harness can replay it on the real buffers.                           *)
(* "Hash matches" is equality of contents; the hash functions themselves   *)
(* are exercised by the harness' concretization.                           *)
(***************************************************************************)
EXTENDS Integers, Sequences, FiniteSets, TLC, Json

CONSTANTS MaxD,       \* maximum length of the digest's content
          MaxS,       \* maximum length of the source's content
          MaxChunks,  \* maximum number of chunks the source is split into
          Mut

Sym == {"a", "b"}
SeqsUpTo(n) == UNION {[1..k -> Sym] : k \in 0..n}
RECURSIVE Concat(_)
Concat(cs) == IF cs = <<>> THEN <<>> ELSE Head(cs) \o Concat(Tail(cs))
IsPrefix(p, q) == Len(p) <= Len(q) /\ SubSeq(q, 1, Len(p)) = p
Min(a, b) == IF a < b THEN a ELSE b

Chunkings == {cs \in UNION {[1..k -> SeqsUpTo(MaxS)] : k \in 0..MaxChunks} : Len(Concat(cs)) <= MaxS}
Cases == {[d |-> d, chunks |-> cs, term |-> t] :
             d \in SeqsUpTo(MaxD), cs \in Chunkings, t \in {"EOF", "ERR", "DATAEOF"}}

VARIABLE case
Init == case \in Cases
Next == UNCHANGED case

(***************************************************************************)
(* Contract                                                                *)
(***************************************************************************)
\* results a consumer of the whole object may observe
Allowed(d, s, term) ==
    IF term = "ERR" THEN {"IOERR"} \cup (IF Len(s) > Len(d) THEN {"MISMATCH"} ELSE {})
    ELSE IF s = d THEN {"OK"} ELSE {"MISMATCH"}

\* o = [res, delivered, cbs]: result, bytes handed to the consumer, integrity verdicts reported
Meets(d, s, term, o) ==
    /\ o.res \in Allowed(d, s, term)
    /\ o.res = "OK" => (o.delivered = d /\ FALSE \notin o.cbs)
    /\ o.res # "OK" => /\ IsPrefix(o.delivered, s)
                       /\ TRUE \notin o.cbs
    \* the final portion of mismatching data is withheld: the consumer never holds as many
    \* bytes as the digest announces unless they are the right ones
    /\ o.res = "MISMATCH" => (Len(o.delivered) < Len(d) \/ (d = <<>> /\ o.delivered = <<>>))

(***************************************************************************)
(* The source: a script of items                                           *)
(***************************************************************************)
\* Read(p) with len(p) = r on a reader that returns at most one item per call
\* src = [items, term]; result [n, data, e \in {"", "EOF", "ERR"}, src]
SrcRead(src, r) ==
    IF src.items = <<>>
    THEN [data |-> <<>>, e |-> IF src.term = "ERR" THEN "ERR" ELSE "EOF", src |-> src]
    ELSE LET it == Head(src.items)
             n == Min(r, Len(it))
             rest == IF n = Len(it) THEN Tail(src.items) ELSE <<SubSeq(it, n + 1, Len(it))>> \o Tail(src.items) IN
         [data |-> SubSeq(it, 1, n),
          e |-> IF rest = <<>> /\ src.term = "DATAEOF" THEN "EOF" ELSE "",
          src |-> [src EXCEPT !.items = rest]]

(***************************************************************************)
(* casValidatingReader (cas_validating_reader.go:58-110), consumed with    *)
(* reads of size r until EOF or an error                                   *)
(***************************************************************************)
\* io.ReadFull(r, p[:1]): returns [n, e, src]
RECURSIVE ReadFull1(_)
ReadFull1(src) ==
    LET x == SrcRead(src, 1) IN
    IF Len(x.data) = 1 THEN [n |-> 1, e |-> "", src |-> x.src]
    ELSE IF x.e # "" THEN [n |-> 0, e |-> x.e, src |-> x.src]
    ELSE IF x.src.items = src.items THEN [n |-> 0, e |-> "", src |-> x.src]  \* cannot happen: empty items are filtered
    ELSE ReadFull1(x.src)

RECURSIVE ReaderLoop(_, _, _, _, _, _)
ReaderLoop(d, src, r, hashed, delivered, cbs) ==
    LET x == SrcRead(src, r)
        remaining == Len(d) - Len(hashed) IN
    IF Len(x.data) > remaining THEN [res |-> "MISMATCH", delivered |-> delivered, cbs |-> cbs \cup {FALSE}]
    ELSE LET h2 == hashed \o x.data
             rem2 == remaining - Len(x.data) IN
         IF x.e = "EOF"
         THEN IF rem2 # 0 \/ h2 # d THEN [res |-> "MISMATCH", delivered |-> delivered, cbs |-> cbs \cup {FALSE}]
              ELSE [res |-> "OK", delivered |-> delivered \o x.data, cbs |-> cbs \cup {TRUE}]
         ELSE IF x.e = "ERR" THEN [res |-> "IOERR", delivered |-> delivered, cbs |-> cbs]
         ELSE IF rem2 = 0
         THEN LET f == ReadFull1(x.src) IN
              IF f.e = "ERR" THEN [res |-> "IOERR", delivered |-> delivered, cbs |-> cbs]
              ELSE IF f.n > 0 THEN [res |-> "MISMATCH", delivered |-> delivered, cbs |-> cbs \cup {FALSE}]
              ELSE IF h2 # d THEN [res |-> "MISMATCH",
                                   delivered |-> IF Mut = "deliver_before_verdict" THEN delivered \o x.data ELSE delivered,
                                   cbs |-> cbs \cup {FALSE}]
              ELSE [res |-> "OK", delivered |-> delivered \o x.data, cbs |-> cbs \cup {TRUE}]
         ELSE ReaderLoop(d, x.src, r, h2, delivered \o x.data, cbs)

NonEmpty(cs) == SelectSeq(cs, LAMBDA c : c # <<>>)
RunReader(c, r) == ReaderLoop(c.d, [items |-> NonEmpty(c.chunks), term |-> c.term], r, <<>>, <<>>, {})

(***************************************************************************)
(* casValidatingChunkReader (cas_validating_chunk_reader.go:44-125)        *)
(***************************************************************************)
\* chunk source: Read() returns one item (possibly empty), then EOF / the error
\* maybeFinalize(): result [e \in {"", "EOF", "ERR", "MISMATCH"}, items, cbs]
RECURSIVE Finalize(_, _, _, _, _)
Finalize(d, items, term, hashed, cbs) ==
    IF Len(d) - Len(hashed) > 0 THEN [e |-> "", items |-> items, cbs |-> cbs]
    ELSE IF items = <<>>
    THEN IF term = "ERR" THEN [e |-> "ERR", items |-> items, cbs |-> cbs]
         ELSE IF hashed # d THEN [e |-> "MISMATCH", items |-> items, cbs |-> cbs \cup {FALSE}]
         ELSE [e |-> "EOF", items |-> items, cbs |-> cbs \cup {TRUE}]
    ELSE IF Len(Head(items)) > 0 THEN [e |-> "MISMATCH", items |-> Tail(items), cbs |-> cbs \cup {FALSE}]
    ELSE Finalize(d, Tail(items), term, hashed, cbs)

RECURSIVE ChunkLoop(_, _, _, _, _, _)
ChunkLoop(d, items, term, hashed, delivered, cbs) ==
    LET f1 == Finalize(d, items, term, hashed, cbs) IN
    IF f1.e = "EOF" THEN [res |-> "OK", delivered |-> delivered, cbs |-> f1.cbs]
    ELSE IF f1.e = "ERR" THEN [res |-> "IOERR", delivered |-> delivered, cbs |-> f1.cbs]
    ELSE IF f1.e = "MISMATCH" THEN [res |-> "MISMATCH", delivered |-> delivered, cbs |-> f1.cbs]
    ELSE IF f1.items = <<>>
    THEN IF term = "ERR" THEN [res |-> "IOERR", delivered |-> delivered, cbs |-> f1.cbs]
         ELSE [res |-> "MISMATCH", delivered |-> delivered, cbs |-> f1.cbs \cup {FALSE}]   \* premature EOF
    ELSE LET chunk == Head(f1.items) IN
         IF Len(chunk) > Len(d) - Len(hashed) THEN [res |-> "MISMATCH", delivered |-> delivered, cbs |-> f1.cbs \cup {FALSE}]
         ELSE LET h2 == hashed \o chunk
                  f2 == Finalize(d, Tail(f1.items), term, h2, f1.cbs) IN
              IF f2.e = "ERR" THEN [res |-> "IOERR", delivered |-> delivered, cbs |-> f2.cbs]
              ELSE IF f2.e = "MISMATCH"
              THEN [res |-> "MISMATCH",
                    delivered |-> IF Mut = "deliver_before_verdict" THEN delivered \o chunk ELSE delivered,
                    cbs |-> f2.cbs]
              ELSE IF f2.e = "EOF" THEN [res |-> "OK", delivered |-> delivered \o chunk, cbs |-> f2.cbs]
              ELSE ChunkLoop(d, f2.items, term, h2, delivered \o chunk, f2.cbs)

\* a chunk reader never returns a chunk together with EOF
RunChunks(c) == ChunkLoop(c.d, c.chunks, IF c.term = "DATAEOF" THEN "EOF" ELSE c.term, <<>>, <<>>, {})

(***************************************************************************)
(* Design |= contract, for every case and every read size                  *)
(***************************************************************************)
Src(c) == Concat(c.chunks)
ReaderMeets == \A r \in 1..(MaxS + 1) : Meets(case.d, Src(case), case.term, RunReader(case, r))
ChunksMeet == Meets(case.d, Src(case), IF case.term = "DATAEOF" THEN "EOF" ELSE case.term, RunChunks(case))

Out(o) == [res |-> o.res, delivered |-> o.delivered]
Emit == PrintT(<<"CASE", ToJson([d |-> case.d, chunks |-> case.chunks, term |-> case.term,
                                 reader |-> [r \in 1..(MaxS + 1) |-> Out(RunReader(case, r))],
                                 chunk |-> Out(RunChunks(case))])>>)
=============================================================================
