------------------------------ MODULE ExpiryDefs ------------------------------
(* Contract of actionResultExpiringBlobAccess over observations of the real decorator (see ActionExpiry.tla).
   An observation o: [minTs, minValidity, maxJitter (whole seconds, relative to the harness's base time),
   ts (worker_completed_timestamp in seconds, -1 = the stored ActionResult carries none), backend ("ok" | "absent" | "error"),
   panic, steps: seq of [inst, now, code, same (TRUE iff the delivered message equals the stored one)]]:
   the same stored result was requested through several decorator instances at several moments of a virtual clock. *)
EXTENDS Integers, Sequences, FiniteSets, TLC, Json
StepOK(o, s) ==
    CASE o.backend = "absent" -> s.code = "NOT_FOUND"
      [] o.backend = "error" -> s.code = "INTERNAL"                                  \* back-end errors are passed on, not masked
      [] OTHER ->
           /\ s.code \in {"OK", "NOT_FOUND"}
           /\ s.code = "OK" => s.same                                                  \* what is served is what is stored
           /\ o.ts = -1 => s.code = "OK"                                               \* no timestamp: passed through
           /\ (s.code = "OK" /\ o.ts # -1) => o.ts >= o.minTs /\ s.now < o.ts + o.minValidity + o.maxJitter   \* Sound
           /\ s.code = "NOT_FOUND" => o.ts # -1 /\ (o.ts < o.minTs \/ s.now > o.ts + o.minValidity)             \* Fresh
ExpiryOK(o) ==
    /\ o.panic = ""
    /\ \A i \in 1..Len(o.steps) : StepOK(o, o.steps[i])
    /\ \A i, j \in 1..Len(o.steps) :
          /\ o.steps[i].now = o.steps[j].now => o.steps[i].code = o.steps[j].code                                \* Agree (any instance)
          /\ (o.backend = "ok" /\ o.steps[i].now <= o.steps[j].now /\ o.steps[i].code = "NOT_FOUND") => o.steps[j].code = "NOT_FOUND"  \* Monotone
=============================================================================
