------------------------ MODULE RoutingContractTrace ------------------------
(* C19 -- contract monitor for observations of the real trie, demultiplexer and hierarchical-instance-names decorator. *)
EXTENDS RoutingDefs
Trace == ndJsonDeserialize("trace.ndjson")
VARIABLE l
Ev == Trace[l]
TInit == l = 1
TNext == /\ l <= Len(Trace) /\ l' = l + 1
         /\ \/ Ev.ev = "Trie" /\ TrieOK(Ev)
            \/ Ev.ev = "Demux" /\ DemuxOK(Ev)
            \/ Ev.ev = "Hier" /\ HierOK(Ev)
TSpec == TInit /\ [][TNext]_l
Accepted == TLCGet("stats").diameter - 1 = Len(Trace)
=============================================================================
