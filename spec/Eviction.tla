------------------------------- MODULE Eviction -------------------------------
(***************************************************************************)
(* Beyond the listed properties: the cache replacement sets of             *)
(* pkg/eviction (LRU, FIFO, RR) that the existence cache (C17) and the     *)
(* read-canarying decorator rely on.  The state space is the list of       *)
(* operation sequences that respect the interface's preconditions; the     *)
(* contract says what Peek may return after each of them.                  *)
(***************************************************************************)
EXTENDS EvictionDefs
CONSTANTS Elems, MaxOps
VARIABLES order,   \* elements present, least recently inserted-or-touched first (LRU view)
          fifo,    \* elements present, in insertion order (FIFO view)
          ops      \* the operations so far: [op, x]
Init == order = <<>> /\ fifo = <<>> /\ ops = <<>>
Insert(x) == /\ x \notin ToSet(order) /\ order' = Append(order, x) /\ fifo' = Append(fifo, x) /\ ops' = Append(ops, [op |-> "insert", x |-> x])
Touch(x) == /\ x \in ToSet(order) /\ order' = Append(Remove(order, x), x) /\ fifo' = fifo /\ ops' = Append(ops, [op |-> "touch", x |-> x])
\* Peek followed by Remove of what it returned; which element that is depends on the policy, so the model keeps
\* both views and the observation says which element went (the trace monitor replays it)
Next == Len(ops) < MaxOps /\ \E x \in Elems : Insert(x) \/ Touch(x)
Emit == PrintT(<<"CASE", ToJson([ops |-> ops])>>)

=============================================================================
