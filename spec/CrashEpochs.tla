----------------------------- MODULE CrashEpochs -----------------------------
(***************************************************************************)
(* C02 / C03 -- design specification of crash safety of the persistent     *)
(* local store at object level: epochs with secret seeds                   *)
(* (persistent_block_list.go), index records tagged with an epoch and a    *)
(* checksum seeded by it (block_device_backed_location_record_array.go),   *)
(* data sync -> expose epochs -> atomic state-file write -> release of     *)
(* popped blocks (periodic_syncer.go), region reuse by the allocator,      *)
(* crash with loss of any subset of unsynced data writes and of index      *)
(* record writes, and recovery (NewPersistentBlockList).                   *)
(*                                                                         *)
(* Abstractions: the state-file write is atomic (the directory protocol is *)
(* exercised on the real code by the crash harness); an object's data is   *)
(* written in one step; sectors are not modelled (ditto).                  *)
(***************************************************************************)
EXTENDS Integers, Sequences, FiniteSets, TLC

CONSTANTS Uploads,      \* upload identities
          NumRegions,
          MaxBlocks,    \* bound on PushBack()s
          MaxSyncs,
          MaxCrashes,   \* number of crashes after which the run stops (the store restarts after the others)
          Mut

VARIABLES
    blocks,     \* live blocks, oldest first: [abs, reg, gen, ec]
    nextAbs,
    epochs,     \* live epochs, oldest first: [id, seed, last]  (last = abs index of the block the epoch is attributed to)
    nextEpochId, nextSeed,
    syncingE, syncedE,
    toRelease,  \* regions of popped blocks awaiting NotifyPersistentStateWritten
    releasing,
    regGen,     \* region -> generation (bumped when the region is handed out again)
    free,       \* set of free regions
    up,         \* upload -> [pc, abs, reg, gen, acked]
    rec,        \* upload -> current index record [epoch, bfl, seed] or NoRec
    stale,      \* index records that were overwritten (may still be on the medium if the overwrite is lost)
    volData,    \* uploads whose data has been written since the last completed sync
    durData,    \* uploads whose data is durable
    syncSnap,   \* data captured by the sync in progress
    state,      \* durable state file: [oldest, blks: Seq of [reg, gen, seeds]]
    snap,       \* state being written
    storeLock,  \* "" | "pl" | "rl"
    plpc, rlpc, nsyncs,
    ackedAtSync, committedAcks, dirty, pdirty,  \* ghost for C03(b)
    ncrash,
    phase,      \* "run" | "post"
    visible     \* after recovery: upload -> TRUE if a valid record for it survived

vars == <<blocks, nextAbs, epochs, nextEpochId, nextSeed, syncingE, syncedE, toRelease, releasing, regGen, free, up, rec, stale,
          volData, durData, syncSnap, state, snap, storeLock, plpc, rlpc, nsyncs, ackedAtSync, committedAcks, dirty, pdirty, ncrash, phase, visible>>

NoRec == [epoch |-> -1, bfl |-> -1, seed |-> -1, u |-> ""]
Idle == [pc |-> "idle", abs |-> -1, reg |-> -1, gen |-> -1, acked |-> FALSE]
Last(s) == s[Len(s)]
Acked == {u \in Uploads : up[u].acked}

Init ==
    /\ blocks = <<>> /\ nextAbs = 0
    /\ epochs = <<>> /\ nextEpochId = 1 /\ nextSeed = 1
    /\ syncingE = 0 /\ syncedE = 0
    /\ toRelease = <<>> /\ releasing = 0
    /\ regGen = [r \in 1..NumRegions |-> 0] /\ free = 1..NumRegions
    /\ up = [u \in Uploads |-> Idle] /\ rec = [u \in Uploads |-> NoRec] /\ stale = {}
    /\ volData = {} /\ durData = {} /\ syncSnap = {}
    /\ state = [oldest |-> 1, blks |-> <<>>] /\ snap = [oldest |-> 1, blks |-> <<>>]
    /\ storeLock = "" /\ plpc = "idle" /\ rlpc = "idle" /\ nsyncs = 0
    /\ ackedAtSync = {} /\ committedAcks = {} /\ dirty = FALSE /\ pdirty = FALSE
    /\ ncrash = 0 /\ phase = "run" /\ visible = [u \in Uploads |-> FALSE]

(***************************************************************************)
(* The store                                                               *)
(***************************************************************************)
PushBack ==
    /\ phase = "run" /\ nextAbs < MaxBlocks /\ free # {} /\ Len(blocks) < 3
    /\ LET r == CHOOSE r \in free : \A q \in free : r <= q IN
       /\ free' = free \ {r}
       /\ regGen' = [regGen EXCEPT ![r] = @ + 1]
       /\ blocks' = Append(blocks, [abs |-> nextAbs, reg |-> r, gen |-> regGen[r] + 1, ec |-> 0])
       \* whatever an earlier generation of the region held is destroyed by the new owner's writes
       /\ durData' = {u \in durData : up[u].reg # r}
       /\ volData' = {u \in volData : up[u].reg # r}
    /\ nextAbs' = nextAbs + 1
    /\ UNCHANGED <<epochs, nextEpochId, nextSeed, syncingE, syncedE, toRelease, releasing, up, rec, stale, syncSnap, state, snap,
                   storeLock, plpc, rlpc, nsyncs, ackedAtSync, committedAcks, dirty, pdirty, ncrash, phase, visible>>

PopFront ==
    /\ phase = "run" /\ Len(blocks) > 1
    /\ LET b == blocks[1]
           keep == Len(epochs) - b.ec IN
       /\ blocks' = Tail(blocks)
       /\ toRelease' = IF Mut = "release_at_pop" THEN toRelease ELSE Append(toRelease, b.reg)
       /\ free' = IF Mut = "release_at_pop" THEN free \cup {b.reg} ELSE free
       /\ epochs' = SubSeq(epochs, b.ec + 1, Len(epochs))
       /\ syncingE' = IF b.ec >= syncingE THEN 0 ELSE syncingE - b.ec
       /\ syncedE' = IF b.ec >= syncedE THEN 0 ELSE syncedE - b.ec
    /\ UNCHANGED <<nextAbs, nextEpochId, nextSeed, releasing, regGen, up, rec, stale, volData, durData, syncSnap, state, snap,
                   storeLock, plpc, rlpc, nsyncs, ackedAtSync, committedAcks, dirty, pdirty, ncrash, phase, visible>>

\* allocate space for an upload in the newest block and write its data
Write(u) ==
    /\ phase = "run" /\ up[u].pc = "idle" /\ Len(blocks) > 0
    /\ LET b == Last(blocks) IN
       /\ up' = [up EXCEPT ![u] = [pc |-> "written", abs |-> b.abs, reg |-> b.reg, gen |-> b.gen, acked |-> FALSE]]
       /\ volData' = volData \cup {u}
    /\ UNCHANGED <<blocks, nextAbs, epochs, nextEpochId, nextSeed, syncingE, syncedE, toRelease, releasing, regGen, free, rec, stale,
                   durData, syncSnap, state, snap, storeLock, plpc, rlpc, nsyncs, ackedAtSync, committedAcks, dirty, pdirty, ncrash, phase, visible>>

\* the block (absolute number) a record on the medium resolves to against the live epochs, or -1
ResolveLive(r) ==
    LET hit == {i \in 1..Len(epochs) : epochs[i].id = r.epoch /\ epochs[i].seed = r.seed} IN
    IF hit = {} THEN -1
    ELSE LET e == epochs[CHOOSE i \in hit : TRUE] IN
         IF r.bfl < 0 \/ e.last - r.bfl < blocks[1].abs THEN -1 ELSE e.last - r.bfl

\* BlockIndexToBlockReference: tag with the newest epoch
NewRec(u, eps, abs) == [epoch |-> Last(eps).id, bfl |-> Last(eps).last - abs, seed |-> Last(eps).seed, u |-> u]

\* the finalizer (epoch creation) and the index insertion, in one critical section; the insertion may
\* displace another upload's record, which is then re-written tagged with the newest epoch
Finalize(u, displaced) ==
    /\ phase = "run" /\ up[u].pc = "written"
    /\ up[u].abs >= blocks[1].abs            \* otherwise: "block has already been released"
    /\ LET newEpoch == (IF Mut = "no_epoch_after_sync" THEN FALSE ELSE Len(epochs) = syncingE)
                       \/ epochs = <<>> \/ Last(epochs).last < up[u].abs
           eps == IF newEpoch
                  THEN Append(epochs, [id |-> nextEpochId, seed |-> IF Mut = "constant_seed" THEN 7 ELSE nextSeed,
                                       last |-> Last(blocks).abs])
                  ELSE epochs
           r1 == [rec EXCEPT ![u] = NewRec(u, eps, up[u].abs)]
           \* only a record that is valid at this moment can be displaced; it is re-written for the
           \* block it resolves to
           r2 == IF displaced # u /\ rec[displaced] # NoRec /\ ResolveLive(rec[displaced]) >= 0
                 THEN [r1 EXCEPT ![displaced] = NewRec(displaced, eps, ResolveLive(rec[displaced]))] ELSE r1 IN
       /\ epochs' = eps
       /\ nextEpochId' = IF newEpoch THEN nextEpochId + 1 ELSE nextEpochId
       /\ nextSeed' = IF newEpoch THEN nextSeed + 1 ELSE nextSeed
       /\ blocks' = IF newEpoch THEN [blocks EXCEPT ![Len(blocks)].ec = @ + 1] ELSE blocks
       /\ rec' = r2
       /\ stale' = stale \cup ({rec[u], rec[displaced]} \ {NoRec})
       /\ up' = [up EXCEPT ![u].pc = "done", ![u].acked = TRUE]
       /\ dirty' = TRUE /\ pdirty' = TRUE
    /\ UNCHANGED <<nextAbs, syncingE, syncedE, toRelease, releasing, regGen, free, volData, durData, syncSnap, state, snap, storeLock,
                   plpc, rlpc, nsyncs, ackedAtSync, committedAcks, ncrash, phase, visible>>

(***************************************************************************)
(* PeriodicSyncer                                                          *)
(***************************************************************************)
\* Lock; NotifySyncStarting; Unlock; (the device sync starts: it covers what has been written so far)
SyncStart ==
    /\ phase = "run" /\ plpc = "idle" /\ nsyncs < MaxSyncs
    /\ syncingE' = Len(epochs) /\ syncSnap' = volData
    /\ plpc' = "syncing" /\ nsyncs' = nsyncs + 1
    /\ ackedAtSync' = Acked /\ pdirty' = FALSE
    /\ UNCHANGED <<blocks, nextAbs, epochs, nextEpochId, nextSeed, syncedE, toRelease, releasing, regGen, free, up, rec, stale, volData,
                   durData, state, snap, storeLock, rlpc, committedAcks, dirty, ncrash, phase, visible>>

\* the device sync returns; Lock; NotifySyncCompleted; Unlock
SyncEnd ==
    /\ phase = "run" /\ plpc = "syncing"
    /\ durData' = durData \cup (IF Mut = "no_data_sync" THEN {} ELSE syncSnap \cap volData)
    /\ volData' = volData \ syncSnap
    /\ syncedE' = IF Mut = "expose_all_epochs" THEN Len(epochs) ELSE syncingE
    /\ plpc' = "synced"
    /\ UNCHANGED <<blocks, nextAbs, epochs, nextEpochId, nextSeed, syncingE, toRelease, releasing, regGen, free, up, rec, stale, syncSnap,
                   state, snap, storeLock, rlpc, nsyncs, ackedAtSync, committedAcks, dirty, pdirty, ncrash, phase, visible>>

\* GetPersistentState(): the blocks whose epochs are (partly) synchronized, with those epochs' seeds
StateOf(bs, eps, nsynced) ==
    LET RECURSIVE Build(_, _, _)
        Build(i, first, acc) ==
            IF first >= nsynced \/ i > Len(bs) THEN acc
            ELSE LET lastE == IF first + bs[i].ec > nsynced THEN nsynced ELSE first + bs[i].ec IN
                 Build(i + 1, first + bs[i].ec,
                       Append(acc, [reg |-> bs[i].reg, gen |-> bs[i].gen, abs |-> bs[i].abs,
                                    seeds |-> [j \in 1..(lastE - first) |-> eps[first + j].seed]]))
    IN Build(1, 0, <<>>)

GetState(who) ==
    /\ phase = "run" /\ storeLock = ""
    /\ IF who = "pl" THEN plpc = "synced" /\ plpc' = "writing" /\ rlpc' = rlpc
       ELSE rlpc = "idle" /\ toRelease # <<>> /\ rlpc' = "writing" /\ plpc' = plpc
    /\ storeLock' = who
    /\ snap' = [oldest |-> IF epochs = <<>> THEN nextEpochId ELSE epochs[1].id, blks |-> StateOf(blocks, epochs, syncedE)]
    /\ releasing' = Len(toRelease)
    /\ UNCHANGED <<blocks, nextAbs, epochs, nextEpochId, nextSeed, syncingE, syncedE, toRelease, regGen, free, up, rec, stale, volData,
                   durData, syncSnap, state, nsyncs, ackedAtSync, committedAcks, dirty, pdirty, ncrash, phase, visible>>

\* the new state file replaced the old one durably; Lock; NotifyPersistentStateWritten; Unlock
StateWritten(who) ==
    /\ phase = "run" /\ storeLock = who
    /\ state' = snap
    /\ LET n == IF Mut = "release_all" THEN Len(toRelease) ELSE releasing IN
       /\ free' = free \cup {toRelease[i] : i \in 1..n}
       /\ toRelease' = SubSeq(toRelease, n + 1, Len(toRelease))
    /\ releasing' = 0 /\ storeLock' = ""
    /\ IF who = "pl" THEN plpc' = "idle" /\ rlpc' = rlpc /\ committedAcks' = ackedAtSync /\ dirty' = pdirty
       ELSE rlpc' = "idle" /\ plpc' = plpc /\ committedAcks' = committedAcks /\ dirty' = dirty
    /\ UNCHANGED <<blocks, nextAbs, epochs, nextEpochId, nextSeed, syncingE, syncedE, regGen, up, rec, stale, volData, durData, syncSnap,
                   snap, nsyncs, ackedAtSync, pdirty, ncrash, phase, visible>>

(***************************************************************************)
(* Crash and recovery                                                      *)
(***************************************************************************)
\* A record read back after the restart is valid iff its epoch is one the state file lists, the
\* checksum seed matches that epoch's seed, and it does not point before the first restored block.
RestoredEpochs(st) ==
    LET RECURSIVE Flat(_, _, _)
        Flat(i, id, acc) ==
            IF i > Len(st.blks) THEN acc
            ELSE LET b == st.blks[i] IN
                 Flat(i + 1, id + Len(b.seeds),
                      acc \o [j \in 1..Len(b.seeds) |-> [id |-> id + j - 1, seed |-> b.seeds[j], blk |-> i]])
    IN Flat(1, st.oldest, <<>>)

\* block (index into st.blks) a record resolves to, or 0
Resolve(st, r) ==
    LET eps == RestoredEpochs(st)
        hit == {i \in 1..Len(eps) : eps[i].id = r.epoch /\ eps[i].seed = r.seed} IN
    IF hit = {} THEN 0
    ELSE LET e == eps[CHOOSE i \in hit : TRUE] IN
         IF r.bfl > e.blk - 1 \/ r.bfl < 0 THEN 0 ELSE e.blk - r.bfl

\* machine crash: any subset of current and stale records survives, any subset of unsynced data survives
Crash(keepRecs, keepData, machine) ==
    /\ phase = "run"
    /\ keepRecs \subseteq ({rec[u] : u \in Uploads} \cup stale) \ {NoRec}
    /\ keepData \subseteq volData
    /\ machine \/ (keepData = volData /\ keepRecs = {rec[u] : u \in Uploads} \ {NoRec})
    /\ phase' = "post" /\ ncrash' = ncrash + 1
    /\ durData' = durData \cup keepData
    /\ visible' = [u \in Uploads |-> \E r \in keepRecs : r.u = u /\ Resolve(state, r) # 0]
    /\ stale' = keepRecs
    /\ UNCHANGED <<blocks, nextAbs, epochs, nextEpochId, nextSeed, syncingE, syncedE, toRelease, releasing, regGen, free, up, rec,
                   volData, syncSnap, state, snap, storeLock, plpc, rlpc, nsyncs, ackedAtSync, committedAcks, dirty, pdirty>>

\* NewPersistentBlockList + NewOldCurrentNewLocationBlobMap from the durable state file: the listed
\* blocks are re-attached, their epochs known again; everything else is forgotten.  Index records
\* that survived stay on the medium; data written after the last completed sync survives or not
\* as the crash decided.
Restart ==
    /\ phase = "post" /\ ncrash < MaxCrashes
    /\ LET eps == RestoredEpochs(state)
           nb == Len(state.blks) IN
       /\ blocks' = [i \in 1..nb |-> [abs |-> state.blks[i].abs, reg |-> state.blks[i].reg, gen |-> state.blks[i].gen,
                                       ec |-> Len(state.blks[i].seeds)]]
       /\ epochs' = [i \in 1..Len(eps) |-> [id |-> eps[i].id, seed |-> eps[i].seed, last |-> state.blks[eps[i].blk].abs]]
       /\ nextEpochId' = state.oldest + Len(eps)
       /\ syncingE' = Len(eps) /\ syncedE' = Len(eps)
       /\ free' = (1..NumRegions) \ {state.blks[i].reg : i \in 1..nb}
       \* block numbers continue after the last restored block: the numbers of forgotten blocks are
       \* used again, exactly like their positions in the real list
       /\ nextAbs' = IF nb = 0 THEN 0 ELSE state.blks[nb].abs + 1
    /\ toRelease' = <<>> /\ releasing' = 0
    /\ volData' = {} /\ syncSnap' = {}
    \* what the index holds for an upload is a surviving record that validates, if there is one
    /\ rec' = [u \in Uploads |-> LET ok == {r \in stale : r.u = u /\ Resolve(state, r) # 0} IN
                                 IF ok = {} THEN NoRec ELSE CHOOSE r \in ok : TRUE]
    \* an upload that did not survive the crash is no longer "acknowledged and present"
    /\ up' = [u \in Uploads |-> IF up[u].pc = "done" THEN [up[u] EXCEPT !.acked = visible[u]] ELSE Idle]
    /\ snap' = state /\ storeLock' = "" /\ plpc' = "idle" /\ rlpc' = "idle"
    /\ ackedAtSync' = {} /\ committedAcks' = {} /\ dirty' = FALSE /\ pdirty' = FALSE
    /\ phase' = "run"
    /\ UNCHANGED <<nextSeed, regGen, stale, durData, state, nsyncs, ncrash, visible>>

Next ==
    \/ Restart
    \/ PushBack \/ PopFront
    \/ \E u \in Uploads : Write(u) \/ (\E d \in Uploads : Finalize(u, d))
    \/ SyncStart \/ SyncEnd \/ GetState("pl") \/ GetState("rl") \/ StateWritten("pl") \/ StateWritten("rl")
    \/ \E kr \in SUBSET (({rec[u] : u \in Uploads} \cup stale) \ {NoRec}), kd \in SUBSET volData : Crash(kr, kd, TRUE)
    \/ Crash({rec[u] : u \in Uploads} \ {NoRec}, volData, FALSE)

Spec == Init /\ [][Next]_vars

(***************************************************************************)
(* Properties                                                              *)
(***************************************************************************)
\* C02: after recovery, every record that validates points at the block (same region, same
\* generation) its upload was written into, that block is one the state file lists, the region has
\* not been handed out again, and the upload's data is durable.
CrashSafe ==
    phase = "post" =>
        \A r \in stale :
            LET i == Resolve(state, r) IN
            i # 0 => LET b == state.blks[i]
                         u == r.u IN
                     /\ b.reg = up[u].reg /\ b.gen = up[u].gen /\ b.abs = up[u].abs
                     /\ regGen[b.reg] = b.gen
                     /\ u \in durData
\* While running (in particular after a restart), every record on the medium that validates against
\* the live epochs points at the block incarnation its upload was written into, and the bytes are
\* there.  (Records of epochs that were forgotten by a crash must not validate again when their
\* epoch numbers are reused: that is what the secret per-epoch seeds are for.)
LiveSafe ==
    (phase = "run" /\ blocks # <<>>) =>
        \A r \in (stale \cup {rec[u] : u \in Uploads}) \ {NoRec} :
            LET a == ResolveLive(r) IN
            a >= 0 => LET b == blocks[a - blocks[1].abs + 1] IN
                      /\ a = up[r.u].abs /\ b.reg = up[r.u].reg /\ b.gen = up[r.u].gen
                      /\ r.u \in durData \cup volData
\* a block listed in the durable state file is never free (its region is not handed out again)
ListedNotFree ==
    phase = "run" => \A i \in 1..Len(state.blks) : state.blks[i].reg \notin free \/ regGen[state.blks[i].reg] # state.blks[i].gen
ListedNotFreeStrict ==
    phase = "run" => \A i \in 1..Len(state.blks) : regGen[state.blks[i].reg] = state.blks[i].gen => state.blks[i].reg \notin free
\* C03(b): uploads acknowledged before the start of a commit that completed, with no upload or
\* refresh since, are visible after a process crash -- unless their block was rotated out
CommitDurable ==
    (phase = "post" /\ ~dirty /\ blocks # <<>>) =>
        \A u \in committedAcks : (up[u].abs >= blocks[1].abs /\ rec[u] \in stale) => visible[u]
Counters == 0 <= syncedE /\ syncedE <= syncingE /\ syncingE <= Len(epochs)
=============================================================================
