---------------------------- MODULE ReadThroughDefs ----------------------------
(***************************************************************************)
(* C17 (a) -- contract of the read-caching and read-fallback composites    *)
(* over observables.  F is the fast (caching) / primary (fallback) back    *)
(* end, S the slow / secondary one.                                        *)
(***************************************************************************)
EXTENDS Integers, Sequences, FiniteSets, TLC, Json
ToSet(q) == {q[i] : i \in 1..Len(q)}

\* o: [kind, op, objs, repl, f0, s0, f1, s1, failed, res, code, missing]
ReadThroughOK(o) ==
    LET S == o.objs
        either == o.f0 \cup o.s0
        copying == o.repl # "noop" IN
    /\ o.f0 \subseteq o.f1 /\ o.s0 \subseteq o.s1
    \* reads never write to the slow / secondary back end; uploads go only to the slow resp. primary one
    /\ o.op \in {"Get", "Fm"} => o.s1 = o.s0
    /\ (o.op = "Put" /\ o.kind = "caching") => o.f1 = o.f0
    /\ (o.op = "Put" /\ o.kind = "fallback") => o.s1 = o.s0
    /\ (o.kind = "caching" /\ o.op = "Fm") => o.f1 = o.f0
    \* a failure of a back end (other than NOT_FOUND) may fail the operation; the property does not say it must,
    \* so an answer given despite a failure only has to be a right one
    /\ (o.failed = {}) => (o.res # "ERR" \/ (o.op = "Get" /\ o.code = "NotFound"))
    /\ CASE o.op = "Get" ->
              LET d == CHOOSE d \in S : TRUE IN
              /\ o.res \in {"Data", "ERR"}
              /\ o.res = "Data" => d \in either
              /\ (o.failed = {} /\ d \in either) => o.res = "Data"
              \* after a successful read-through the object is in the fast resp. primary back end
              /\ (o.res = "Data" /\ d \in o.s0 \ o.f0 /\ copying) => d \in o.f1
         [] o.op = "Put" ->
              /\ o.res \in {"OK", "ERR"}
              /\ o.res = "OK" => (IF o.kind = "caching" THEN S \subseteq o.s1 ELSE S \subseteq o.f1)
         [] o.op = "Fm" ->
              /\ o.res \in {"OK", "ERR"}
              /\ o.res = "OK" => /\ o.missing = (IF o.kind = "caching" THEN S \ o.s0 ELSE S \ either)
                                 /\ (o.kind = "fallback" /\ copying) => (S \cap o.s0) \subseteq o.f1
=============================================================================
