------------------------------ MODULE ErrorRetry ------------------------------
(***************************************************************************)
(* C16 -- case generator: every chain of at most MaxSegs segments for      *)
(* objects of MinN..MaxN bytes (see ErrorRetryDefs.tla).  The state space  *)
(* is the case list.  The invariants state properties of the contract      *)
(* itself: the number of bytes delivered never exceeds the object, every   *)
(* chain ending in an "ok" segment succeeds, and every error is offered to *)
(* the handler once.                                                       *)
(***************************************************************************)
EXTENDS ErrorRetryDefs

CONSTANTS MinN, MaxN, MaxSegs

Segs(n) == [kind : {"ok", "errbuf", "wrong"}, cnt : {0}] \cup [kind : {"fail"}, cnt : 0..n]
Cases == UNION {{[n |-> n, segs |-> s] : s \in UNION {[1..k -> Segs(n)] : k \in 1..MaxSegs}} : n \in MinN..MaxN}

VARIABLE case
Init == case \in Cases
Next == UNCHANGED case

Sane ==
    \A off \in 0..case.n :
        LET e == ExpectedStream(case.n, case.segs, off) IN
        /\ e.pos <= case.n /\ e.pos >= 0
        /\ e.errs <= Len(case.segs)
        /\ (e.res = "OK" => e.pos = case.n /\ ~e.tainted)
        /\ (\A i \in 1..Len(case.segs) : case.segs[i].kind \in {"fail", "errbuf"} \/ i = Len(case.segs)) /\ case.segs[Len(case.segs)].kind = "ok"
              => e.res = "OK" /\ e.errs = Len(case.segs) - 1
Emit == PrintT(<<"CASE", ToJson(case)>>)
=============================================================================
