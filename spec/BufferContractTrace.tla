------------------------- MODULE BufferContractTrace -------------------------
(***************************************************************************)
(* C09 -- contract monitor for observations of real CAS buffers.  One line *)
(* per (case, digest function, source kind, constructor, consumption       *)
(* method): what the consumer received, the status code, the integrity     *)
(* verdicts reported.  Each line is judged on its own against the contract *)
(* of BufferValidate.tla.                                                  *)
(***************************************************************************)
EXTENDS Integers, Sequences, FiniteSets, TLC, Json

Trace == ndJsonDeserialize("trace.ndjson")
VARIABLE l
Ev == Trace[l]

IsPrefix(p, q) == Len(p) <= Len(q) /\ SubSeq(q, 1, Len(p)) = p
Min(a, b) == IF a < b THEN a ELSE b
Max(a, b) == IF a > b THEN a ELSE b
ToSet(q) == {q[i] : i \in 1..Len(q)}
Drop(q, n) == IF n >= Len(q) THEN <<>> ELSE SubSeq(q, n + 1, Len(q))

Allowed(d, s, term) ==
    IF term = "ERR" THEN {"IOERR"} \cup (IF Len(s) > Len(d) THEN {"MISMATCH"} ELSE {})
    ELSE IF s = d THEN {"OK"} ELSE {"MISMATCH"}

MismatchCode(kind) == IF kind = "user" THEN "InvalidArgument" ELSE "Internal"

ObsOK(o) ==
    LET d == o.d
        s == o.s
        term == IF o.ctor = "slice" THEN "EOF" ELSE IF o.ctor = "chunk" /\ o.term = "DATAEOF" THEN "EOF" ELSE o.term
        A == Allowed(d, s, term)
        off == IF o.method = "ToChunkReader" THEN o.a1 ELSE IF o.method = "ReadAt" THEN o.a2 ELSE 0
        cbs == ToSet(o.cbs)
        class == IF o.code = "Aborted" THEN "IOERR" ELSE IF o.code = MismatchCode(o.kind) THEN "MISMATCH" ELSE "OTHER" IN
    /\ o.res \in {"OK", "ERR"}                      \* never a panic
    /\ IF o.method = "ToByteSlice" /\ o.a1 < Len(d)
       THEN \* a consumer-imposed limit below the object's size: never data
            o.res = "ERR"
       ELSE IF off < 0 \/ off > Len(d)
       THEN \* an offset outside the object: an error or end-of-file, never data
            o.delivered = <<>>
       ELSE /\ o.res = "OK" =>
                /\ "OK" \in A
                /\ o.delivered = (IF o.method = "ReadAt" THEN SubSeq(d, off + 1, Min(off + o.a1, Len(d))) ELSE Drop(d, off))
                /\ FALSE \notin cbs
            /\ o.res = "ERR" =>
                /\ class \in A
                /\ TRUE \notin cbs
                /\ IsPrefix(o.delivered, Drop(s, off))
                \* the final portion is withheld
                /\ class = "MISMATCH" => (o.delivered = <<>> \/ off + Len(o.delivered) < Len(d))
                /\ (class = "MISMATCH" /\ o.kind = "backend") => FALSE \in cbs
    \* the source handed to the buffer is closed exactly once, whatever happened
    /\ o.closed = 1

TInit == l = 1
TNext == l <= Len(Trace) /\ Ev.ev = "Obs" /\ ObsOK(Ev) /\ l' = l + 1
TSpec == TInit /\ [][TNext]_l
Accepted == TLCGet("stats").diameter - 1 = Len(Trace)
=============================================================================
