------------------------------ MODULE RoutingDefs ------------------------------
(***************************************************************************)
(* C19 -- instance-name routing.  Instance names are sequences of          *)
(* components; "prefix" always means component-wise prefix.                *)
(***************************************************************************)
EXTENDS Integers, Sequences, FiniteSets, TLC, Json

IsPrefix(p, q) == Len(p) <= Len(q) /\ SubSeq(q, 1, Len(p)) = p
ToSet(s) == {s[i] : i \in 1..Len(s)}
Prefixes(q) == {SubSeq(q, 1, k) : k \in 0..Len(q)}

\* the longest registered prefix of q, or <<"?">> if none
Longest(P, q) ==
    LET c == {p \in P : IsPrefix(p, q)} IN
    IF c = {} THEN <<"?">> ELSE CHOOSE p \in c : \A r \in c : Len(r) <= Len(p)

\* the matched prefix replaced by the configured one
Patch(q, p, add) == add \o SubSeq(q, Len(p) + 1, Len(q))

(***************************************************************************)
(* InstanceNameTrie: tr is a set of [name, v]                              *)
(***************************************************************************)
TrieApply(tr, op) ==
    IF op.op = "set" THEN {e \in tr : e.name # op.name} \cup {[name |-> op.name, v |-> op.v]}
    ELSE {e \in tr : e.name # op.name}
RECURSIVE TrieAfter(_, _)
TrieAfter(ops, n) == IF n = 0 THEN {} ELSE TrieApply(TrieAfter(ops, n - 1), ops[n])
TrieExact(tr, q) == IF \E e \in tr : e.name = q THEN (CHOOSE e \in tr : e.name = q).v ELSE -1
TrieLongest(tr, q) == LET l == Longest({e.name : e \in tr}, q) IN IF l = <<"?">> THEN -1 ELSE TrieExact(tr, l)
TrieOK(o) ==
    LET tr == TrieAfter(o.ops, Len(o.ops)) IN
    /\ o.panic = ""
    /\ \A i \in 1..Len(o.queries) :
          LET x == o.queries[i] IN
          /\ x.exact = TrieExact(tr, x.name)
          /\ x.longest = TrieLongest(tr, x.name)
          /\ x.contains = (TrieLongest(tr, x.name) >= 0)
    /\ o.empty = (tr = {})

(***************************************************************************)
(* demultiplexingBlobAccess: cfg is a sequence of [match, add, has]        *)
(***************************************************************************)
DemuxOK(o) ==
    LET P == {o.prefixes[i].match : i \in 1..Len(o.prefixes)}
        ent(p) == o.prefixes[CHOOSE i \in 1..Len(o.prefixes) : o.prefixes[i].match = p]
        items == ToSet(o.items)
        route(it) == Longest(P, it.name)
        unknown == {it \in items : route(it) = <<"?">>}
        calls == ToSet(o.calls) IN
    /\ o.panic = ""
    /\ IF unknown # {}
       THEN \* unknown instance names are rejected, nothing is forwarded
            /\ o.res = "ERR" /\ o.code = "InvalidArgument"
            /\ (o.op # "Fm" => calls = {})
       ELSE /\ o.res = "OK"
            \* every back end is asked exactly about the objects routed to it, under the rewritten names
            /\ \A c \in calls :
                  /\ c.backend \in P
                  /\ ToSet(c.items) = {[obj |-> it.obj, name |-> Patch(it.name, route(it), ent(route(it)).add)] : it \in {x \in items : route(x) = c.backend}}
            /\ {c.backend : c \in calls} = {route(it) : it \in items}
            /\ Cardinality(calls) = Len(o.calls)
            \* the answer is the union of the back ends' answers, in the caller's names
            /\ o.op = "Fm" => ToSet(o.missing) = {it \in items : ~ent(route(it)).has}
            /\ o.op = "Get" => (o.found = \A it \in items : ent(route(it)).has)

(***************************************************************************)
(* hierarchicalInstanceNamesBlobAccess: placement is a set of [obj, name]  *)
(***************************************************************************)
HierOK(o) ==
    LET pl == ToSet(o.placement)
        has(obj, n) == [obj |-> obj, name |-> n] \in pl
        anc(it) == {p \in Prefixes(it.name) : has(it.obj, p)} IN
    /\ o.panic = ""
    /\ o.res = "OK"
    /\ o.op = "Fm" => ToSet(o.missing) = {it \in ToSet(o.items) : anc(it) = {}}
    /\ o.op = "Get" =>
          LET it == o.items[1] IN
          /\ o.found = (anc(it) # {})
          \* the object stored under the most specific ancestor is the one returned
          /\ o.found => o.servedFrom = (CHOOSE p \in anc(it) : \A r \in anc(it) : Len(r) <= Len(p))
=============================================================================
