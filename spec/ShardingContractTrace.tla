------------------------ MODULE ShardingContractTrace ------------------------
(* C12 -- contract monitor for observations of the real shard selector and sharding composite. *)
EXTENDS ShardingDefs
Trace == ndJsonDeserialize("trace.ndjson")
VARIABLE l
Ev == Trace[l]
\* JSON objects arrive as records; before / after / shardOf are records keyed by shard key resp. object name
SetRec(r) == [k \in DOMAIN r |-> ToSet(r[k])]
ConvSel(e) == [panic |-> e.panic, keys |-> ToSet(e.keys), base |-> e.base, again |-> e.again, perms |-> e.perms,
               removals |-> e.removals, additions |-> e.additions]
ConvOp(e) == [panic |-> e.panic, op |-> e.op, objs |-> ToSet(e.objs), shardOf |-> e.shardOf, before |-> SetRec(e.before), after |-> SetRec(e.after),
              failing |-> ToSet(e.failing), calls |-> {[key |-> e.calls[i].key, op |-> e.calls[i].op, objs |-> ToSet(e.calls[i].objs)] : i \in 1..Len(e.calls)},
              ncalls |-> Len(e.calls), res |-> e.res, code |-> e.code, named |-> ToSet(e.named), missing |-> ToSet(e.missing)]
TInit == l = 1
TNext == /\ l <= Len(Trace) /\ l' = l + 1
         /\ \/ Ev.ev = "Selector" /\ SelectorOK(ConvSel(Ev))
            \/ Ev.ev = "Shard" /\ ShardOK(ConvOp(Ev))
TSpec == TInit /\ [][TNext]_l
Accepted == TLCGet("stats").diameter - 1 = Len(Trace)
=============================================================================
