------------------------- MODULE IndexContractTrace -------------------------
(***************************************************************************)
(* C06 -- trace monitor: checks executions recorded from the real          *)
(* hashingKeyLocationMap (either record array back end) against            *)
(* IndexContract.  One JSON line per call:                                 *)
(*   {"ev":"Reset","id":..,"keys":[..]}             start of a new trace   *)
(*   {"ev":"Inject","id":..,"keys":..,"stored":..,"released":..,"gets":..}  *)
(*   {"ev":"Put","key":k,"abs":a,"off":o,"d":n,"gets":{k:{abs,off}}}       *)
(*   {"ev":"Release","released":r,"gets":{..}}                             *)
(* "d" is the number of discards the index reported through its metrics    *)
(* during the call, "gets" the result of Get for every key after the call. *)
(* A trace is accepted iff every line can be consumed.                     *)
(***************************************************************************)
EXTENDS Integers, Sequences, FiniteSets, TLC, Json, IndexContract

Trace == ndJsonDeserialize("trace.ndjson")

VARIABLES l, ks, stored, released, discards, g
tvars == <<l, ks, stored, released, discards, g>>

ToSet(s) == {s[i] : i \in 1..Len(s)}

TInit == /\ l = 1 /\ ks = {} /\ stored = <<>> /\ released = 0 /\ discards = 0 /\ g = <<>>

Ev == Trace[l]

Reset ==
    /\ Ev.ev = "Reset"
    /\ ks' = ToSet(Ev.keys)
    /\ stored' = [k \in ToSet(Ev.keys) |-> {}]
    /\ released' = 0 /\ discards' = 0
    /\ g' = [k \in ToSet(Ev.keys) |-> None]

\* Start of a one-step trace from a table state that was injected into the
\* real record array: the ghost state comes from the (reachable) model state,
\* the lookup results from the real code.
Inject ==
    /\ Ev.ev = "Inject"
    /\ LET K == ToSet(Ev.keys)
           g1 == [j \in K |-> Ev.gets[j]]
           st1 == [k \in K |-> ToSet(Ev.stored[k])] IN
       /\ Sound(K, g1, st1, Ev.released)
       /\ NoSilentLoss(K, g1, st1, Ev.released, Ev.discards)
       /\ ks' = K /\ stored' = st1 /\ g' = g1
       /\ released' = Ev.released /\ discards' = Ev.discards

PutEv ==
    /\ Ev.ev = "Put"
    /\ LET k == Ev.key
           loc == [abs |-> Ev.abs, off |-> Ev.off]
           g1 == [j \in ks |-> Ev.gets[j]]
           st1 == [stored EXCEPT ![k] = @ \cup {loc}] IN
       /\ Ev.d \in {0, 1}
       /\ PutFrame(ks, g, g1, k, loc, Ev.d)
       /\ Sound(ks, g1, st1, released)
       /\ NoSilentLoss(ks, g1, st1, released, discards + Ev.d)
       /\ g' = g1 /\ stored' = st1 /\ discards' = discards + Ev.d
    /\ UNCHANGED <<ks, released>>

ReleaseEv ==
    /\ Ev.ev = "Release"
    /\ LET g1 == [j \in ks |-> Ev.gets[j]] IN
       /\ Ev.released = released + 1
       /\ ReleaseExact(ks, g, g1, released + 1)
       /\ Sound(ks, g1, stored, released + 1)
       /\ NoSilentLoss(ks, g1, stored, released + 1, discards)
       /\ g' = g1 /\ released' = released + 1
    /\ UNCHANGED <<ks, stored, discards>>

TNext == l <= Len(Trace) /\ l' = l + 1 /\ (Reset \/ Inject \/ PutEv \/ ReleaseEv)

TSpec == TInit /\ [][TNext]_tvars

Accepted == TLCGet("stats").diameter - 1 = Len(Trace)
=============================================================================
