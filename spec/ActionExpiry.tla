---------------------------- MODULE ActionExpiry ----------------------------
(* Design of actionResultExpiringBlobAccess (pkg/blobstore/action_result_expiring_blob_access.go):
   an Action Cache decorator that hides ActionResults whose worker_completed_timestamp is older than a
   configured minimum, or whose age exceeds MinValidity plus a jitter.  The jitter is a function of the
   timestamp alone, so that every server of a cluster takes the same decision ("safe to use in a
   distributed setting") and so that a result, once expired, stays expired.

   Time is in whole seconds.  ts[k] = -1 stands for a result without a (valid) timestamp, which is passed
   through untouched.  Two decorator instances (Insts) share the back end and the clock; each Get is one
   action (the decorator holds no state, so there is nothing to interleave inside a call). *)
EXTENDS Integers, FiniteSets, TLC
CONSTANTS Keys, Insts, MaxTs, MaxTime, MinTs, MinValidity, MaxJitter, Mut
ASSUME MaxJitter >= 1
VARIABLES now, ts, jit, res, at
vars == <<now, ts, jit, res, at>>

TsDom == 0..MaxTs
Init == /\ now = 0
        /\ ts \in [Keys -> TsDom \cup {-1}]
        /\ jit \in [TsDom -> 0..(MaxJitter - 1)]        \* any deterministic function of the timestamp
        /\ res = [i \in Insts |-> [k \in Keys |-> "none"]]
        /\ at = [i \in Insts |-> [k \in Keys |-> 0]]

Jitter(i, k) == CASE Mut = "jitter_from_now" -> jit[now % (MaxTs + 1)]
                  [] Mut = "jitter_per_instance" -> (jit[ts[k]] + (IF i = CHOOSE j \in Insts : TRUE THEN 0 ELSE 1)) % MaxJitter
                  [] OTHER -> jit[ts[k]]
Expired(i, k) == IF Mut = "expires_at_deadline" THEN now >= ts[k] + MinValidity + Jitter(i, k)
                 ELSE now > ts[k] + MinValidity + Jitter(i, k)
TooOld(k) == IF Mut = "no_minimum" THEN FALSE ELSE ts[k] < MinTs
Verdict(i, k) == IF ts[k] = -1 THEN IF Mut = "untimed_hidden" THEN "nf" ELSE "ok"
                 ELSE IF TooOld(k) \/ Expired(i, k) THEN "nf" ELSE "ok"

Get(i, k) == /\ res' = [res EXCEPT ![i][k] = Verdict(i, k)]
             /\ at' = [at EXCEPT ![i][k] = now]
             /\ UNCHANGED <<now, ts, jit>>
Tick == now < MaxTime /\ now' = now + 1 /\ UNCHANGED <<ts, jit, res, at>>
Next == Tick \/ \E i \in Insts, k \in Keys : Get(i, k)
Spec == Init /\ [][Next]_vars

(* What a user relies on. *)
Asked(i, k) == res[i][k] # "none"
\* a served result carries no timestamp, or one that is recent enough and not older than the longest possible validity
Sound == \A i \in Insts, k \in Keys : res[i][k] = "ok" /\ ts[k] # -1 =>
            ts[k] >= MinTs /\ at[i][k] < ts[k] + MinValidity + MaxJitter
\* a result is hidden only for a reason: too old a timestamp, or at least MinValidity has passed
Fresh == \A i \in Insts, k \in Keys : res[i][k] = "nf" =>
            ts[k] # -1 /\ (ts[k] < MinTs \/ at[i][k] > ts[k] + MinValidity)
\* every instance takes the same decision at the same moment for the same timestamp
Agree == \A i, j \in Insts, k, m \in Keys :
            Asked(i, k) /\ Asked(j, m) /\ ts[k] = ts[m] /\ at[i][k] = at[j][m] => res[i][k] = res[j][m]
\* once hidden, always hidden (time only moves forward)
Monotone == [][\A i \in Insts, k \in Keys : res[i][k] = "nf" => res'[i][k] = "nf"]_vars
=============================================================================
