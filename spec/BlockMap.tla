------------------------------- MODULE BlockMap -------------------------------
(***************************************************************************)
(* Transcription of OldCurrentNewLocationBlobMap                           *)
(* (pkg/blobstore/local/old_current_new_location_blob_map.go) together     *)
(* with the volatile block list and the block allocator's region           *)
(* accounting, as pure operators over a "store state" record               *)
(*                                                                         *)
(*   S = [oldN, curN, newN,      groups of the block list                  *)
(*        released, tbr,         totalBlocksReleased / ToBeReleased        *)
(*        aIdx, aLeft,           allocationBlockIndex / AttemptsRemaining  *)
(*        used,                  sequence: units used per live block       *)
(*        free, zomb,            free regions; popped-but-pinned blocks    *)
(*        allocs,                number of PushBack()s ever (NewBlock)     *)
(*        err]                   "" or the error of a failed PushBack      *)
(*                                                                         *)
(* Blocks are identified by their absolute number (abs = released + the    *)
(* relative index the code uses); relative indices shift on PopFront.      *)
(***************************************************************************)
EXTENDS Integers, Sequences, FiniteSets

CONSTANTS BlockSize,   \* units per block
          DesOld, DesCur, DesNew,
          Spare,       \* spare regions; -1 = unlimited (in-memory allocator)
          Policy       \* "immutable" | "mutable"

Pow2(n) == IF n <= 0 THEN 1 ELSE IF n = 1 THEN 2 ELSE IF n = 2 THEN 4 ELSE IF n = 3 THEN 8 ELSE 16
Max(a, b) == IF a > b THEN a ELSE b

ShouldGrowNew(cur, new) ==
    IF Policy = "immutable" THEN cur + new < DesCur + DesNew ELSE new < 1
ShouldGrowCur(cur) ==
    IF Policy = "immutable" THEN FALSE ELSE cur < DesCur

InitStore ==
    [oldN |-> 0, curN |-> 0, newN |-> 0, released |-> 0, tbr |-> 0,
     aIdx |-> -1, aLeft |-> 0, used |-> <<>>,
     free |-> IF Spare < 0 THEN -1 ELSE DesOld + DesCur + DesNew + Spare,
     zomb |-> {}, allocs |-> 0, err |-> ""]

NumLive(S) == Len(S.used)
HasSpace(S, idx, size) == S.used[idx + 1] + size <= BlockSize

\* blockList.PopFront() + totalBlocksReleased++ ; `pinned` tells whether the
\* block's use count stays positive (readers / writers still attached).
PopFront(S, pins) ==
    LET abs == S.released IN
    [S EXCEPT !.used = Tail(@), !.released = @ + 1,
              !.free = IF pins[abs] = 0 /\ @ >= 0 THEN @ + 1 ELSE @,
              !.zomb = IF pins[abs] = 0 THEN @ ELSE @ \cup {abs}]

\* blockList.PushBack(): allocator NewBlock()
PushBack(S) ==
    IF S.free = 0 THEN [S EXCEPT !.err = "UNAVAILABLE"]
    ELSE [S EXCEPT !.used = Append(@, 0), !.allocs = @ + 1,
                   !.free = IF @ > 0 THEN @ - 1 ELSE @]

ResetAlloc(S) == [S EXCEPT !.aIdx = -1, !.aLeft = 0]

\* Loop 1: physically release quarantined blocks
RECURSIVE L1(_, _)
L1(S, pins) ==
    IF S.released < S.tbr
    THEN LET P == PopFront(S, pins) IN
         L1(IF P.oldN > 0 THEN [P EXCEPT !.oldN = @ - 1]
            ELSE IF P.curN > 0 THEN [P EXCEPT !.curN = @ - 1]
            ELSE ResetAlloc([P EXCEPT !.newN = @ - 1]), pins)
    ELSE S

\* Loop 2: grow the "new" group
RECURSIVE L2(_)
L2(S) ==
    IF S.err = "" /\ ShouldGrowNew(S.curN, S.newN)
    THEN LET P == PushBack(S) IN
         IF P.err # "" THEN P ELSE L2([P EXCEPT !.newN = @ + 1])
    ELSE S

\* Loop 3: rotate until the first "new" block has space
RECURSIVE L3(_, _, _)
L3(S, size, pins) ==
    IF S.err # "" \/ HasSpace(S, S.oldN + S.curN, size) THEN S
    ELSE IF S.newN > DesNew
    THEN L3(ResetAlloc([S EXCEPT !.curN = @ + 1, !.newN = @ - 1]), size, pins)
    ELSE LET P == PushBack(S) IN
         IF P.err # "" THEN P
         ELSE IF ShouldGrowCur(P.curN)
         THEN L3(ResetAlloc([P EXCEPT !.curN = @ + 1]), size, pins)
         ELSE LET Q == [P EXCEPT !.oldN = @ + 1] IN
              IF Q.oldN > DesOld
              THEN LET R == PopFront(Q, pins) IN
                   L3(ResetAlloc([R EXCEPT !.oldN = @ - 1, !.tbr = Max(@, R.released)]), size, pins)
              ELSE L3(ResetAlloc(Q), size, pins)

\* Loop 4: pick a "new" block
RECURSIVE L4(_, _)
L4(S, size) ==
    IF S.aLeft > 0 /\ HasSpace(S, S.oldN + S.curN + S.aIdx, size)
    THEN [s |-> [S EXCEPT !.aLeft = @ - 1], idx |-> S.oldN + S.curN + S.aIdx]
    ELSE LET i == (S.aIdx + 1) % S.newN IN
         L4([S EXCEPT !.aIdx = i,
                      !.aLeft = IF i >= S.newN - DesNew THEN Pow2(S.newN - i - 1) ELSE Pow2(DesNew)], size)

\* findBlockWithSpace(): result [s |-> store state, idx |-> relative index or -1]
FindBlockWithSpace(S0, size, pins) ==
    LET A == L3(L2(L1(S0, pins)), size, pins) IN
    IF A.err # "" THEN [s |-> A, idx |-> -1] ELSE L4(A, size)

\* A location resolves iff its block is live and not quarantined.
Resolves(S, abs) == abs >= S.released /\ abs >= S.tbr /\ abs < S.released + NumLive(S)
NeedsRefresh(S, abs) == abs - S.released < S.oldN
=============================================================================
