------------------------------ MODULE MirrorDefs ------------------------------
(***************************************************************************)
(* C11 -- contract of mirrored storage over observables: the operation,    *)
(* the contents of both replicas before and after it, which replica calls  *)
(* failed (other than NOT_FOUND), the result and which replica the error   *)
(* message names.                                                          *)
(***************************************************************************)
EXTENDS Integers, Sequences, FiniteSets, TLC, Json

ToSet(q) == {q[i] : i \in 1..Len(q)}

\* o: [op, objs, first, repl, a0, b0, a1, b1, failed (set of replica names), directFailed, res, code, missing, named (set)]
MirrorOK(o) ==
    LET S == o.objs
        either == o.a0 \cup o.b0
        firstBefore == IF o.first = "A" THEN o.a0 ELSE o.b0
        firstAfter == IF o.first = "A" THEN o.a1 ELSE o.b1
        copying == o.repl # "noop" IN
    \* replicas only ever gain the objects the operation is about (replicas that evict on their
    \* own -- real local stores -- are marked lossy)
    /\ o.lossy \/ (o.a0 \subseteq o.a1 /\ o.b0 \subseteq o.b1)
    /\ (o.a1 \cup o.b1) \subseteq (either \cup S)
    /\ IF o.failed # {}
       THEN \* a replica failure is surfaced as an error: never NOT_FOUND, never success
            /\ o.res = "ERR" /\ o.code # "NotFound"
            \* ... naming the replica that failed (or the repair / synchronisation step that failed)
            /\ o.named # {}
            \* when a call of the operation itself failed on a replica (as opposed to a copy made to repair or
            \* synchronise), that replica is among those named
            /\ (o.directFailed # {} /\ o.named \cap {"repl", "sync"} = {}) => (o.named \cap o.directFailed # {})
       ELSE CASE o.op = "Get" ->
                   LET d == CHOOSE d \in S : TRUE IN
                   /\ (d \in either) => o.res = "Data"
                   /\ (d \notin either) => (o.res = "ERR" /\ o.code = "NotFound")
                   \* a read repairs the replica that was consulted first
                   /\ (d \in either /\ d \notin firstBefore /\ copying) => d \in firstAfter
              [] o.op = "Put" ->
                   /\ o.res = "OK"
                   /\ S \subseteq o.a1 /\ S \subseteq o.b1
              [] o.op = "Fm" ->
                   /\ o.res = "OK"
                   /\ o.missing = S \ either
                   /\ copying => (S \cap either) \subseteq (o.a1 \cap o.b1)
=============================================================================
