------------------------------- MODULE Mirrored -------------------------------
(***************************************************************************)
(* C11 -- design specification of mirroredBlobAccess                       *)
(* (pkg/blobstore/mirrored/mirrored_blob_access.go) with local replicators *)
(* (replication/local_blob_replicator.go, with_blob_replicator.go) over    *)
(* two replicas that are sets of objects.  The environment chooses, per    *)
(* operation, which calls on which replica fail (a plan of "ok"/"fail" per *)
(* replica, consumed one entry per call).  Operations are sequential; the  *)
(* replica consulted first alternates with the round counter.              *)
(***************************************************************************)
EXTENDS MirrorDefs

CONSTANTS Objs, MaxOps, Repl, Mut

VARIABLES A, B, round, nops, last, hist
vars == <<A, B, round, nops, last, hist>>

Plans == {<<>>, <<"fail">>, <<"ok", "fail">>}
Fails(plan, n) == n <= Len(plan) /\ plan[n] = "fail"

\* Get(d): result record [res, code, a1, b1, failed, named, calls]
DoGet(d, pa, pb) ==
    LET firstIsA == IF Mut = "never_alternate" THEN TRUE ELSE (round + 1) % 2 = 1
        F == IF firstIsA THEN A ELSE B
        Sx == IF firstIsA THEN B ELSE A
        pf == IF firstIsA THEN pa ELSE pb
        ps == IF firstIsA THEN pb ELSE pa
        fn == IF firstIsA THEN "A" ELSE "B"
        sn == IF firstIsA THEN "B" ELSE "A"
        mk(res, code, f1, failed, named) ==
            [res |-> res, code |-> code, a1 |-> IF firstIsA THEN f1 ELSE A, b1 |-> IF firstIsA THEN B ELSE f1,
             failed |-> failed, named |-> named, first |-> fn, missing |-> {}] IN
    IF Fails(pf, 1) THEN mk("ERR", "Unavailable", F, {fn}, {fn})
    ELSE IF d \in F THEN mk("Data", "OK", F, {}, {})
    ELSE IF Fails(ps, 1) THEN mk("ERR", "Unavailable", F, {sn}, {sn})
    ELSE IF d \notin Sx THEN mk("ERR", "NotFound", F, {}, {})
    ELSE IF Repl = "noop" THEN mk("Data", "OK", F, {}, {})
    ELSE IF Mut = "repair_wrong_replica" THEN mk("Data", "OK", F, {}, {})
    ELSE IF Fails(pf, 2) THEN mk("ERR", "Unavailable", F, {fn}, {"repl"})
    ELSE mk("Data", "OK", F \cup {d}, {}, {})

DoPut(d, pa, pb) ==
    LET fa == Fails(pa, 1)
        fb == Fails(pb, 1) IN
    [res |-> IF fa \/ (fb /\ Mut # "put_ignores_b") THEN "ERR" ELSE "OK", code |-> IF fa \/ fb THEN "Unavailable" ELSE "OK",
     a1 |-> IF fa THEN A ELSE A \cup {d}, b1 |-> IF fb THEN B ELSE B \cup {d},
     failed |-> (IF fa THEN {"A"} ELSE {}) \cup (IF fb THEN {"B"} ELSE {}),
     named |-> (IF fa THEN {"A"} ELSE {}) \cup (IF fb THEN {"B"} ELSE {}), first |-> "-", missing |-> {}]

\* FindMissing(S): both replicas are asked, then each direction is synchronised
DoFm(S, pa, pb) ==
    LET fa == Fails(pa, 1)
        fb == Fails(pb, 1)
        onlyA == (S \cap A) \ B
        onlyB == (S \cap B) \ A
        \* A->B: per object A.Get, B.Put ; B->A: B.Get, A.Put  (calls 2.. of each replica; an
        \* injected failure of any of them aborts the synchronisation)
        syncFail == (onlyA # {} \/ onlyB # {}) /\ (Fails(pa, 2) \/ Fails(pb, 2)) /\ Repl # "noop"
        miss == IF Mut = "missing_from_a_only" THEN S \ A ELSE S \ (A \cup B) IN
    IF fa \/ fb
    THEN [res |-> "ERR", code |-> "Unavailable", a1 |-> A, b1 |-> B,
          failed |-> (IF fa THEN {"A"} ELSE {}) \cup (IF fb THEN {"B"} ELSE {}),
          named |-> (IF fa THEN {"A"} ELSE {}) \cup (IF fb THEN {"B"} ELSE {}), first |-> "-", missing |-> {}]
    ELSE IF syncFail
    THEN [res |-> "ERR", code |-> "Unavailable", a1 |-> A, b1 |-> B, failed |-> {"A", "B"}, named |-> {"sync"}, first |-> "-", missing |-> {}]
    ELSE [res |-> "OK", code |-> "OK",
          a1 |-> IF Repl = "noop" THEN A ELSE A \cup onlyB, b1 |-> IF Repl = "noop" THEN B ELSE B \cup onlyA,
          failed |-> {}, named |-> {}, first |-> "-", missing |-> miss]

Obs(op, S, pa, pb, r) ==
    [op |-> op, objs |-> S, first |-> r.first, repl |-> Repl, a0 |-> A, b0 |-> B, a1 |-> r.a1, b1 |-> r.b1,
     failed |-> r.failed, directFailed |-> IF r.named \cap {"repl", "sync"} = {} THEN r.failed ELSE {},
     res |-> r.res, code |-> r.code, missing |-> r.missing, named |-> r.named,
     planA |-> pa, planB |-> pb, lossy |-> FALSE]

Step(op, S, pa, pb, r) ==
    /\ nops < MaxOps /\ nops' = nops + 1
    /\ A' = r.a1 /\ B' = r.b1
    /\ round' = IF op = "Get" THEN round + 1 ELSE round
    /\ last' = Obs(op, S, pa, pb, r)
    /\ hist' = Append(hist, last')

Init == /\ A \in SUBSET Objs /\ B \in SUBSET Objs /\ round = 0 /\ nops = 0
        /\ last = [op |-> "Init"] /\ hist = <<>>

Next ==
    \E pa \in Plans, pb \in Plans :
        \/ \E d \in Objs : Step("Get", {d}, pa, pb, DoGet(d, pa, pb))
        \/ \E d \in Objs : Step("Put", {d}, pa, pb, DoPut(d, pa, pb))
        \/ \E S \in SUBSET Objs : S # {} /\ Step("Fm", S, pa, pb, DoFm(S, pa, pb))

Spec == Init /\ [][Next]_vars
View == <<A, B, round % 2, nops>>

\* the plan entries that were not consumed do not count as failures: in the synchronisation of
\* FindMissing the model marks both replicas as possibly failing, which the contract tolerates
Contract == MirrorOK(last')
PropContract == [][Contract]_vars
EmitScript == (nops = MaxOps) => PrintT(<<"SCRIPT", ToJson(hist)>>)
=============================================================================
