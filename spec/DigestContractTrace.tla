------------------------- MODULE DigestContractTrace -------------------------
(* C20 -- contract monitor for observations of pkg/digest. *)
EXTENDS DigestDefs
Trace == ndJsonDeserialize("trace.ndjson")
VARIABLE l
Ev == Trace[l]
SetsOf(q) == [i \in 1..Len(q) |-> ToSet(q[i])]
TInit == l = 1
TNext == /\ l <= Len(Trace) /\ l' = l + 1
         /\ \/ Ev.ev = "Path" /\ PathOK(Ev.case, Ev)
            \/ Ev.ev = "Instance" /\ InstanceOK(Ev.case, Ev)
            \/ Ev.ev = "NewDigest" /\ NewDigestOK(Ev.case, Ev)
            \/ Ev.ev = "RoundTrip" /\ RoundTripOK(Ev.case, Ev)
            \/ Ev.ev = "Keys" /\ KeysOK([a |-> Ev.case.a, b |-> Ev.case.b, keyEq |-> Ev.keyEq, keyInstEq |-> Ev.keyInstEq]) /\ Ev.panic = ""
            \/ Ev.ev = "Sets" /\ SetsOK([sets |-> SetsOf(Ev.case.sets), adds |-> Ev.case.adds], Ev)
            \/ Ev.ev = "Fuzz" /\ FuzzOK(Ev)
TSpec == TInit /\ [][TNext]_l
Accepted == TLCGet("stats").diameter - 1 = Len(Trace)
=============================================================================
