------------------------ MODULE EvictionContractTrace ------------------------
EXTENDS EvictionDefs
Trace == ndJsonDeserialize("trace.ndjson")
VARIABLE l
TInit == l = 1
TNext == l <= Len(Trace) /\ l' = l + 1 /\ EvictionOK(Trace[l])
TSpec == TInit /\ [][TNext]_l
Accepted == TLCGet("stats").diameter - 1 = Len(Trace)
=============================================================================
