------------------------- MODULE StoreContractTrace -------------------------
(***************************************************************************)
(* Contract monitor for executions recorded from the real local store      *)
(* (flat or hierarchical access, any allocator / index back end, volatile  *)
(* or persistent block list, across crashes and restarts).  It speaks only *)
(* about observable events: calls and returns of the BlobAccess API with   *)
(* content identities, block hand-outs and releases of the allocator,      *)
(* readers and writers opened on blocks, integrity verdicts, injected      *)
(* corruption, the calls the PeriodicSyncer makes on its source / data     *)
(* syncer / state store (with virtual time), crashes and restarts.         *)
(* `Clause` selects the property whose conditions are enforced (the        *)
(* bookkeeping is the same for all):                                       *)
(*   "C01"  reads return exactly an upload of the key, or nothing          *)
(*   "C02"  the same across machine crashes with lost / torn writes        *)
(*   "C03"  acknowledged uploads survive graceful shutdown / committed     *)
(*          epochs survive a process crash                                 *)
(*   "C04"  block space not reused while referenced, nothing leaked        *)
(*   "C05"  retention after a successful touch; repeating is idempotent    *)
(*   "C07"  persistence makes progress, respects the minimum epoch         *)
(*          interval, never panics                                         *)
(*   "C08"  quarantine after detected corruption                           *)
(*   "C10"  hierarchical visibility (instance-name prefixes)               *)
(* A trace is accepted iff every line can be consumed.                     *)
(***************************************************************************)
EXTENDS Integers, Sequences, FiniteSets, TLC, Json

CONSTANT Clause

Trace == ndJsonDeserialize("trace.ndjson")

VARIABLES l,   \* next line
          s    \* monitor state (one record, see S0)

tvars == <<l, s>>

Ev == Trace[l]
On(c) == Clause = c
ReadClause == Clause \in {"C01", "C02", "C10"}
ToSet(q) == {q[i] : i \in 1..Len(q)}
Get0(f, x, d) == IF x \in DOMAIN f THEN f[x] ELSE d
Put0(f, x, v) == [y \in DOMAIN f \cup {x} |-> IF y = x THEN v ELSE f[y]]
Del(f, x) == [y \in DOMAIN f \ {x} |-> f[y]]
NoTouch == [a |-> -1, e |-> 0]
NoPut == [a |-> -1, e |-> 0, blk |-> -1]
NoCommit == [keys |-> {}, line |-> 0]
Max(a, b) == IF a > b THEN a ELSE b

S0 == [cfg |-> [access |-> "flat", policy |-> "immutable", old |-> 0, cur |-> 1, new |-> 1, coop |-> TRUE, minEpoch |-> 0, persistent |-> FALSE],
       nValid |-> <<>>,    \* <<inst, key>> -> number of valid uploads in flight or completed OK
       granted |-> <<>>,   \* key -> instance names under which a valid upload completed OK
       inflight |-> <<>>,  \* process -> [a |-> allocs at start, line |-> line of the start event, ta |-> tallocs]
       allocs |-> 0,       \* NewBlock events since the last (re)start
       maxblk |-> 0,       \* highest block number handed out
       tallocs |-> 0,      \* NewBlock events since Reset
       relsd |-> 0,        \* blocks handed back by the block list
       pops |-> 0,         \* PopFront events
       touch |-> <<>>,     \* <<inst, key>> -> [a |-> allocs at the start of the touching call, e |-> line of its end]
       corrupted |-> FALSE,

       dets |-> {},        \* [b, line]: corruption detected in block b at line
       blkRegion |-> <<>>, openR |-> <<>>, openW |-> <<>>,
       wblk |-> <<>>,      \* process -> block its upload is written into
       rblk |-> <<>>,      \* process -> block of the reader it opened last (cooperative runs)
       lastPut |-> <<>>,   \* <<inst, key>> -> [a |-> allocs at the start of the latest acknowledged upload, e |-> line of its end, blk |-> block written]
       idem |-> FALSE,     \* a successful touch is being repeated immediately
       \* persistence
       acked |-> <<>>,     \* <<inst, key>> -> tallocs at the start of the latest acknowledged upload
       cand |-> NoCommit,  \* acknowledged uploads at the latest NotifySyncStarting
       candSynced |-> NoCommit, candState |-> NoCommit,
       committed |-> NoCommit, \* ... of the latest commit (data sync + state write) that completed
       lastDirty |-> 0,    \* line of the latest upload / refresh activity
       lastSyncT |-> -1,   \* virtual time of the latest non-final NotifySyncStarting
       shutdown |-> FALSE,
       phase |-> "run",    \* "run" | "post" (after a restart)
       must |-> {},        \* keys that have to be readable after the restart (C03)
       listedSnap |-> {},  \* regions listed by the state being written
       listed |-> {}]      \* regions listed by the state file that was written last

\* instance names are logged as sequences of components (<<>> is the root)
IsPrefix(a, b) == Len(a) <= Len(b) /\ SubSeq(b, 1, Len(a)) = a
KeyOf(e) == <<e.inst, e.k>>
\* Some valid upload of the key, made under a component-wise prefix of the reader's instance
\* name (flat stores: the same name), is in flight or has completed OK.  Under the cooperative
\* scheduler PutEnd is logged in the same step as the finalizing critical section, so for the
\* hierarchical store the stricter "has completed OK" is used (an upload grants nothing before
\* its content was validated).
Visible(e) ==
    IF s.cfg.access = "hier" /\ s.cfg.coop
    THEN \E i \in Get0(s.granted, e.k, {}) : IsPrefix(i, e.inst)
    ELSE \E x \in DOMAIN s.nValid : x[2] = e.k /\ s.nValid[x] > 0 /\ IsPrefix(x[1], e.inst)

\* Normal rotation pops the oldest block only when a push has made the list one longer than old+current+new
\* blocks (the mutable growth policy keeps a single "new" block), so block b can have been rotated out only if
\* a block numbered at least b + that capacity exists.
Capacity == s.cfg.old + s.cfg.cur + (IF s.cfg.policy = "mutable" THEN 1 ELSE s.cfg.new)
RotationMayHaveTaken(b) == s.maxblk - b >= Capacity

TInit == l = 1 /\ s = S0

Reset ==
    /\ Ev.ev = "Reset"
    /\ s' = [S0 EXCEPT !.cfg = Ev.cfg @@ S0.cfg]

OpStart(kind) ==
    /\ Ev.ev = kind
    \* an immediately repeated touch: the previous line ended a successful touch of the same
    \* key by the same process and nothing else is in flight
    /\ s' = [s EXCEPT
          !.inflight = Put0(@, Ev.p, [a |-> s.allocs, line |-> l, ta |-> s.tallocs]),
          !.rblk = IF Ev.p \in DOMAIN @ THEN Del(@, Ev.p) ELSE @,
          !.idem = /\ kind \in {"GetStart", "FmStart"} /\ l > 1 /\ DOMAIN s.inflight = {}
                   /\ Trace[l - 1].ev = (IF kind = "GetStart" THEN "GetEnd" ELSE "FmEnd")
                   /\ Trace[l - 1].p = Ev.p
                   /\ (kind = "GetStart" => (Trace[l - 1].kind = "Data" /\ Trace[l - 1].k = Ev.k /\ Trace[l - 1].inst = Ev.inst))
                   /\ (kind = "FmStart" => (Trace[l - 1].res = "OK" /\ Trace[l - 1].ks = Ev.ks /\ Trace[l - 1].inst = Ev.inst))]

PutStart ==
    /\ Ev.ev = "PutStart"
    /\ s' = [s EXCEPT
          !.inflight = Put0(@, Ev.p, [a |-> s.allocs, line |-> l, ta |-> s.tallocs]),
          !.lastDirty = l,
          !.idem = FALSE,
          !.nValid = IF Ev.valid THEN Put0(@, KeyOf(Ev), Get0(@, KeyOf(Ev), 0) + 1) ELSE @]

PutEnd ==
    /\ Ev.ev = "PutEnd"
    /\ Ev.p \in DOMAIN s.inflight
    \* an upload of invalid content is never acknowledged
    /\ (ReadClause /\ ~Ev.valid) => Ev.res # "OK"
    \* C08: an upload written into a block that was quarantined meanwhile is not acknowledged
    /\ (On("C08") /\ Ev.res = "OK" /\ Ev.p \in DOMAIN s.wblk) => ~\E d \in s.dets : s.wblk[Ev.p] <= d.b
    \* C08: ... while an upload into a block newer than every block with detected corruption is unaffected: it is
    \* not failed as "written into a released block" unless normal rotation (
    \* started) may have taken its block away
    /\ (On("C08") /\ Ev.valid /\ Ev.res = "Internal" /\ Ev.p \in DOMAIN s.wblk /\ ~\E d \in s.dets : s.wblk[Ev.p] <= d.b)
          => RotationMayHaveTaken(s.wblk[Ev.p])
    /\ s' = [s EXCEPT
          !.nValid = IF Ev.valid /\ Ev.res # "OK" THEN Put0(@, KeyOf(Ev), Get0(@, KeyOf(Ev), 0) - 1) ELSE @,
          !.granted = IF Ev.valid /\ Ev.res = "OK" THEN Put0(@, Ev.k, Get0(@, Ev.k, {}) \cup {Ev.inst}) ELSE @,
          !.acked = IF Ev.valid /\ Ev.res = "OK" THEN Put0(@, KeyOf(Ev), s.inflight[Ev.p].ta) ELSE @,
          !.lastPut = IF Ev.valid /\ Ev.res = "OK"
                      THEN Put0(@, KeyOf(Ev), [a |-> s.inflight[Ev.p].a, e |-> l, blk |-> Get0(s.wblk, Ev.p, -1)]) ELSE @,
          !.inflight = Del(@, Ev.p),
          !.wblk = IF Ev.p \in DOMAIN @ THEN Del(@, Ev.p) ELSE @,
          !.idem = FALSE]

\* C05: NotFound / missing for a key that was touched successfully by a call that ended
\* before this call started requires old+1 allocations since that touch started.
RetentionOK(k, op) ==
    LET t == Get0(s.touch, k, NoTouch) IN
    (On("C05") /\ ~s.corrupted /\ t.a >= 0 /\ op.line > t.e) => s.allocs - t.a >= s.cfg.old + 1

\* C08: "objects in newer blocks are unaffected": an acknowledged upload written into a block newer than every
\* block in which corruption was detected is not lost to the quarantine (only normal rotation may evict it).
UnaffectedOK(k, op) ==
    LET t == Get0(s.lastPut, k, NoPut) IN
    (On("C08") /\ t.a >= 0 /\ t.blk >= 0 /\ op.line > t.e /\ ~\E d \in s.dets : t.blk <= d.b) => RotationMayHaveTaken(t.blk)

\* C10, the converse: absent eviction an object is readable under every instance name that has a prefix under
\* which it was uploaded.  "Absent eviction" is decided soundly from the log: the block an acknowledged upload
\* was written into cannot have been rotated out yet (and nothing was corrupted).
ReadableOK(e, op) ==
    (On("C10") /\ ~s.corrupted) =>
        ~\E x \in DOMAIN s.lastPut :
            /\ x[2] = e.k /\ IsPrefix(x[1], e.inst)
            /\ s.lastPut[x].blk >= 0 /\ op.line > s.lastPut[x].e /\ ~RotationMayHaveTaken(s.lastPut[x].blk)

\* C03: after the restart a key that had to survive is readable, unless normal rotation
\* (old+1 block hand-outs since its upload started) may have evicted it.
SurvivalOK(k, readable) ==
    (On("C03") /\ s.phase = "post" /\ k \in s.must /\ ~readable) => s.tallocs - s.acked[k] >= s.cfg.old + 1

GetEnd ==
    /\ Ev.ev = "GetEnd"
    /\ Ev.p \in DOMAIN s.inflight
    /\ LET op == s.inflight[Ev.p] IN
       /\ (ReadClause /\ Ev.kind = "Data") => (Ev.what = Ev.k /\ Visible(Ev))
       /\ Ev.kind = "NotFound" => (RetentionOK(KeyOf(Ev), op) /\ UnaffectedOK(KeyOf(Ev), op) /\ ReadableOK(Ev, op))
       \* C05 "stays readable": an integrity failure or foreign bytes are as unreadable as NOT_FOUND
       /\ ((Ev.kind = "Error" /\ Ev.what = "Internal") \/ (Ev.kind = "Data" /\ Ev.what # Ev.k)) => RetentionOK(KeyOf(Ev), op)
       /\ SurvivalOK(KeyOf(Ev), Ev.kind = "Data")
       \* C08: a read that does not complete fails as NOT_FOUND, as INTERNAL (stored data no longer matches its digest /
       \* no longer parses) or as UNAVAILABLE (no space to refresh, shutting down) - never as a client error
       /\ (On("C08") /\ Ev.kind = "Error") => Ev.what \in {"Internal", "Unavailable"}
       /\ s' = [s EXCEPT
             !.touch = IF Ev.kind = "Data" THEN Put0(@, KeyOf(Ev), [a |-> op.a, e |-> l]) ELSE @,
             \* a read that fails with INTERNAL has detected corruption in the block it was reading, whether or not
             \* the integrity callback was told so
             !.dets = IF s.cfg.coop /\ Ev.kind = "Error" /\ Ev.what = "Internal" /\ Ev.p \in DOMAIN s.rblk
                      THEN @ \cup {[b |-> s.rblk[Ev.p], line |-> l]} ELSE @,
             !.inflight = Del(@, Ev.p),
             !.idem = FALSE]

FmEnd ==
    /\ Ev.ev = "FmEnd"
    /\ Ev.p \in DOMAIN s.inflight
    /\ LET op == s.inflight[Ev.p]
           ks == ToSet(Ev.ks)
           miss == ToSet(Ev.missing)
           pres == {<<Ev.inst, k>> : k \in ks \ miss} IN
       /\ (Ev.res = "OK" /\ ReadClause) => \A k \in ks \ miss : Visible([k |-> k, inst |-> Ev.inst])
       /\ Ev.res = "OK" => \A k \in miss : /\ RetentionOK(<<Ev.inst, k>>, op) /\ SurvivalOK(<<Ev.inst, k>>, FALSE) /\ UnaffectedOK(<<Ev.inst, k>>, op)
                                            /\ ReadableOK([k |-> k, inst |-> Ev.inst], op)
       /\ s' = [s EXCEPT
             !.touch = IF Ev.res = "OK"
                       THEN [x \in DOMAIN @ \cup pres |-> IF x \in pres THEN [a |-> op.a, e |-> l] ELSE @[x]]
                       ELSE @,
             !.inflight = Del(@, Ev.p),
             !.idem = FALSE]

CompEnd ==
    /\ Ev.ev = "CompEnd"
    /\ Ev.p \in DOMAIN s.inflight
    /\ (ReadClause /\ Ev.kind = "Data") => (Ev.what = Ev.want /\ Visible(Ev))
    /\ s' = [s EXCEPT !.inflight = Del(@, Ev.p), !.idem = FALSE]

NewBlock ==
    /\ Ev.ev \in {"NewBlock", "NewBlockAt"}
    \* C04: the region is not handed out while a reader or writer of an earlier block in it is active
    \* (ReaderClose is logged before the reader lets go of the block, so the reader clause is
    \*  conservative under any interleaving of the log writes; WriterEnd can only be logged
    \*  after the writer released the block, so the writer clause is used under the
    \*  cooperative scheduler only, where a step's events are not interleaved with others)
    /\ (On("C04") /\ Ev.region >= 0) =>
           \A b \in DOMAIN s.blkRegion : s.blkRegion[b] = Ev.region =>
               (Get0(s.openR, b, 0) = 0 /\ (s.cfg.coop => Get0(s.openW, b, 0) = 0))
    \* C04 (persistent list): nor is it handed out while the state file written last still lists it
    /\ (On("C04") /\ Ev.ev = "NewBlock" /\ s.cfg.persistent) => Ev.region \notin s.listed
    \* C05: repeating a touch immediately allocates nothing
    /\ (On("C05") /\ Ev.ev = "NewBlock") => ~s.idem
    /\ s' = [s EXCEPT !.blkRegion = Put0(@, Ev.blk, Ev.region),
                      !.maxblk = Max(@, Ev.blk),
                      !.allocs = IF Ev.ev = "NewBlock" THEN @ + 1 ELSE @,
                      !.tallocs = IF Ev.ev = "NewBlock" THEN @ + 1 ELSE @]

ListRelease == Ev.ev = "ListRelease" /\ s' = [s EXCEPT !.relsd = @ + 1]
PopFront == Ev.ev = "PopFront" /\ s' = [s EXCEPT !.pops = @ + 1]

WriterStart ==
    /\ Ev.ev = "WriterStart"
    /\ On("C05") => ~s.idem   \* repeating a touch immediately writes nothing
    /\ s' = [s EXCEPT !.openW = Put0(@, Ev.blk, Get0(@, Ev.blk, 0) + 1),
                      !.wblk = IF Ev.p # "" THEN Put0(@, Ev.p, Ev.blk) ELSE @,
                      !.lastDirty = l]

WriterEnd ==
    /\ Ev.ev = "WriterEnd"
    /\ On("C04") => Get0(s.openW, Ev.blk, 0) > 0
    /\ s' = [s EXCEPT !.openW = Put0(@, Ev.blk, Get0(@, Ev.blk, 0) - 1)]

ReaderOpen ==
    /\ Ev.ev = "ReaderOpen"
    \* C08: an operation invoked after corruption was detected in block b does not read from blocks <= b
    /\ (On("C08") /\ Ev.p \in DOMAIN s.inflight) =>
           ~\E d \in s.dets : Ev.blk <= d.b /\ s.inflight[Ev.p].line > d.line
    /\ s' = [s EXCEPT !.openR = Put0(@, Ev.blk, Get0(@, Ev.blk, 0) + 1),
                      !.rblk = IF Ev.p # "" THEN Put0(@, Ev.p, Ev.blk) ELSE @]

ReaderClose ==
    /\ Ev.ev = "ReaderClose"
    /\ On("C04") => (Ev.n = 1 /\ Get0(s.openR, Ev.blk, 0) > 0)   \* closed exactly once
    /\ s' = [s EXCEPT !.openR = Put0(@, Ev.blk, Get0(@, Ev.blk, 0) - 1)]

Integrity ==
    /\ Ev.ev = "Integrity"
    \* no data-integrity error on a medium nobody corrupted (C02: whatever a crash lost or tore)
    /\ (ReadClause /\ ~Ev.ok) => s.corrupted
    /\ s' = [s EXCEPT !.dets = IF ~Ev.ok THEN @ \cup {[b |-> Ev.blk, line |-> l]} ELSE @]

Corrupt == Ev.ev = "Corrupt" /\ s' = [s EXCEPT !.corrupted = TRUE]

Quiesce ==
    /\ Ev.ev = "Quiesce"
    /\ On("C04") =>
          /\ Ev.openReaders = 0
          /\ Ev.srcClosedOnce
          /\ \A b \in DOMAIN s.openR : s.openR[b] = 0
          /\ \A b \in DOMAIN s.openW : s.openW[b] = 0
          \* every block the (volatile) list let go of has been returned to the allocator
          /\ (Ev.dev /\ ~s.cfg.persistent) => (Ev.devReleases = s.relsd /\ Ev.devAllocs = s.allocs)
    /\ s' = s

(***************************************************************************)
(* Persistence (C02, C03, C07)                                             *)
(***************************************************************************)
AckedKeys == DOMAIN s.acked

SyncStarting ==
    /\ Ev.ev = "SyncStarting"
    \* C07: consecutive epoch syncs are at least the minimum epoch interval apart while running
    /\ (On("C07") /\ ~Ev.final /\ ~s.shutdown /\ s.lastSyncT >= 0) => Ev.t - s.lastSyncT >= s.cfg.minEpoch
    /\ s' = [s EXCEPT !.cand = [keys |-> AckedKeys, line |-> l],
                      !.lastSyncT = IF Ev.final THEN @ ELSE Ev.t]

SyncCompleted == Ev.ev = "SyncCompleted" /\ s' = [s EXCEPT !.candSynced = s.cand]
GetState == Ev.ev = "GetState" /\ s' = [s EXCEPT !.candState = s.candSynced, !.listedSnap = ToSet(Ev.regions)]
StateWritten == Ev.ev = "StateWritten" /\ s' = [s EXCEPT !.committed = s.candState, !.listed = s.listedSnap]
ShutdownEv == Ev.ev = "Shutdown" /\ s' = [s EXCEPT !.shutdown = TRUE]

\* everything that can happen without a timer expiring has happened
QuiesceNoTimer ==
    /\ Ev.ev = "QuiesceNoTimer"
    \* C07: released blocks are handed back without waiting for the epoch interval
    \* (unless a failed state write is waiting for its retry timer)
    /\ (On("C07") /\ Ev.pendingRetry = 0) => s.relsd = s.pops
    /\ s' = s

\* all timers have been fired until nothing is left to do
QuiescePersistent ==
    /\ Ev.ev = "QuiescePersistent"
    /\ On("C07") =>
          /\ s.relsd = s.pops
          \* every acknowledged upload whose block is still in the list is covered by a completed commit (blocks are
          \* numbered in allocation order and popped oldest first, so block b has been rotated out iff b <= pops;
          \* an upload whose block is gone has nothing left to commit)
          /\ {k \in AckedKeys : LET b == Get0(s.lastPut, k, NoPut).blk IN b < 0 \/ b > s.pops} \subseteq s.committed.keys
    /\ s' = s

Crash ==
    /\ Ev.ev = "Crash"
    /\ s' = [s EXCEPT
          !.must = IF Ev.kind = "graceful" THEN AckedKeys
                   ELSE IF Ev.kind = "process" /\ s.lastDirty < s.committed.line THEN s.committed.keys
                   ELSE {}]

Restart ==
    /\ Ev.ev = "Restart"
    /\ s' = [s EXCEPT !.phase = "post", !.inflight = <<>>, !.allocs = 0, !.relsd = 0, !.pops = 0, !.touch = <<>>,
                      !.dets = {}, !.blkRegion = <<>>, !.openR = <<>>, !.openW = <<>>, !.wblk = <<>>, !.rblk = <<>>, !.lastPut = <<>>, !.idem = FALSE,
                      !.cand = NoCommit, !.candSynced = NoCommit, !.candState = NoCommit, !.committed = NoCommit,
                      !.lastSyncT = -1, !.shutdown = FALSE, !.listedSnap = {}, !.listed = {}]

Panic ==
    /\ Ev.ev = "Panic"
    /\ FALSE    \* a panic inside the store or the syncer is never acceptable

Other ==
    /\ Ev.ev \in {"ErrorLog", "IndexPut", "NewBlockFail", "Note", "IO", "CrashPoint", "TimerNew", "TimerFire", "PutFetch", "RelFetch",
                  "StateWriteStart", "StateWriteEnd", "DataSyncStart", "DataSyncEnd", "Restored", "ShutdownComplete", "PushBack"}
    /\ s' = [s EXCEPT !.lastDirty = IF Ev.ev = "IndexPut" THEN l ELSE @]

GetStart == OpStart("GetStart")
FmStart == OpStart("FmStart")
CompStart == OpStart("CompStart")

TNext ==
    /\ l <= Len(Trace) /\ l' = l + 1
    /\ \/ Reset \/ PutStart \/ PutEnd \/ GetStart \/ GetEnd \/ FmStart \/ FmEnd \/ CompStart \/ CompEnd
       \/ NewBlock \/ ListRelease \/ PopFront \/ WriterStart \/ WriterEnd \/ ReaderOpen \/ ReaderClose
       \/ Integrity \/ Corrupt \/ Quiesce \/ Panic \/ Other
       \/ SyncStarting \/ SyncCompleted \/ GetState \/ StateWritten \/ ShutdownEv
       \/ QuiesceNoTimer \/ QuiescePersistent \/ Crash \/ Restart

TSpec == TInit /\ [][TNext]_tvars
Accepted == TLCGet("stats").diameter - 1 = Len(Trace)
=============================================================================
