------------------------- MODULE StoreContractTrace -------------------------
(***************************************************************************)
(* Contract monitor for executions recorded from the real local store      *)
(* (flat or hierarchical access, any allocator / index back end).  It      *)
(* speaks only about observable events: calls and returns of the BlobAccess*)
(* API with content identities, block hand-outs and releases of the        *)
(* allocator, readers and writers opened on blocks, integrity verdicts,    *)
(* injected corruption.  `Clause` selects the property whose conditions    *)
(* are enforced (the bookkeeping is the same for all):                     *)
(*   "C01"  reads return exactly an upload of the key, or nothing          *)
(*   "C04"  block space not reused while referenced, nothing leaked        *)
(*   "C05"  retention after a successful touch; repeating is idempotent    *)
(*   "C08"  quarantine after detected corruption                           *)
(*   "C10"  hierarchical visibility (instance-name prefixes)               *)
(* A trace is accepted iff every line can be consumed.                     *)
(***************************************************************************)
EXTENDS Integers, Sequences, FiniteSets, TLC, Json

CONSTANT Clause

Trace == ndJsonDeserialize("trace.ndjson")

VARIABLES l,        \* next line
          cfg,      \* configuration of the store under test (from Reset)
          nValid,   \* <<inst, key>> -> number of valid uploads live or completed OK
          granted,  \* key -> set of instance names with a live-or-OK valid upload
          inflight, \* process -> record of the operation in flight
          allocs,   \* number of NewBlock events
          relsd,    \* number of ListRelease events
          touch,    \* key -> [a |-> allocs at start of the touching call, e |-> line of its end] ; a = -1: none
          corrupted,
          dets,     \* set of [b, line]: corruption detected in block b at line
          blkRegion,\* block id -> region
          openR, openW, \* block id -> open readers / writers
          wblk,     \* process -> block its upload is being written into
          idem      \* [k, p]: a touch is being repeated immediately (else k = "")

tvars == <<l, cfg, nValid, granted, inflight, allocs, relsd, touch, corrupted, dets, blkRegion, openR, openW, wblk, idem>>

Ev == Trace[l]
On(c) == Clause = c
ToSet(s) == {s[i] : i \in 1..Len(s)}
Get0(f, x, d) == IF x \in DOMAIN f THEN f[x] ELSE d
Put0(f, x, v) == [y \in DOMAIN f \cup {x} |-> IF y = x THEN v ELSE f[y]]
Del(f, x) == [y \in DOMAIN f \ {x} |-> f[y]]
NoTouch == [a |-> -1, e |-> 0]

\* instance names are logged as sequences of components (<<>> is the root)
IsPrefix(a, b) == Len(a) <= Len(b) /\ SubSeq(b, 1, Len(a)) = a
KeyOf(e) == <<e.inst, e.k>>
\* Some valid upload of the key, made under a component-wise prefix of the reader's instance
\* name (flat stores: the same name), is in flight or has completed OK.  Under the cooperative
\* scheduler PutEnd is logged in the same step as the finalizing critical section, so for the
\* hierarchical store the stricter "has completed OK" is used (an upload grants nothing before
\* its content was validated).
Visible(e) ==
    IF cfg.access = "hier" /\ cfg.coop
    THEN \E i \in Get0(granted, e.k, {}) : IsPrefix(i, e.inst)
    ELSE \E x \in DOMAIN nValid : x[2] = e.k /\ nValid[x] > 0 /\ IsPrefix(x[1], e.inst)

TInit ==
    /\ l = 1 /\ cfg = [access |-> "flat", old |-> 0, coop |-> TRUE]
    /\ nValid = <<>> /\ granted = <<>> /\ inflight = <<>>
    /\ allocs = 0 /\ relsd = 0 /\ touch = <<>> /\ corrupted = FALSE /\ dets = {}
    /\ blkRegion = <<>> /\ openR = <<>> /\ openW = <<>> /\ wblk = <<>>
    /\ idem = [k |-> "", p |-> ""]

Reset ==
    /\ Ev.ev = "Reset"
    /\ cfg' = Ev.cfg
    /\ nValid' = <<>> /\ granted' = <<>> /\ inflight' = <<>>
    /\ allocs' = 0 /\ relsd' = 0 /\ touch' = <<>> /\ corrupted' = FALSE /\ dets' = {}
    /\ blkRegion' = <<>> /\ openR' = <<>> /\ openW' = <<>> /\ wblk' = <<>>
    /\ idem' = [k |-> "", p |-> ""]

Unch(vs) == UNCHANGED vs

OpStart(kind) ==
    /\ Ev.ev = kind
    /\ inflight' = Put0(inflight, Ev.p, [a |-> allocs, line |-> l, ev |-> Ev])
    \* an immediately repeated touch: previous line ended a successful touch of the same key
    \* by the same process and nothing else is in flight
    /\ idem' = IF /\ kind \in {"GetStart", "FmStart"} /\ l > 1 /\ DOMAIN inflight = {}
                  /\ Trace[l - 1].ev = (IF kind = "GetStart" THEN "GetEnd" ELSE "FmEnd")
                  /\ Trace[l - 1].p = Ev.p
                  /\ (kind = "GetStart" => (Trace[l - 1].kind = "Data" /\ Trace[l - 1].k = Ev.k /\ Trace[l - 1].inst = Ev.inst))
                  /\ (kind = "FmStart" => (Trace[l - 1].res = "OK" /\ Trace[l - 1].ks = Ev.ks /\ Trace[l - 1].inst = Ev.inst))
               THEN [k |-> "x", p |-> Ev.p]
               ELSE [k |-> "", p |-> ""]

PutStart ==
    /\ OpStart("PutStart")
    /\ nValid' = IF Ev.valid THEN Put0(nValid, KeyOf(Ev), Get0(nValid, KeyOf(Ev), 0) + 1) ELSE nValid
    /\ granted' = granted   \* names are granted at PutEnd (C10: only a complete, valid upload grants)
    /\ Unch(<<cfg, allocs, relsd, touch, corrupted, dets, blkRegion, openR, openW, wblk>>)

PutEnd ==
    /\ Ev.ev = "PutEnd"
    /\ Ev.p \in DOMAIN inflight
    \* an upload of invalid content is never acknowledged
    /\ (On("C01") /\ ~Ev.valid) => Ev.res # "OK"
    \* C08: an upload written into a block that was quarantined meanwhile is not acknowledged
    /\ (On("C08") /\ Ev.res = "OK" /\ Ev.p \in DOMAIN wblk) =>
           ~\E d \in dets : wblk[Ev.p] <= d.b
    /\ nValid' = IF Ev.valid /\ Ev.res # "OK"
                 THEN Put0(nValid, KeyOf(Ev), Get0(nValid, KeyOf(Ev), 0) - 1) ELSE nValid
    /\ granted' = IF Ev.valid /\ Ev.res = "OK"
                  THEN Put0(granted, Ev.k, Get0(granted, Ev.k, {}) \cup {Ev.inst}) ELSE granted
    /\ inflight' = Del(inflight, Ev.p)
    /\ wblk' = IF Ev.p \in DOMAIN wblk THEN Del(wblk, Ev.p) ELSE wblk
    /\ idem' = [k |-> "", p |-> ""]
    /\ Unch(<<cfg, allocs, relsd, touch, corrupted, dets, blkRegion, openR, openW>>)

\* C05: NotFound / missing for a key that was touched successfully by a call that ended
\* before this call started requires old+1 allocations since that touch started.
RetentionOK(k, op) ==
    LET t == Get0(touch, k, NoTouch) IN
    (On("C05") /\ ~corrupted /\ t.a >= 0 /\ op.line > t.e) => allocs - t.a >= cfg.old + 1

GetEnd ==
    /\ Ev.ev = "GetEnd"
    /\ Ev.p \in DOMAIN inflight
    /\ LET op == inflight[Ev.p] IN
       /\ (On("C01") /\ Ev.kind = "Data") => (Ev.what = Ev.k /\ Visible(Ev))
       /\ (On("C10") /\ Ev.kind = "Data") => (Ev.what = Ev.k /\ Visible(Ev))
       /\ Ev.kind = "NotFound" => RetentionOK(<<Ev.inst, Ev.k>>, op)
       /\ touch' = IF Ev.kind = "Data" THEN Put0(touch, <<Ev.inst, Ev.k>>, [a |-> op.a, e |-> l]) ELSE touch
    /\ inflight' = Del(inflight, Ev.p)
    /\ idem' = [k |-> "", p |-> ""]
    /\ Unch(<<cfg, nValid, granted, allocs, relsd, corrupted, dets, blkRegion, openR, openW, wblk>>)

FmEnd ==
    /\ Ev.ev = "FmEnd"
    /\ Ev.p \in DOMAIN inflight
    /\ LET op == inflight[Ev.p]
           ks == ToSet(Ev.ks)
           miss == ToSet(Ev.missing) IN
       /\ (Ev.res = "OK" /\ (On("C01") \/ On("C10"))) =>
              \A k \in ks \ miss : Visible([k |-> k, inst |-> Ev.inst])
       /\ Ev.res = "OK" => \A k \in miss : RetentionOK(<<Ev.inst, k>>, op)
       /\ touch' = IF Ev.res = "OK"
                   THEN [x \in DOMAIN touch \cup {<<Ev.inst, k>> : k \in ks \ miss} |->
                            IF x[1] = Ev.inst /\ x[2] \in ks \ miss THEN [a |-> op.a, e |-> l] ELSE touch[x]]
                   ELSE touch
    /\ inflight' = Del(inflight, Ev.p)
    /\ idem' = [k |-> "", p |-> ""]
    /\ Unch(<<cfg, nValid, granted, allocs, relsd, corrupted, dets, blkRegion, openR, openW, wblk>>)

CompEnd ==
    /\ Ev.ev = "CompEnd"
    /\ Ev.p \in DOMAIN inflight
    /\ (On("C01") /\ Ev.kind = "Data") => (Ev.what = Ev.want /\ Visible(Ev))
    /\ inflight' = Del(inflight, Ev.p)
    /\ idem' = [k |-> "", p |-> ""]
    /\ Unch(<<cfg, nValid, granted, allocs, relsd, touch, corrupted, dets, blkRegion, openR, openW, wblk>>)

NewBlock ==
    /\ Ev.ev \in {"NewBlock", "NewBlockAt"}
    \* C04: the region is not handed out while a reader or writer of an earlier block in it is active
    /\ (On("C04") /\ Ev.region >= 0) =>
           \* (ReaderClose is logged before the reader lets go of the block, so the reader clause is
           \*  conservative under any interleaving of the log writes; WriterEnd can only be logged
           \*  after the writer released the block, so the writer clause is used under the
           \*  cooperative scheduler only, where a step's events are not interleaved with others)
           \A b \in DOMAIN blkRegion : blkRegion[b] = Ev.region =>
               (Get0(openR, b, 0) = 0 /\ (cfg.coop => Get0(openW, b, 0) = 0))
    \* C05: repeating a touch immediately allocates nothing
    /\ On("C05") => idem.k = ""
    /\ blkRegion' = Put0(blkRegion, Ev.blk, Ev.region)
    /\ allocs' = allocs + 1
    /\ Unch(<<cfg, nValid, granted, inflight, relsd, touch, corrupted, dets, openR, openW, wblk, idem>>)

ListRelease ==
    /\ Ev.ev = "ListRelease"
    /\ relsd' = relsd + 1
    /\ Unch(<<cfg, nValid, granted, inflight, allocs, touch, corrupted, dets, blkRegion, openR, openW, wblk, idem>>)

WriterStart ==
    /\ Ev.ev = "WriterStart"
    /\ On("C05") => idem.k = ""   \* repeating a touch immediately writes nothing
    /\ openW' = Put0(openW, Ev.blk, Get0(openW, Ev.blk, 0) + 1)
    /\ wblk' = IF Ev.p # "" THEN Put0(wblk, Ev.p, Ev.blk) ELSE wblk
    /\ Unch(<<cfg, nValid, granted, inflight, allocs, relsd, touch, corrupted, dets, blkRegion, openR, idem>>)

WriterEnd ==
    /\ Ev.ev = "WriterEnd"
    /\ On("C04") => Get0(openW, Ev.blk, 0) > 0
    /\ openW' = Put0(openW, Ev.blk, Get0(openW, Ev.blk, 0) - 1)
    /\ Unch(<<cfg, nValid, granted, inflight, allocs, relsd, touch, corrupted, dets, blkRegion, openR, wblk, idem>>)

ReaderOpen ==
    /\ Ev.ev = "ReaderOpen"
    \* C08: an operation invoked after corruption was detected in block b does not read from blocks <= b
    /\ (On("C08") /\ Ev.p \in DOMAIN inflight) =>
           ~\E d \in dets : Ev.blk <= d.b /\ inflight[Ev.p].line > d.line
    /\ openR' = Put0(openR, Ev.blk, Get0(openR, Ev.blk, 0) + 1)
    /\ Unch(<<cfg, nValid, granted, inflight, allocs, relsd, touch, corrupted, dets, blkRegion, openW, wblk, idem>>)

ReaderClose ==
    /\ Ev.ev = "ReaderClose"
    /\ On("C04") => (Ev.n = 1 /\ Get0(openR, Ev.blk, 0) > 0)   \* closed exactly once
    /\ openR' = Put0(openR, Ev.blk, Get0(openR, Ev.blk, 0) - 1)
    /\ Unch(<<cfg, nValid, granted, inflight, allocs, relsd, touch, corrupted, dets, blkRegion, openW, wblk, idem>>)

Integrity ==
    /\ Ev.ev = "Integrity"
    \* C01: no data-integrity error on a medium nobody corrupted
    /\ (On("C01") /\ ~Ev.ok) => corrupted
    /\ dets' = IF ~Ev.ok THEN dets \cup {[b |-> Ev.blk, line |-> l]} ELSE dets
    /\ Unch(<<cfg, nValid, granted, inflight, allocs, relsd, touch, corrupted, blkRegion, openR, openW, wblk, idem>>)

Corrupt ==
    /\ Ev.ev = "Corrupt"
    /\ corrupted' = TRUE
    /\ Unch(<<cfg, nValid, granted, inflight, allocs, relsd, touch, dets, blkRegion, openR, openW, wblk, idem>>)

Quiesce ==
    /\ Ev.ev = "Quiesce"
    /\ On("C04") =>
          /\ Ev.openReaders = 0
          /\ Ev.srcClosedOnce
          /\ \A b \in DOMAIN openR : openR[b] = 0
          /\ \A b \in DOMAIN openW : openW[b] = 0
          \* every block the list let go of has been returned to the allocator
          /\ Ev.dev => (Ev.devReleases = relsd /\ Ev.devAllocs = allocs)
    /\ Unch(<<cfg, nValid, granted, inflight, allocs, relsd, touch, corrupted, dets, blkRegion, openR, openW, wblk, idem>>)

Panic ==
    /\ Ev.ev = "Panic"
    /\ FALSE    \* a panic inside the store is never acceptable

Other ==
    /\ Ev.ev \in {"ErrorLog", "IndexPut", "NewBlockFail", "Note"}
    /\ Unch(<<cfg, nValid, granted, inflight, allocs, relsd, touch, corrupted, dets, blkRegion, openR, openW, wblk, idem>>)

GetStart == OpStart("GetStart") /\ Unch(<<cfg, nValid, granted, allocs, relsd, touch, corrupted, dets, blkRegion, openR, openW, wblk>>)
FmStart == OpStart("FmStart") /\ Unch(<<cfg, nValid, granted, allocs, relsd, touch, corrupted, dets, blkRegion, openR, openW, wblk>>)
CompStart == OpStart("CompStart") /\ Unch(<<cfg, nValid, granted, allocs, relsd, touch, corrupted, dets, blkRegion, openR, openW, wblk>>)

TNext ==
    /\ l <= Len(Trace) /\ l' = l + 1
    /\ \/ Reset \/ PutStart \/ PutEnd \/ GetStart \/ GetEnd \/ FmStart \/ FmEnd \/ CompStart \/ CompEnd
       \/ NewBlock \/ ListRelease \/ WriterStart \/ WriterEnd \/ ReaderOpen \/ ReaderClose
       \/ Integrity \/ Corrupt \/ Quiesce \/ Panic \/ Other

TSpec == TInit /\ [][TNext]_tvars
Accepted == TLCGet("stats").diameter - 1 = Len(Trace)
=============================================================================
