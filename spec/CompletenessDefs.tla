--------------------------- MODULE CompletenessDefs ---------------------------
(***************************************************************************)
(* C13 -- completeness checking of ActionResults: cases, the contract over *)
(* observables, and the design (transcription of checkCompleteness,        *)
(* pkg/blobstore/completenesschecking/completeness_checking_blob_access.go *)
(* :113-204, with its batching FindMissing queue, :20-78).                 *)
(*                                                                         *)
(* A case c:                                                               *)
(*   ar      [files: seq of ref, stdout: ref, stderr: ref,                 *)
(*            dirs: seq of [treeref, rootref, state, root, children]]      *)
(*           ref = "" (absent field) | "bad" (malformed digest) | name     *)
(*           root / children[j] = [files: seq of ref, dirs: seq of ref]    *)
(*           state = "ok" | "absent" | "trunc" | "ioerr" | "garbage"       *)
(*   present names of the objects the CAS holds (Trees: by state)          *)
(*   batch   FindMissing batch size;  fmFail: the n-th FindMissing call    *)
(*           fails (0: none);  ac: "ok" | "absent" | "garbage"             *)
(*   sizes   sizes of the Tree objects;  limitBytes: configured maximum    *)
(***************************************************************************)
EXTENDS Integers, Sequences, FiniteSets, TLC, Json

ToSet(q) == {q[i] : i \in 1..Len(q)}
RECURSIVE Sum(_)
Sum(q) == IF q = <<>> THEN 0 ELSE Head(q) + Sum(Tail(q))
RECURSIVE Flat(_)
Flat(qq) == IF qq = <<>> THEN <<>> ELSE Head(qq) \o Flat(Tail(qq))

TreeName(i) == "t" \o ToString(i)
TreeRef(c, i) == IF c.ar.dirs[i].treeref = "bad" THEN "bad" ELSE TreeName(i)
\* the references inside Tree i, in the order the code meets them
DirRefs(c, i, m) == m.files \o (IF c.ar.dirs[i].rootref # "" THEN m.dirs ELSE <<>>)
TreeRefs(c, i) == LET d == c.ar.dirs[i] IN DirRefs(c, i, d.root) \o Flat([j \in 1..Len(d.children) |-> DirRefs(c, i, d.children[j])])

\* references at the level of the ActionResult, in the order the code meets them
TopRefs(c) == c.ar.files \o Flat([i \in 1..Len(c.ar.dirs) |-> <<TreeRef(c, i), c.ar.dirs[i].rootref>>]) \o <<c.ar.stdout, c.ar.stderr>>
AllRefs(c) == (ToSet(TopRefs(c)) \cup UNION {ToSet(TreeRefs(c, i)) : i \in 1..Len(c.ar.dirs)}) \ {""}
Present(c) == ToSet(c.present) \cup {TreeName(i) : i \in {k \in 1..Len(c.ar.dirs) : c.ar.dirs[k].state # "absent"}}
TreesReadable(c) == \A i \in 1..Len(c.ar.dirs) : c.ar.dirs[i].state = "ok"

(***************************************************************************)
(* Contract.  o: [res ("Data" | "ERR"), code, confirmed (names reported    *)
(* present by a successful FindMissing of this call), fmFailed]            *)
(***************************************************************************)
CompleteOK(c, o) ==
    LET refs == AllRefs(c) IN
    /\ o.res \in {"Data", "ERR"}
    /\ o.res = "Data" =>
         /\ c.ac = "ok"
         /\ "bad" \notin refs                     \* no malformed digest anywhere
         /\ TreesReadable(c)                      \* no unreadable / corrupted Tree
         /\ refs \subseteq Present(c)             \* everything referenced exists ...
         /\ refs \subseteq o.confirmed            \* ... and was reported present by the CAS during this call
         /\ Sum(c.sizes) <= c.limitBytes          \* Trees within the configured total size
    \* when the only thing wrong is that referenced objects are missing, the caller receives NOT_FOUND
    /\ (o.res = "ERR" /\ c.ac = "ok" /\ "bad" \notin refs /\ TreesReadable(c) /\ ~o.fmFailed /\ Sum(c.sizes) <= c.limitBytes)
         => o.code = "NotFound"

(***************************************************************************)
(* Design: what checkCompleteness does, statement by statement.            *)
(*   st: [pending (distinct digests added since the last batch), nfm, fm (sets asked),       *)
(*        confirmed, out ("" = still running), exact]                      *)
(***************************************************************************)
Flush(st, c) ==
    LET n == st.nfm + 1
        asked == st.pending
        s1 == [st EXCEPT !.nfm = n, !.fm = Append(@, asked)] IN
    IF c.fmFail = n THEN [s1 EXCEPT !.out = "Other", !.fmFailed = TRUE]
    ELSE IF asked \ Present(c) # {} THEN [s1 EXCEPT !.out = "NotFound", !.confirmed = @ \cup (asked \cap Present(c))]
    ELSE [s1 EXCEPT !.pending = {}, !.confirmed = @ \cup asked]

Add(st, c, ref, mut) ==
    IF st.out # "" \/ ref = "" THEN st
    ELSE IF ref = "bad" THEN [st EXCEPT !.out = "NotFound"]
    ELSE LET s1 == IF Cardinality(st.pending) >= c.batch
                   THEN (IF mut = "drop_full_batch" THEN [st EXCEPT !.pending = {}] ELSE Flush(st, c))
                   ELSE st IN
         IF s1.out # "" THEN s1 ELSE [s1 EXCEPT !.pending = @ \cup {ref}]

RECURSIVE AddAll(_, _, _, _)
AddAll(st, c, refs, mut) == IF refs = <<>> THEN st ELSE AddAll(Add(st, c, Head(refs), mut), c, Tail(refs), mut)

RECURSIVE Trees(_, _, _, _, _)
Trees(st, c, i, remaining, mut) ==
    IF st.out # "" \/ i > Len(c.ar.dirs) THEN st
    ELSE LET d == c.ar.dirs[i] IN
         IF c.sizes[i] > remaining /\ mut # "no_size_budget" THEN [st EXCEPT !.out = "NotFound"]
         ELSE IF d.state = "absent" THEN [st EXCEPT !.out = "NotFound"]
         ELSE IF d.state # "ok" THEN [st EXCEPT !.out = "Any", !.exact = FALSE]   \* which error wins depends on bytes
         ELSE Trees(AddAll(st, c, IF mut = "skip_tree_children" THEN DirRefs(c, i, d.root) ELSE TreeRefs(c, i), mut),
                    c, i + 1, remaining - c.sizes[i], mut)

Design(c, mut) ==
    LET st0 == [pending |-> {}, nfm |-> 0, fm |-> <<>>, confirmed |-> {}, out |-> "", exact |-> TRUE, fmFailed |-> FALSE]
        top == IF mut = "skip_stderr" THEN SubSeq(TopRefs(c), 1, Len(TopRefs(c)) - 1) ELSE TopRefs(c)
        s1 == AddAll(st0, c, top, mut)
        s2 == Trees(s1, c, 1, c.limitBytes, mut)
        s3 == IF s2.out # "" \/ mut = "no_finalize" THEN s2 ELSE Flush(s2, c) IN
    IF c.ac = "absent" THEN [st0 EXCEPT !.out = "NotFound"]
    ELSE IF c.ac = "garbage" THEN [st0 EXCEPT !.out = "Other"]
    ELSE IF s3.out = "" THEN [s3 EXCEPT !.out = "Data"] ELSE s3

\* the design's outcome as an observation the contract can judge
AsObs(r) == [res |-> IF r.out = "Data" THEN "Data" ELSE "ERR", code |-> IF r.out = "Any" THEN "Other" ELSE r.out,
             confirmed |-> r.confirmed, fmFailed |-> r.fmFailed]
\* does a real observation agree with the design?
Conforms(c, o) ==
    LET r == Design(c, "none") IN
    /\ (r.out = "Data") <=> (o.res = "Data")
    /\ r.out = "NotFound" => o.code = "NotFound"
    /\ r.out = "Other" => o.code # "NotFound"
    /\ r.exact => o.fm = r.fm
=============================================================================
