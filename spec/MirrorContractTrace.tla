------------------------- MODULE MirrorContractTrace -------------------------
(* C11 -- contract monitor for observations of the real mirroredBlobAccess. *)
EXTENDS MirrorDefs
Trace == ndJsonDeserialize("trace.ndjson")
VARIABLE l
Ev == Trace[l]
Conv(o) == [op |-> o.op, objs |-> ToSet(o.objs), first |-> o.first, repl |-> o.repl,
            a0 |-> ToSet(o.a0), b0 |-> ToSet(o.b0), a1 |-> ToSet(o.a1), b1 |-> ToSet(o.b1),
            failed |-> ToSet(o.failed), res |-> o.res, code |-> o.code, missing |-> ToSet(o.missing), named |-> ToSet(o.named),
            lossy |-> IF "lossy" \in DOMAIN o THEN o.lossy ELSE FALSE,
            directFailed |-> IF "directFailed" \in DOMAIN o THEN ToSet(o.directFailed) ELSE {}]
TInit == l = 1
TNext == l <= Len(Trace) /\ Ev.ev = "Mirror" /\ Ev.panic = "" /\ MirrorOK(Conv(Ev)) /\ l' = l + 1
TSpec == TInit /\ [][TNext]_l
Accepted == TLCGet("stats").diameter - 1 = Len(Trace)
=============================================================================
