-------------------------- MODULE RpcContractTrace --------------------------
(* C14 -- contract monitor for observations of the real gRPC servers and clients. *)
EXTENDS RpcDefs
Trace == ndJsonDeserialize("trace.ndjson")
VARIABLE l
Ev == Trace[l]
TInit == l = 1
TNext == /\ l <= Len(Trace) /\ l' = l + 1
         /\ \/ Ev.ev = "Write" /\ WriteOK(Ev.case, [res |-> Ev.res, stored |-> Ev.stored, storedIntact |-> Ev.storedIntact, payloadMatches |-> Ev.payloadMatches, panic |-> Ev.panic])
            \/ Ev.ev = "Read" /\ ReadOK(Ev.case, [res |-> Ev.res, code |-> Ev.code, data |-> Ev.data, panic |-> Ev.panic])
            \/ Ev.ev = "Batch" /\ BatchOK(Ev.case, [res |-> Ev.res, statuses |-> Ev.statuses, datas |-> Ev.datas, stored |-> Ev.stored,
                                                    storedIntact |-> Ev.storedIntact, before |-> Ev.before, panic |-> Ev.panic])
            \/ Ev.ev = "B2B" /\ TransparentOK([op |-> Ev.op, objs |-> ToSet(Ev.objs), b0 |-> ToSet(Ev.b0), b1 |-> ToSet(Ev.b1), failing |-> Ev.failing,
                                               res |-> Ev.res, code |-> Ev.code, missing |-> ToSet(Ev.missing), dataOK |-> Ev.dataOK, panic |-> Ev.panic])
TSpec == TInit /\ [][TNext]_l
Accepted == TLCGet("stats").diameter - 1 = Len(Trace)
=============================================================================
