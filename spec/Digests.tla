------------------------------- MODULE Digests -------------------------------
(***************************************************************************)
(* C20 -- case generator: valid resource names and their mutations,        *)
(* instance names, digest constructions, pairs of digests and families of  *)
(* sets.  The state space is the case list; TLC evaluates the grammar on   *)
(* every case (sanity invariants) and emits the cases.                     *)
(***************************************************************************)
EXTENDS DigestDefs
CONSTANTS Part, Muts
VARIABLE case

Insts == {<<>>, <<T("inst", "a")>>, <<T("inst", "a"), T("inst", "c-d")>>, <<T("inst", "a"), T("inst", "..")>>}
Hashes == {"h32", "h40", "h64", "h96", "h128"}
Digs == {<<T("hash", h)>> : h \in Hashes} \cup {<<T("fn", "sha256tree"), T("hash", "h64")>>, <<T("fn", "blake3"), T("hash", "h64")>>, <<T("fn", "gitsha1"), T("hash", "h40")>>}
Kws == {<<T("kw", "blobs")>>, <<T("kw", "compressed-blobs"), T("comp", "zstd")>>, <<T("kw", "compressed-blobs"), T("comp", "deflate")>>}
Sizes == {"s0", "s123", "smax"}
Trails == {<<>>, <<T("path", "foo.txt")>>, <<T("path", "dir"), T("kw", "blobs")>>}
ValidRead == {i \o k \o d \o <<T("size", s)>> : i \in Insts, k \in Kws, d \in Digs, s \in Sizes}
ValidWrite == {i \o <<T("kw", "uploads"), T("uuid", "u")>> \o k \o d \o <<T("size", s)>> \o t : i \in Insts, k \in Kws, d \in Digs, s \in {"s123"}, t \in Trails}
Alphabet == {T("inst", "a"), T("inst", "operations"), T("inst", "."), T("kw", "blobs"), T("kw", "compressed-blobs"), T("kw", "uploads"), T("comp", "zstd"), T("comp", "bogus"), T("comp", "identity"),
             T("fn", "sha256tree"), T("fn", "gitsha1"), T("fn", "sha256"), T("fn", "nope"), T("uuid", "u"), T("path", "foo.txt"), T("empty", "")}
              \cup {T("hash", h) : h \in DOMAIN HashLen} \cup {T("size", s) : s \in DOMAIN SizeClass}
Mutations(s) ==
    {s} \cup {SubSeq(s, 1, i - 1) \o SubSeq(s, i + 1, Len(s)) : i \in 1..Len(s)}                                  \* delete
        \cup {[s EXCEPT ![i] = t] : i \in 1..Len(s), t \in Alphabet}                                            \* replace
        \cup {SubSeq(s, 1, i) \o <<t>> \o SubSeq(s, i + 1, Len(s)) : i \in 0..Len(s), t \in Alphabet}           \* insert
        \cup {[s EXCEPT ![i] = s[i + 1], ![i + 1] = s[i]] : i \in 1..(Len(s) - 1)}                              \* swap
        \cup {SubSeq(s, 1, i) : i \in 0..Len(s)}                                                               \* truncate
Mut2(s) == IF Muts = 1 THEN Mutations(s) ELSE UNION {Mutations(m) : m \in Mutations(s)}

Comps == {"a", "b", "blobs", "uploads", "operations", "Blobs", "x y"}
AllFns == DOMAIN FnLen
\* instance names include components that a path cleaner would rewrite ("." and "..")
DigestRecs == [inst : {<<>>, <<"a">>, <<"a", "b">>, <<"a", "b", "c-d">>, <<".">>, <<"a", "..">>, <<"..", "a">>}, fn : AllFns, hash : {"p", "q"}, size : {0, 5}]
\* d1/d2: one object under instance names "" and "a"; d3/d4: the empty blob under "" and "a"; d5: another object under "b".
\* In a set they are ordered d1 < d2 < d3 < d4 < d5, so that instance names interleave.
Elems == {"d1", "d2", "d3", "d4", "d5"}

Init ==
    CASE Part = "read" -> \E v \in ValidRead : \E m \in Mut2(v) : case = [kind |-> "read", toks |-> m]
      [] Part = "write" -> \E v \in ValidWrite : \E m \in Mut2(v) : case = [kind |-> "write", toks |-> m]
      [] Part = "instance" -> \E n \in 0..3 : \E cs \in [1..n -> Comps], l \in BOOLEAN, t \in BOOLEAN, d \in BOOLEAN :
                                 (n = 0 => ~t /\ ~d) /\ (n < 2 => ~d) /\ case = [comps |-> cs, lead |-> l, trail |-> t, dbl |-> d]
      [] Part = "newdigest" -> \E f \in AllFns \cup {"UNKNOWN"}, h \in DOMAIN HashLen, s \in {-1, 0, 5} : case = [fn |-> f, hash |-> h, size |-> s]
      [] Part = "roundtrip" -> \E d \in DigestRecs : case = d
      [] Part = "keys" -> \E a \in DigestRecs, b \in DigestRecs : a.inst \in {<<>>, <<"a">>} /\ b.inst \in {<<>>, <<"a">>} /\ case = [a |-> a, b |-> b]
      [] Part = "sets" -> \/ \E A \in SUBSET Elems, B \in SUBSET Elems, C \in {{}, {"d5"}, {"d2", "d3"}, Elems} : case = [sets |-> <<A, B, C>>, adds |-> <<>>]
                          \/ \E n \in 0..3 : \E ad \in [1..n -> Elems] : case = [sets |-> <<{}, {}, {}>>, adds |-> ad]
Next == UNCHANGED case
\* sanity of the generator and the grammar: every unmutated skeleton parses, strictly
Sane == /\ (Part = "read" => \A v \in ValidRead : ParseRead(v).ok)
        /\ (Part = "write" => \A v \in ValidWrite : ParseWrite(v).ok)
Emit == PrintT(<<"CASE", ToJson(case)>>)
=============================================================================
