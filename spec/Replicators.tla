------------------------------ MODULE Replicators ------------------------------
(***************************************************************************)
(* C17 (b) -- design specification of deduplicatingBlobReplicator          *)
(* (replication/deduplicating_blob_replicator.go:92-143), optionally       *)
(* behind a concurrency limit: callers ask for one object each; the first  *)
(* becomes the leader for that object (checks the sink, copies if          *)
(* missing), the others wait for the leader and start over if it failed.   *)
(***************************************************************************)
EXTENDS Integers, Sequences, FiniteSets, TLC

CONSTANTS Callers, Objs, Wants(_),   \* caller -> object
          MaxFail, Limit, Mut

VARIABLES pc,        \* caller -> "idle" | "wait" | "check" | "copy" | "ok" | "err"
          leaderOf,  \* caller (waiting) -> the leader it waits for
          inFlight,  \* object -> leader caller, or "" (no entry)
          outcome,   \* leader -> "" | "ok" | "fail"   (replicatingBlob.success once finished)
          sink,      \* objects in the sink
          asked,     \* caller -> logical time it asked
          confirmed, \* object -> logical time the sink last confirmed / received it (-1: never)
          clock, fails, active, maxActive, maxSame,
          result,    \* leader -> outcome of its check / copy, applied when it takes the lock again
          basis      \* caller -> logical time from which a confirmation answers it: when it became leader, or when the leader it joined did

vars == <<pc, leaderOf, inFlight, outcome, sink, asked, confirmed, clock, fails, active, maxActive, maxSame, result, basis>>

Init ==
    /\ pc = [c \in Callers |-> "idle"] /\ leaderOf = [c \in Callers |-> ""]
    /\ inFlight = [o \in Objs |-> ""] /\ outcome = [c \in Callers |-> ""]
    /\ sink \in SUBSET Objs /\ asked = [c \in Callers |-> -1] /\ confirmed = [o \in Objs |-> -1]
    /\ clock = 0 /\ fails = 0 /\ active = {} /\ maxActive = 0 /\ maxSame = 0
    /\ result = [c \in Callers |-> FALSE] /\ basis = [c \in Callers |-> -1]

\* lock; look for an in-flight replication of the object
Enter(c) ==
    /\ pc[c] \in {"idle", "retry"}
    /\ LET o == Wants(c) IN
       IF inFlight[o] # ""
       THEN /\ pc' = [pc EXCEPT ![c] = "wait"] /\ leaderOf' = [leaderOf EXCEPT ![c] = inFlight[o]]
            /\ basis' = [basis EXCEPT ![c] = basis[inFlight[o]]]
            /\ UNCHANGED <<inFlight, outcome>>
       ELSE /\ pc' = [pc EXCEPT ![c] = "check"] /\ inFlight' = [inFlight EXCEPT ![o] = c]
            /\ basis' = [basis EXCEPT ![c] = clock]
            /\ outcome' = [outcome EXCEPT ![c] = ""] /\ UNCHANGED leaderOf
    /\ asked' = IF pc[c] = "idle" THEN [asked EXCEPT ![c] = clock] ELSE asked
    /\ clock' = clock + 1
    /\ UNCHANGED <<sink, confirmed, fails, active, maxActive, maxSame, result>>

\* <-replicatingBlob.finished
Wake(c) ==
    /\ pc[c] = "wait" /\ outcome[leaderOf[c]] # "" /\ inFlight[Wants(c)] # leaderOf[c]
    /\ pc' = [pc EXCEPT ![c] = IF outcome[leaderOf[c]] = "ok" \/ Mut = "skip_after_failed_leader" THEN "ok" ELSE "retry"]
    /\ clock' = clock + 1
    /\ UNCHANGED <<leaderOf, inFlight, outcome, sink, asked, confirmed, fails, active, maxActive, maxSame, result, basis>>

Finish(c, ok) ==
    /\ inFlight' = [inFlight EXCEPT ![Wants(c)] = ""]
    /\ outcome' = [outcome EXCEPT ![c] = IF ok THEN "ok" ELSE "fail"]
    /\ pc' = [pc EXCEPT ![c] = IF ok THEN "ok" ELSE "err"]

\* sink.FindMissing of the leader
Check(c) ==
    /\ pc[c] = "check"
    /\ clock' = clock + 1
    /\ IF Wants(c) \in sink
       THEN /\ pc' = [pc EXCEPT ![c] = "finishing"] /\ result' = [result EXCEPT ![c] = TRUE]
            /\ confirmed' = [confirmed EXCEPT ![Wants(c)] = clock]
            /\ UNCHANGED <<active, maxActive, maxSame, inFlight, outcome>>
       ELSE /\ Cardinality(active) < Limit
            /\ pc' = [pc EXCEPT ![c] = "copy"] /\ active' = active \cup {c}
            /\ maxActive' = IF Cardinality(active) + 1 > maxActive THEN Cardinality(active) + 1 ELSE maxActive
            /\ maxSame' = LET n == Cardinality({x \in active \cup {c} : Wants(x) = Wants(c)}) IN IF n > maxSame THEN n ELSE maxSame
            /\ (IF Mut = "success_before_copy" THEN outcome' = [outcome EXCEPT ![c] = "ok"] /\ inFlight' = [inFlight EXCEPT ![Wants(c)] = ""]
                ELSE UNCHANGED <<inFlight, outcome>>)
            /\ UNCHANGED <<confirmed, result>>
    /\ UNCHANGED <<leaderOf, sink, asked, fails, basis>>

\* base.ReplicateMultiple returns
CopyDone(c, ok) ==
    /\ pc[c] = "copy" /\ (ok \/ fails < MaxFail)
    /\ active' = active \ {c}
    /\ sink' = IF ok THEN sink \cup {Wants(c)} ELSE sink
    /\ confirmed' = IF ok THEN [confirmed EXCEPT ![Wants(c)] = clock] ELSE confirmed
    /\ fails' = IF ok THEN fails ELSE fails + 1
    /\ clock' = clock + 1
    /\ pc' = [pc EXCEPT ![c] = "finishing"] /\ result' = [result EXCEPT ![c] = ok]
    /\ UNCHANGED <<leaderOf, asked, maxActive, maxSame, inFlight, outcome, basis>>

\* the leader takes the lock again, removes the in-flight entry and wakes the waiters
FinishLeader(c) ==
    /\ pc[c] = "finishing"
    /\ IF Mut = "no_delete_on_failure" /\ ~result[c]
       THEN pc' = [pc EXCEPT ![c] = "err"] /\ UNCHANGED <<inFlight, outcome>>
       ELSE Finish(c, result[c])
    /\ clock' = clock + 1
    /\ UNCHANGED <<leaderOf, sink, asked, confirmed, fails, active, maxActive, maxSame, result, basis>>

Next == \E c \in Callers : Enter(c) \/ Wake(c) \/ Check(c) \/ CopyDone(c, TRUE) \/ CopyDone(c, FALSE) \/ FinishLeader(c)
Spec == Init /\ [][Next]_vars
FairSpec == Spec /\ WF_vars(Next)

\* never two concurrent copies of the same object; never more copies than the limit
Bounds == maxSame <= 1 /\ maxActive <= Limit
\* success only if the object was confirmed in, or copied to, the sink after the replication that answers the
\* caller began: its own, or the one in flight that it joined
SuccessConfirmed == \A c \in Callers : pc[c] = "ok" => confirmed[Wants(c)] >= basis[c]
\* The literal reading "after that caller asked" does NOT hold (known finding): a caller that arrives after the
\* leader has checked the sink but before the leader has taken the lock again joins a replication whose
\* confirmation precedes its own request.  TLC produces the schedule when this is checked as an invariant.
StrictSuccessConfirmed == \A c \in Callers : pc[c] = "ok" => confirmed[Wants(c)] >= asked[c]
\* nobody waits forever
Done == \A c \in Callers : pc[c] \in {"ok", "err"}
Terminates == <>Done
NoStuck == ~Done => ENABLED Next
=============================================================================
