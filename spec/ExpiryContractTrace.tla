------------------------ MODULE ExpiryContractTrace ------------------------
EXTENDS ExpiryDefs
Trace == ndJsonDeserialize("trace.ndjson")
VARIABLE l
TInit == l = 1
TNext == l <= Len(Trace) /\ l' = l + 1 /\ ExpiryOK(Trace[l])
TSpec == TInit /\ [][TNext]_l
Accepted == TLCGet("stats").diameter - 1 = Len(Trace)
=============================================================================
