----------------------------- MODULE Completeness -----------------------------
(***************************************************************************)
(* C13 -- the state space is the list of cases (see CompletenessDefs):     *)
(* TLC checks that the design satisfies the contract for every case and    *)
(* emits the cases for execution on the real decorator.                    *)
(***************************************************************************)
EXTENDS CompletenessDefs
CONSTANTS FileRefs,      \* references that may appear as output files / inside Trees
          OutRefs,       \* values of stdout
          ErrRefs,       \* values of stderr
          MaxFiles, MaxDirs, MaxChildren,
          States, RootRefs, TreeRefsC, DirFileRefs, DirDirRefs,
          Objects,       \* names whose presence varies
          MaxMissing,    \* how many of them may be missing at once
          Batches, FmFails, Limits, ACs, Mut
VARIABLE case
SeqsUpTo(S, n) == UNION {[1..k -> S] : k \in 0..n}
DirMsgs == [files : SeqsUpTo(DirFileRefs, 1), dirs : SeqsUpTo(DirDirRefs, 1)]
OutDirs == [treeref : TreeRefsC, rootref : RootRefs, state : States, root : DirMsgs, children : SeqsUpTo(DirMsgs, MaxChildren)]
ARs == [files : SeqsUpTo(FileRefs, MaxFiles), stdout : OutRefs, stderr : ErrRefs, dirs : SeqsUpTo(OutDirs, MaxDirs)]
Presents == {Objects \ M : M \in {M \in SUBSET Objects : Cardinality(M) <= MaxMissing}}
SetToSeq(S) == LET RECURSIVE F(_)
                   F(T) == IF T = {} THEN <<>> ELSE LET x == CHOOSE x \in T : TRUE IN <<x>> \o F(T \ {x}) IN F(S)
Mk(ar, p, b, f, lim, ac) ==
    [ar |-> ar, present |-> SetToSeq(p), batch |-> b, fmFail |-> f, ac |-> ac,
     sizes |-> [i \in 1..Len(ar.dirs) |-> 1 + Len(ar.dirs[i].children)], limitBytes |-> lim]
Init == \E ar \in ARs, p \in Presents, b \in Batches, f \in FmFails, lim \in Limits, ac \in ACs : case = Mk(ar, p, b, f, lim, ac)
Next == UNCHANGED case
\* the design returns the result only when the contract allows it, for every case
DesignMeetsContract == CompleteOK(case, AsObs(Design(case, Mut)))
\* the design returns complete results (transparency; not part of the property)
DesignTransparent ==
    (case.ac = "ok" /\ "bad" \notin AllRefs(case) /\ TreesReadable(case) /\ AllRefs(case) \subseteq Present(case)
      /\ Sum(case.sizes) <= case.limitBytes /\ (case.fmFail = 0)) => Design(case, Mut).out = "Data"
Emit == PrintT(<<"CASE", ToJson(case)>>)
=============================================================================
