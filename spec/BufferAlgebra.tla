----------------------------- MODULE BufferAlgebra -----------------------------
(***************************************************************************)
(* C15 -- the Buffer interface as a term language.  A term is a base       *)
(* buffer, a chain of at most MaxOps operations                            *)
(*     CloneStream | CloneCopy | WithTaskOK | WithTaskFail | WithHandler   *)
(* (a clone operation hands one clone to a side consumer that reads it     *)
(* concurrently and continues with the other), and a final consumption     *)
(* method.  Expected(term) is what the contract says every consumer        *)
(* observes.  The state space is the list of terms; the harness replays    *)
(* each on the real buffers and the observations are judged by             *)
(* AlgebraContractTrace.tla with the same operator.                        *)
(***************************************************************************)
EXTENDS BufferAlgebraDefs

CONSTANTS MaxOps

Terms == {[base |-> b, ops |-> o, method |-> m] : b \in Bases, o \in UNION {[1..k -> Ops] : k \in 0..MaxOps}, m \in Methods}

VARIABLE term
Init == term \in Terms
Next == UNCHANGED term
\* sanity of the contract itself: a term without failing parts yields the data everywhere
Sane == (/\ GoodBase(term.base)
         /\ ~(\E i \in 1..Len(term.ops) : term.ops[i] = "WithTaskFail")
         /\ term.method \notin {"GetSizeBytes", "Discard"})
            => Expected(term).main.res = "DATA"
Emit == PrintT(<<"CASE", ToJson([base |-> term.base, ops |-> term.ops, method |-> term.method])>>)
=============================================================================
