---------------------------- MODULE IndexContract ----------------------------
(***************************************************************************)
(* C06 -- contract of the key-location index, over observables only.       *)
(*                                                                         *)
(* Observables: the sequence of Put(k, l) / ReleaseOldest calls, the       *)
(* number of discards the index reports through its metrics, and the       *)
(* result of Get(j) for every key j after every call.  No implementation   *)
(* vocabulary (slots, attempts, records) occurs here.  The same operators  *)
(* are used (a) as invariants / action properties of the design            *)
(* specification KeyLocationMap.tla and (b) by the trace monitor           *)
(* IndexContractTrace.tla on executions recorded from the real code.       *)
(***************************************************************************)
EXTENDS Integers, FiniteSets

None == [abs |-> -1, off |-> -1]

\* a strictly older than b (the code's Location.IsOlder); None is older than
\* every real location.
Older(a, b) == a.abs < b.abs \/ (a.abs = b.abs /\ a.off < b.off)

ValidLoc(l, rel) == l # None /\ l.abs >= rel

Newest(S) == IF S = {} THEN None ELSE CHOOSE x \in S : \A y \in S : ~Older(x, y)

\* A lookup returns nothing, or a location stored for exactly that key that
\* lies in a block which has not been released.
Sound(keys, get, stored, rel) ==
    \A k \in keys : get[k] = None \/ (get[k] \in stored[k] /\ ValidLoc(get[k], rel))

\* As long as the index has reported no discard, a lookup returns the newest
\* valid location ever stored for the key.
NoSilentLoss(keys, get, stored, rel, discards) ==
    discards = 0 =>
        \A k \in keys : get[k] = Newest({l \in stored[k] : ValidLoc(l, rel)})

\* Effect of Put(k, l) that reported d discards (d \in {0, 1}) on the lookup
\* results g0 (before) -> g1 (after).
PutFrame(keys, g0, g1, k, l, d) ==
    LET want == [j \in keys |-> IF j = k /\ Older(g0[k], l) THEN l ELSE g0[j]]
        F == {j \in keys : g1[j] # want[j]}
    IN /\ Cardinality(F) <= d
       /\ \A j \in F : /\ Older(g1[j], want[j])     \* falls back to older / nothing
                       /\ ~Older(l, want[j])         \* what was lost is not newer than l

\* Effect of releasing the oldest block: exactly the results that pointed
\* into a released block change.
ReleaseExact(keys, g0, g1, rel1) ==
    \A k \in keys :
        IF g0[k] # None /\ g0[k].abs < rel1
        THEN g1[k] # g0[k]
        ELSE g1[k] = g0[k]
=============================================================================
