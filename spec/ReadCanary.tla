------------------------------ MODULE ReadCanary ------------------------------
(***************************************************************************)
(* Beyond the listed properties: readCanaryingBlobAccess                   *)
(* (pkg/blobstore/read_canarying_blob_access.go).  Reads for an instance   *)
(* name go to a replica as long as the replica answered the last request   *)
(* for that name without an infrastructure error (INTERNAL / UNAVAILABLE / *)
(* UNKNOWN) less than Duration ago; otherwise they go to the source, and   *)
(* ONE request at a time is sent to the replica as a canary.               *)
(*                                                                         *)
(* A read is three steps, as in the code: Decide (shouldSendToReplica,     *)
(* under the lock), the replica's answer (OnError -> recordReplicaResponse *)
(* and fallback to the source; or Done -> recordReplicaResponse(nil)), and *)
(* completion.  Clients interleave freely between the steps; time advances *)
(* between any two steps; the cache is bounded and evicts in LRU order.    *)
(***************************************************************************)
EXTENDS Integers, Sequences, FiniteSets, TLC, Json

CONSTANTS Clients, Names, Duration, MaxTime, MaxSize, MaxReads, Mut

VARIABLES cache,     \* name -> [inProgress, send, exp]   (partial function)
          order,     \* eviction order, head = next victim
          now,
          pc,        \* client -> "idle" | "replica" | "source" | "done"
          req,       \* client -> [name, canary (decided while no fresh verdict), viaReplica, replicaHealth at decision]
          healthy,   \* is the replica healthy right now (environment)
          reads, last,
          failedAt   \* ghost: name -> time the replica last failed for it (forgotten on success and on eviction)
vars == <<cache, order, now, pc, req, healthy, reads, last, failedAt>>

Remove(s, x) == SelectSeq(s, LAMBDA y : y # x)
Touch(ord, n) == Append(Remove(ord, n), n)
\* getAndTouchCacheEntry: touch if present; otherwise make room and insert into the eviction set
GetAndTouch(c, ord, n) ==
    IF n \in DOMAIN c THEN [cache |-> c, order |-> Touch(ord, n)]
    ELSE LET RECURSIVE Evict(_, _)
             Evict(cc, oo) == IF Cardinality(DOMAIN cc) > MaxSize THEN Evict([x \in DOMAIN cc \ {Head(oo)} |-> cc[x]], Tail(oo)) ELSE [cache |-> cc, order |-> oo]
             e == Evict(c, ord) IN
         [cache |-> e.cache, order |-> Append(e.order, n)]
Set(c, n, v) == [x \in DOMAIN c \cup {n} |-> IF x = n THEN v ELSE c[x]]

\* ghost: a canary in flight is "disturbed" when its cache entry is evicted or overwritten by another request's answer
Disturb(r, gone, byAnswer, except) ==
    [c \in Clients |-> IF c # except /\ r[c].canary /\ pc[c] = "replica" /\ (r[c].name \in gone \/ r[c].name = byAnswer)
                       THEN [r[c] EXCEPT !.disturbed = TRUE] ELSE r[c]]

\* shouldSendToReplica
Decide(cl, n) ==
    /\ pc[cl] = "idle" /\ reads < MaxReads /\ reads' = reads + 1
    /\ LET g == GetAndTouch(cache, order, n)
           present == n \in DOMAIN cache
           e == IF present THEN cache[n] ELSE [inProgress |-> FALSE, send |-> FALSE, exp |-> -1] IN
       IF present /\ e.inProgress /\ Mut # "second_canary"
       THEN /\ cache' = g.cache /\ order' = g.order
            /\ pc' = [pc EXCEPT ![cl] = "source"]
            /\ req' = Disturb([req EXCEPT ![cl] = [name |-> n, canary |-> FALSE, viaReplica |-> FALSE, disturbed |-> FALSE]], DOMAIN cache \ DOMAIN g.cache, "", cl)
       ELSE IF present /\ ~e.inProgress /\ now < e.exp
       THEN /\ cache' = g.cache /\ order' = g.order
            /\ pc' = [pc EXCEPT ![cl] = IF e.send THEN "replica" ELSE "source"]
            /\ req' = Disturb([req EXCEPT ![cl] = [name |-> n, canary |-> FALSE, viaReplica |-> e.send, disturbed |-> FALSE]], DOMAIN cache \ DOMAIN g.cache, "", cl)
       ELSE /\ cache' = Set(g.cache, n, [inProgress |-> TRUE, send |-> FALSE, exp |-> -1]) /\ order' = g.order
            /\ pc' = [pc EXCEPT ![cl] = "replica"]
            /\ req' = Disturb([req EXCEPT ![cl] = [name |-> n, canary |-> TRUE, viaReplica |-> TRUE, disturbed |-> FALSE]], DOMAIN cache \ DOMAIN g.cache, "", cl)
    /\ failedAt' = [x \in DOMAIN failedAt \cap DOMAIN cache' |-> failedAt[x]]
    /\ UNCHANGED <<now, healthy>> /\ last' = [ev |-> "decide", client |-> cl]

\* recordReplicaResponse
Record(n, infra) ==
    LET g == GetAndTouch(cache, order, n) IN
    /\ cache' = Set(g.cache, n, [inProgress |-> FALSE, send |-> IF Mut = "failure_keeps_sending" THEN TRUE ELSE ~infra, exp |-> now + Duration])
    /\ order' = g.order
    /\ failedAt' = LET keep == (DOMAIN failedAt \cap DOMAIN cache') \ {n} IN
                   IF infra THEN [x \in keep \cup {n} |-> IF x = n THEN now ELSE failedAt[x]] ELSE [x \in keep |-> failedAt[x]]

\* the replica answers: healthy -> the read completes from the replica; unhealthy -> infrastructure error, fall back to the source
ReplicaAnswers(cl) ==
    /\ pc[cl] = "replica"
    /\ Record(req[cl].name, ~healthy)
    /\ pc' = [pc EXCEPT ![cl] = IF healthy THEN "done" ELSE IF Mut = "no_fallback" THEN "failed" ELSE "source"]
    /\ last' = [ev |-> "replica", client |-> cl, name |-> req[cl].name, healthy |-> healthy, canary |-> req[cl].canary, t |-> now]
    /\ req' = Disturb(req, DOMAIN cache \ DOMAIN cache', req[cl].name, cl)
    /\ UNCHANGED <<now, healthy, reads>>
SourceAnswers(cl) ==
    /\ pc[cl] = "source" /\ pc' = [pc EXCEPT ![cl] = "done"]
    /\ last' = [ev |-> "source", client |-> cl] /\ UNCHANGED <<cache, order, now, healthy, req, reads, failedAt>>
Finish(cl) == /\ pc[cl] \in {"done", "failed"} /\ pc' = [pc EXCEPT ![cl] = "idle"]
              /\ last' = [ev |-> "finish", client |-> cl, ok |-> pc[cl] = "done"] /\ UNCHANGED <<cache, order, now, healthy, req, reads, failedAt>>
Tick == /\ now < MaxTime /\ now' = now + 1 /\ last' = [ev |-> "tick"] /\ UNCHANGED <<cache, order, pc, req, healthy, reads, failedAt>>
Flip == /\ healthy' = ~healthy /\ last' = [ev |-> "flip"] /\ UNCHANGED <<cache, order, now, pc, req, reads, failedAt>>

Init == /\ cache = <<>> /\ order = <<>> /\ now = 0 /\ pc = [c \in Clients |-> "idle"]
        /\ req = [c \in Clients |-> [name |-> "", canary |-> FALSE, viaReplica |-> FALSE, disturbed |-> FALSE]] /\ healthy \in BOOLEAN /\ reads = 0 /\ last = [ev |-> "init"] /\ failedAt = <<>>
Next == \/ \E cl \in Clients : (\E n \in Names : Decide(cl, n)) \/ ReplicaAnswers(cl) \/ SourceAnswers(cl) \/ Finish(cl)
        \/ Tick \/ Flip
Spec == Init /\ [][Next]_vars

\* the cache and the eviction set agree (otherwise Peek() on an empty set panics), and the cache stays bounded
Consistent == /\ {order[i] : i \in 1..Len(order)} = DOMAIN cache /\ Len(order) = Cardinality(DOMAIN cache)
              /\ Cardinality(DOMAIN cache) <= MaxSize + 1
\* At most one canary per instance name at a time - unless the entry of a canary in flight was evicted, or
\* overwritten by the answer to an ordinary request that was sent while the verdict was still fresh (the code
\* then forgets that a canary is in progress; harmless, observed on the real code by the trace monitor first).
OneCanary == \A a, b \in Clients : (a # b /\ pc[a] = "replica" /\ pc[b] = "replica" /\ req[a].canary /\ req[b].canary /\ req[a].name = req[b].name)
                 => (req[a].disturbed \/ req[b].disturbed)
\* a replica outage never fails a read (the source is assumed to work)
NeverFails == \A cl \in Clients : pc[cl] # "failed"
\* after the replica failed for a name, nothing but a canary is sent to it for that name until Duration has passed or the entry was evicted
Backoff == [][(last'.ev = "decide" /\ pc'[last'.client] = "replica" /\ ~req'[last'.client].canary)
                => LET n == req'[last'.client].name IN n \notin DOMAIN failedAt' \/ now >= failedAt'[n] + Duration]_vars
=============================================================================
