------------------------------ MODULE LocalStore ------------------------------
(***************************************************************************)
(* Design specification of the flat local blob store                       *)
(* (pkg/blobstore/local/flat_blob_access.go over                           *)
(* OldCurrentNewLocationBlobMap, a volatile block list and an in-memory or *)
(* block-device-backed allocator).  One action per scheduling step the     *)
(* conformance harness can take: starting an operation (runs to the        *)
(* operation's first gate) or releasing one gate (runs to the next).       *)
(* Critical sections are exactly those of the code; the points at which    *)
(* an operation can be suspended are: the upload source (between the       *)
(* allocating and the finalizing critical section of Put), the consumer of *)
(* a returned buffer, the slicer, and the `verif` yield points between the *)
(* read-locked and the write-locked phase of Get / FindMissing /           *)
(* GetFromComposite.                                                       *)
(*                                                                         *)
(* Properties (C01, C04, C05, C08) are stated over completions of          *)
(* operations (`done`) and over the allocator accounting.                  *)
(***************************************************************************)
EXTENDS BlockMap, TLC, Json

CONSTANTS Clients,      \* process names
          Keys,         \* uploadable keys (strings)
          Parents,      \* subset of Keys that may be read as composites
          MaxOps,       \* bound on started operations
          Mut,          \* "none" or the name of a design mutant
          Corruptible,  \* TRUE iff the data medium can be corrupted (block device)
          MaxCorrupt,
          OpKinds       \* subset of {"Put","BadPut","Get","Fm","Comp"}
CONSTANTS KeySize(_),   \* key -> size in units
          KeyRank(_),   \* key -> position in digest order (FindMissing iterates in it)
          ChildKey(_, _) \* (parent, i) -> child key name, i \in {0, 1}

VARIABLES S,         \* BlockMap store state
          exts,      \* set of extents [abs, off, size, cid, st]
          index,     \* key -> location [abs, off, size] or NoLoc
          pins,      \* abs -> number of readers/writers attached
          ops,       \* client -> operation record
          rlock,     \* holder of refreshLock ("" = free)
          nops, ncorrupt,
          maxq,      \* ghost: highest block in which corruption was detected (-1: none)
          goodPut,   \* ghost: keys for which a valid upload has been started
          touch,     \* ghost: key -> allocs at the start of the last successful touch (-1: none)
          done,      \* completions of the last step
          hist       \* the script: harness steps with expected completions

vars == <<S, exts, index, pins, ops, rlock, nops, ncorrupt, maxq, goodPut, touch, done, hist>>

MaxAbs == 12
NoLoc == [abs |-> -1, off |-> -1, size |-> -1]
ChildKeys == {ChildKey(p, i) : p \in Parents, i \in {0, 1}}
AllKeys == Keys \cup ChildKeys
ChildOff(p, i) == IF i = 0 THEN 0 ELSE KeySize(p) \div 2
ChildSize(p, i) == IF i = 0 THEN KeySize(p) \div 2 ELSE KeySize(p) - (KeySize(p) \div 2)
SizeOf(k) == IF k \in Keys THEN KeySize(k)
             ELSE LET pi == CHOOSE pi \in Parents \X {0, 1} : ChildKey(pi[1], pi[2]) = k IN ChildSize(pi[1], pi[2])

Idle == [t |-> "", k |-> "", pc |-> "", rel |-> -1, off |-> -1, src |-> -1, dabs |-> -1, doff |-> -1,
         bad |-> "", child |-> -1, ks |-> <<>>, t0 |-> 0, left |-> 0, mode |-> "", miss |-> {}, q0 |-> -1, pre |-> {}]

(***************************************************************************)
(* Data plane                                                              *)
(***************************************************************************)
\* What a reader of [abs, off, size] observes: the name of a content, or "MIX".
ContentAt(E, abs, off, size) ==
    LET exact == {e \in E : e.abs = abs /\ e.off = off /\ e.size = size}
        inpar == {<<e, i>> \in E \X {0, 1} :
                     /\ e.cid \in Parents /\ e.abs = abs /\ e.st \in {"ok", "corrupt"}
                     /\ e.off + ChildOff(e.cid, i) = off /\ ChildSize(e.cid, i) = size}
    IN IF \E e \in exact : e.st = "ok" THEN (CHOOSE e \in exact : e.st = "ok").cid
       ELSE IF exact # {} THEN "MIX"
       ELSE IF \E x \in inpar : x[1].st = "ok" \/ x[2] = 1
            THEN LET x == CHOOSE x \in inpar : x[1].st = "ok" \/ x[2] = 1 IN ChildKey(x[1].cid, x[2])
       ELSE "MIX"

Unpin(P, Sx, abs) ==  \* drop one pin; returns <<pins', S'>> (a popped block's region becomes free at zero)
    LET P2 == [P EXCEPT ![abs] = @ - 1] IN
    IF P2[abs] = 0 /\ abs \in Sx.zomb
    THEN <<P2, [Sx EXCEPT !.zomb = @ \ {abs}, !.free = IF @ >= 0 THEN @ + 1 ELSE @]>>
    ELSE <<P2, Sx>>

Newer(a, b) == a.abs > b.abs \/ (a.abs = b.abs /\ a.off > b.off)   \* a strictly newer than b
\* keyLocationMap.Put on the ideal index: keep the newest valid location
IndexPut(ix, Sx, k, loc) ==
    IF ix[k] # NoLoc /\ Resolves(Sx, ix[k].abs) /\ ~Newer(loc, ix[k]) THEN ix
    ELSE [ix EXCEPT ![k] = loc]

ResolvesM(Sx, abs) == IF Mut = "resolver_ignores_quarantine"
                      THEN abs >= Sx.released /\ abs < Sx.released + NumLive(Sx)
                      ELSE Resolves(Sx, abs)
Lookup(ix, Sx, k) == IF ix[k] # NoLoc /\ ResolvesM(Sx, ix[k].abs) THEN ix[k] ELSE NoLoc
NeedsRefreshM(Sx, abs) == IF Mut = "under_refresh" THEN abs - Sx.released < Sx.oldN - 1
                          ELSE NeedsRefresh(Sx, abs)

\* DataIntegrityCallback(false) for a reader opened on block abs
Quarantine(Sx, abs) ==
    IF Mut = "quarantine_store" THEN [Sx EXCEPT !.tbr = Max(Sx.released, abs + 1)]
    ELSE [Sx EXCEPT !.tbr = Max(@, abs + 1)]

PopFrontM(Sx) == Sx

(***************************************************************************)
(* Bookkeeping of steps and completions                                    *)
(***************************************************************************)
Completion(c, o, res, what) == [p |-> c, op |-> o.t, k |-> o.k, ks |-> o.ks, res |-> res, what |-> what,
                                abs |-> o.src, q0 |-> o.q0, pre |-> o.pre]

\* keys in K were just touched successfully: operations in flight started before that touch ended
MarkTouched(opsf, K) == [c \in Clients |-> IF opsf[c] = Idle THEN Idle ELSE [opsf[c] EXCEPT !.pre = @ \cup K]]

Record(step, comps) ==
    /\ done' = comps
    /\ hist' = Append(hist, [step |-> step, exp |-> comps])

StartStep(c, op, k, extra) == [do |-> "start", p |-> c, op |-> op, k |-> k] @@ extra
RelStep(l, n) == [do |-> "rel", l |-> l, n |-> n]

Items(size, bad) ==
    LET len == IF bad = "short" /\ size > 0 THEN size - 1 ELSE size IN
    (IF len = 0 THEN 0 ELSE IF len = 1 THEN 1 ELSE 2) + 1

(***************************************************************************)
(* Put                                                                     *)
(***************************************************************************)
PutStart(c, k, bad) ==
    /\ ops[c] = Idle /\ nops < MaxOps
    /\ (IF bad = "" THEN "Put" ELSE "BadPut") \in OpKinds
    /\ LET r == FindBlockWithSpace(S, KeySize(k), pins)
           o == [Idle EXCEPT !.t = "Put", !.k = k, !.bad = bad] IN
       IF r.idx < 0
       THEN /\ S' = [r.s EXCEPT !.err = ""]
            /\ UNCHANGED <<exts, index, pins, ops, goodPut>>
            /\ Record(StartStep(c, "Put", k, [bad |-> bad]), <<Completion(c, o, "Unavailable", "")>>)
       ELSE LET abs == r.s.released + r.idx
                off == r.s.used[r.idx + 1]
                loc == [abs |-> abs, off |-> off, size |-> KeySize(k)] IN
            /\ abs <= MaxAbs
            /\ S' = [r.s EXCEPT !.used[r.idx + 1] = @ + KeySize(k)]
            /\ exts' = exts \cup {[abs |-> abs, off |-> off, size |-> KeySize(k),
                                   cid |-> IF bad = "" THEN k ELSE "X", st |-> "w"]}
            /\ pins' = [pins EXCEPT ![abs] = @ + 1]
            /\ index' = IF Mut = "publish_at_alloc" THEN IndexPut(index, r.s, k, loc) ELSE index
            /\ ops' = [ops EXCEPT ![c] = [o EXCEPT !.pc = "src", !.dabs = abs, !.doff = off,
                                                   !.left = Items(KeySize(k), bad)]]
            /\ goodPut' = IF bad = "" THEN goodPut \cup {k} ELSE goodPut
            /\ Record(StartStep(c, "Put", k, [bad |-> bad]), <<>>)
    /\ nops' = nops + 1
    /\ UNCHANGED <<rlock, ncorrupt, maxq, touch>>

\* the source delivers everything that is left; the copy ends and the upload is finalized
PutFinish(c) ==
    LET o == ops[c] IN
    /\ o.t = "Put" /\ o.pc = "src"
    /\ LET ext == CHOOSE e \in exts : e.abs = o.dabs /\ e.off = o.doff /\ e.st = "w"
           u == Unpin(pins, S, o.dabs)
           S1 == u[2]
           loc == [abs |-> o.dabs, off |-> o.doff, size |-> KeySize(o.k)]
           copied == o.bad = "" \/ Mut = "failed_visible"
           gone == o.dabs < S1.tbr /\ Mut # "no_released_check"
           res == IF o.bad = "error" THEN "Aborted"
                  ELSE IF o.bad # "" THEN "InvalidArgument"
                  ELSE IF gone THEN "Internal" ELSE "OK" IN
       /\ exts' = (exts \ {ext}) \cup {[ext EXCEPT !.st = IF o.bad = "" THEN "ok" ELSE "bad"]}
       /\ pins' = u[1]
       /\ S' = S1
       /\ index' = IF copied /\ ~gone /\ o.dabs >= S1.released THEN IndexPut(index, S1, o.k, loc) ELSE index
       /\ ops' = [ops EXCEPT ![c] = Idle]
       /\ Record(RelStep("src:" \o c, -1), <<Completion(c, o, res, "")>>)
    /\ UNCHANGED <<rlock, nops, ncorrupt, maxq, goodPut, touch>>

(***************************************************************************)
(* Get                                                                     *)
(***************************************************************************)
GetStart(c, k) ==
    /\ ops[c] = Idle /\ nops < MaxOps /\ "Get" \in OpKinds
    /\ LET loc == Lookup(index, S, k)
           o == [Idle EXCEPT !.t = "Get", !.k = k, !.t0 = S.allocs, !.q0 = maxq] IN
       IF loc = NoLoc
       THEN /\ UNCHANGED <<pins, ops>>
            /\ Record(StartStep(c, "Get", k, [hold |-> TRUE]), <<Completion(c, o, "NotFound", "")>>)
       ELSE IF ~NeedsRefreshM(S, loc.abs)
       THEN /\ pins' = [pins EXCEPT ![loc.abs] = @ + 1]
            /\ ops' = [ops EXCEPT ![c] = [o EXCEPT !.pc = "consume", !.src = loc.abs, !.off = loc.off]]
            /\ Record(StartStep(c, "Get", k, [hold |-> TRUE]), <<>>)
       ELSE /\ UNCHANGED pins
            /\ ops' = [ops EXCEPT ![c] = [o EXCEPT !.pc = "upgrade"]]
            /\ Record(StartStep(c, "Get", k, [hold |-> TRUE]), <<>>)
    /\ nops' = nops + 1
    /\ UNCHANGED <<S, exts, index, rlock, ncorrupt, maxq, goodPut, touch>>

GetUpgrade(c) ==
    LET o == ops[c]
        step == RelStep("yield:" \o c \o ":flat.Get.upgrade", 1) IN
    /\ o.t = "Get" /\ o.pc = "upgrade"
    /\ LET loc == Lookup(index, S, o.k) IN
       IF loc = NoLoc
       THEN /\ ops' = [ops EXCEPT ![c] = Idle]
            /\ UNCHANGED <<S, exts, pins>>
            /\ Record(step, <<Completion(c, o, "NotFound", "")>>)
       ELSE IF ~NeedsRefreshM(S, loc.abs)
       THEN /\ pins' = [pins EXCEPT ![loc.abs] = @ + 1]
            /\ ops' = [ops EXCEPT ![c] = [o EXCEPT !.pc = "consume", !.src = loc.abs, !.off = loc.off]]
            /\ UNCHANGED <<S, exts>>
            /\ Record(step, <<>>)
       ELSE LET P1 == [pins EXCEPT ![loc.abs] = @ + 1]
                r == FindBlockWithSpace(S, loc.size, P1) IN
            IF r.idx < 0
            THEN LET u == Unpin(P1, [r.s EXCEPT !.err = ""], loc.abs) IN
                 /\ pins' = u[1] /\ S' = u[2]
                 /\ ops' = [ops EXCEPT ![c] = Idle]
                 /\ UNCHANGED exts
                 /\ Record(step, <<Completion(c, o, "Unavailable", "")>>)
            ELSE LET dabs == r.s.released + r.idx
                     doff == r.s.used[r.idx + 1] IN
                 /\ dabs <= MaxAbs
                 /\ S' = [r.s EXCEPT !.used[r.idx + 1] = @ + loc.size]
                 /\ exts' = exts \cup {[abs |-> dabs, off |-> doff, size |-> loc.size, cid |-> o.k, st |-> "w"]}
                 /\ pins' = [P1 EXCEPT ![dabs] = @ + 1]
                 /\ ops' = [ops EXCEPT ![c] = [o EXCEPT !.pc = "rconsume", !.src = loc.abs, !.off = loc.off,
                                                        !.dabs = dabs, !.doff = doff]]
                 /\ Record(step, <<>>)
    /\ UNCHANGED <<index, rlock, nops, ncorrupt, maxq, goodPut, touch>>

\* the consumer reads the returned buffer to the end (no refresh in progress)
GetConsume(c) ==
    LET o == ops[c] IN
    /\ o.t = "Get" /\ o.pc = "consume"
    /\ LET what == ContentAt(exts, o.src, o.off, SizeOf(o.k))
           good == what = o.k
           u == Unpin(pins, IF good THEN S ELSE Quarantine(S, o.src), o.src) IN
       /\ pins' = u[1] /\ S' = u[2]
       /\ maxq' = IF good THEN maxq ELSE Max(maxq, o.src)
       /\ touch' = IF good THEN [touch EXCEPT ![o.k] = o.t0] ELSE touch
       /\ ops' = MarkTouched([ops EXCEPT ![c] = Idle], IF good THEN {o.k} ELSE {})
       /\ Record(RelStep("consume:" \o c, 1),
                 <<Completion(c, o, IF good THEN "Data" ELSE "Integrity", IF good THEN what ELSE "")>>)
    /\ UNCHANGED <<exts, index, rlock, nops, ncorrupt, goodPut>>

\* the consumer reads the buffer while the background task copies and finalizes the refresh
GetRConsume(c) ==
    LET o == ops[c] IN
    /\ o.t = "Get" /\ o.pc = "rconsume"
    /\ LET what == ContentAt(exts, o.src, o.off, SizeOf(o.k))
           good == what = o.k
           ext == CHOOSE e \in exts : e.abs = o.dabs /\ e.off = o.doff /\ e.st = "w"
           S0 == IF good THEN S ELSE Quarantine(S, o.src)
           u1 == Unpin(pins, S0, o.dabs)
           u2 == Unpin(u1[1], u1[2], o.src)
           S2 == u2[2]
           gone == o.dabs < S2.tbr /\ Mut # "no_released_check"
           loc == [abs |-> o.dabs, off |-> o.doff, size |-> SizeOf(o.k)] IN
       /\ exts' = (exts \ {ext}) \cup {[ext EXCEPT !.st = IF good THEN "ok" ELSE "bad"]}
       /\ pins' = u2[1] /\ S' = S2
       /\ index' = IF good /\ ~gone /\ o.dabs >= S2.released THEN IndexPut(index, S2, o.k, loc) ELSE index
       /\ maxq' = IF good THEN maxq ELSE Max(maxq, o.src)
       /\ touch' = IF good /\ ~gone THEN [touch EXCEPT ![o.k] = o.t0] ELSE touch
       /\ ops' = MarkTouched([ops EXCEPT ![c] = Idle], IF good /\ ~gone THEN {o.k} ELSE {})
       /\ Record(RelStep("consume:" \o c, 1),
                 <<Completion(c, o, IF ~good THEN "Integrity" ELSE IF gone THEN "Internal" ELSE "Data",
                              IF good /\ ~gone THEN what ELSE "")>>)
    /\ UNCHANGED <<rlock, nops, ncorrupt, goodPut>>

(***************************************************************************)
(* FindMissing (one or two keys)                                           *)
(***************************************************************************)
SortByRank(ks) == IF Len(ks) = 2 /\ KeyRank(ks[1]) > KeyRank(ks[2]) THEN <<ks[2], ks[1]>> ELSE ks

FmStart(c, ks0) ==
    /\ ops[c] = Idle /\ nops < MaxOps /\ "Fm" \in OpKinds
    /\ LET ks == SortByRank(ks0)
           idxs == 1..Len(ks)
           locs == [i \in idxs |-> Lookup(index, S, ks[i])]
           missing == {ks[i] : i \in {j \in idxs : locs[j] = NoLoc}}
           needI == {i \in idxs : locs[i] # NoLoc /\ NeedsRefreshM(S, locs[i].abs)}
           need == IF Mut = "fm_no_refresh" THEN <<>>
                   ELSE IF needI = {} THEN <<>>
                   ELSE IF Cardinality(needI) = 2 THEN ks
                   ELSE <<ks[CHOOSE i \in needI : TRUE]>>
           o == [Idle EXCEPT !.t = "Fm", !.ks = ks, !.t0 = S.allocs] IN
       IF need = <<>>
       THEN /\ ops' = MarkTouched(ops, {ks[i] : i \in idxs} \ missing)
            /\ touch' = [k \in AllKeys |-> IF k \in {ks[i] : i \in idxs} \ missing THEN S.allocs ELSE touch[k]]
            /\ Record(StartStep(c, "Fm", "", [ks |-> ks]), <<Completion(c, o, "OK", missing)>>)
       ELSE /\ ops' = [ops EXCEPT ![c] = [o EXCEPT !.pc = "fmrefresh", !.mode = need, !.miss = missing]]
            /\ touch' = touch
            /\ Record(StartStep(c, "Fm", "", [ks |-> ks]), <<>>)
    /\ nops' = nops + 1
    /\ UNCHANGED <<S, exts, index, pins, rlock, ncorrupt, maxq, goodPut>>

\* the whole refresh phase: nothing in it can be suspended by the harness
RECURSIVE FmLoop(_, _, _)
FmLoop(st, need, i) ==
    \* st = [S, exts, index, maxq, missing, refreshed, err]
    IF i > Len(need) \/ st.err # "" THEN st
    ELSE LET k == need[i]
             loc == Lookup(st.index, st.S, k) IN
         IF loc = NoLoc THEN FmLoop([st EXCEPT !.missing = @ \cup {k}], need, i + 1)
         ELSE IF ~NeedsRefreshM(st.S, loc.abs) THEN FmLoop(st, need, i + 1)
         ELSE LET P1 == [pins EXCEPT ![loc.abs] = @ + 1]
                  r == FindBlockWithSpace(st.S, loc.size, P1) IN
              IF r.idx < 0
              THEN LET u == Unpin(P1, [r.s EXCEPT !.err = ""], loc.abs) IN
                   [st EXCEPT !.S = u[2], !.err = "Unavailable"]
              ELSE LET dabs == r.s.released + r.idx
                       doff == r.s.used[r.idx + 1]
                       S1 == [r.s EXCEPT !.used[r.idx + 1] = @ + loc.size]
                       what == ContentAt(st.exts, loc.abs, loc.off, loc.size)
                       good == what = k
                       S2 == IF good THEN S1 ELSE Quarantine(S1, loc.abs)
                       u == Unpin(P1, S2, loc.abs)
                       S3 == u[2]
                       gone == dabs < S3.tbr /\ Mut # "no_released_check"
                       nloc == [abs |-> dabs, off |-> doff, size |-> loc.size]
                       E1 == st.exts \cup {[abs |-> dabs, off |-> doff, size |-> loc.size, cid |-> k,
                                            st |-> IF good THEN "ok" ELSE "bad"]} IN
                   IF ~good THEN [st EXCEPT !.S = S3, !.exts = E1, !.maxq = Max(@, loc.abs), !.err = "Integrity"]
                   ELSE IF gone THEN [st EXCEPT !.S = S3, !.exts = E1, !.err = "Internal"]
                   ELSE FmLoop([st EXCEPT !.S = S3, !.exts = E1, !.index = IndexPut(@, S3, k, nloc),
                                          !.refreshed = @ \cup {k}], need, i + 1)

FmRefresh(c) ==
    LET o == ops[c] IN
    /\ o.t = "Fm" /\ o.pc = "fmrefresh" /\ rlock = ""
    /\ LET ks == o.ks
           st0 == [S |-> S, exts |-> exts, index |-> index, maxq |-> maxq,
                   missing |-> o.miss,   \* keys absent in the first scan stay reported as missing
                   refreshed |-> {}, err |-> ""]
           st == FmLoop(st0, o.mode, 1) IN
       /\ st.S.released + NumLive(st.S) - 1 <= MaxAbs
       /\ S' = st.S /\ exts' = st.exts /\ index' = st.index /\ maxq' = st.maxq
       /\ ops' = MarkTouched([ops EXCEPT ![c] = Idle], IF st.err = "" THEN {ks[i] : i \in 1..Len(ks)} \ st.missing ELSE {})
       /\ touch' = IF st.err = ""
                   THEN [k \in AllKeys |-> IF k \in {ks[i] : i \in 1..Len(ks)} \ st.missing THEN o.t0 ELSE touch[k]]
                   ELSE touch
       /\ Record(RelStep("yield:" \o c \o ":flat.FindMissing.refresh", 1),
                 <<Completion(c, o, IF st.err = "" THEN "OK" ELSE st.err, IF st.err = "" THEN st.missing ELSE {})>>)
    /\ UNCHANGED <<pins, rlock, nops, ncorrupt, goodPut>>

(***************************************************************************)
(* GetFromComposite                                                        *)
(***************************************************************************)
\* read a child through its own index entry and complete
CompReadChild(c, o, cloc, step, Sx, release) ==
    LET ck == ChildKey(o.k, o.child)
        what == ContentAt(exts, cloc.abs, cloc.off, cloc.size)
        good == what = ck IN
    /\ S' = IF good THEN Sx ELSE Quarantine(Sx, cloc.abs)
    /\ maxq' = IF good THEN maxq ELSE Max(maxq, cloc.abs)
    /\ ops' = [ops EXCEPT ![c] = Idle]
    /\ rlock' = IF release THEN "" ELSE rlock
    /\ UNCHANGED <<exts, index, pins>>
    /\ Record(step, <<Completion(c, [o EXCEPT !.src = cloc.abs], IF good THEN "Data" ELSE "Integrity", IF good THEN what ELSE "")>>)

CompStart(c, p, i) ==
    /\ ops[c] = Idle /\ nops < MaxOps /\ "Comp" \in OpKinds
    /\ LET ploc == Lookup(index, S, p)
           o == [Idle EXCEPT !.t = "Comp", !.k = p, !.child = i, !.t0 = S.allocs, !.q0 = maxq]
           step == StartStep(c, "Comp", p, [child |-> i]) IN
       IF ploc = NoLoc
       THEN /\ UNCHANGED <<S, exts, index, pins, ops, rlock, maxq>>
            /\ Record(step, <<Completion(c, o, "NotFound", "")>>)
       ELSE LET cloc == Lookup(index, S, ChildKey(p, i)) IN
            IF ~NeedsRefreshM(S, ploc.abs) /\ cloc # NoLoc
            THEN CompReadChild(c, o, cloc, step, S, FALSE)
            ELSE /\ ops' = [ops EXCEPT ![c] = [o EXCEPT !.pc = "cupgrade"]]
                 /\ UNCHANGED <<S, exts, index, pins, rlock, maxq>>
                 /\ Record(step, <<>>)
    /\ nops' = nops + 1
    /\ UNCHANGED <<ncorrupt, goodPut, touch>>

CompUpgrade(c) ==
    LET o == ops[c]
        step == RelStep("yield:" \o c \o ":flat.GetFromComposite.refresh", 1) IN
    /\ o.t = "Comp" /\ o.pc = "cupgrade" /\ rlock = ""
    /\ LET ploc == Lookup(index, S, o.k) IN
       IF ploc = NoLoc
       THEN /\ ops' = [ops EXCEPT ![c] = Idle]
            /\ UNCHANGED <<S, exts, index, pins, rlock, maxq>>
            /\ Record(step, <<Completion(c, o, "NotFound", "")>>)
       ELSE IF NeedsRefreshM(S, ploc.abs)
       THEN LET P1 == [pins EXCEPT ![ploc.abs] = @ + 1]
                r == FindBlockWithSpace(S, ploc.size, P1) IN
            IF r.idx < 0
            THEN LET u == Unpin(P1, [r.s EXCEPT !.err = ""], ploc.abs) IN
                 /\ pins' = u[1] /\ S' = u[2]
                 /\ ops' = [ops EXCEPT ![c] = Idle]
                 /\ UNCHANGED <<exts, index, rlock, maxq>>
                 /\ Record(step, <<Completion(c, o, "Unavailable", "")>>)
            ELSE LET dabs == r.s.released + r.idx
                     doff == r.s.used[r.idx + 1] IN
                 /\ dabs <= MaxAbs
                 /\ S' = [r.s EXCEPT !.used[r.idx + 1] = @ + ploc.size]
                 /\ exts' = exts \cup {[abs |-> dabs, off |-> doff, size |-> ploc.size, cid |-> o.k, st |-> "w"]}
                 /\ pins' = [P1 EXCEPT ![dabs] = @ + 1]
                 /\ ops' = [ops EXCEPT ![c] = [o EXCEPT !.pc = "cslice", !.mode = "refresh", !.src = ploc.abs,
                                                        !.off = ploc.off, !.dabs = dabs, !.doff = doff]]
                 /\ rlock' = c
                 /\ UNCHANGED <<index, maxq>>
                 /\ Record(step, <<>>)
       ELSE LET cloc == Lookup(index, S, ChildKey(o.k, o.child)) IN
            IF cloc # NoLoc
            THEN CompReadChild(c, o, cloc, step, S, FALSE)
            ELSE /\ pins' = [pins EXCEPT ![ploc.abs] = @ + 1]
                 /\ ops' = [ops EXCEPT ![c] = [o EXCEPT !.pc = "cslice", !.mode = "slice", !.src = ploc.abs,
                                                        !.off = ploc.off, !.rel = ploc.abs - S.released]]
                 /\ rlock' = c
                 /\ UNCHANGED <<S, exts, index, maxq>>
                 /\ Record(step, <<>>)
    /\ UNCHANGED <<nops, ncorrupt, goodPut, touch>>

\* register the two halves of the parent stored at [pabs, poff]
PutChildren(ix, Sx, p, pabs, poff) ==
    LET l0 == [abs |-> pabs, off |-> poff + ChildOff(p, 0), size |-> ChildSize(p, 0)]
        l1 == [abs |-> pabs, off |-> poff + ChildOff(p, 1), size |-> ChildSize(p, 1)] IN
    IndexPut(IndexPut(ix, Sx, ChildKey(p, 0), l0), Sx, ChildKey(p, 1), l1)

CompSlice(c) ==
    LET o == ops[c]
        step == RelStep("slice:" \o c, 1) IN
    /\ o.t = "Comp" /\ o.pc = "cslice" /\ rlock = c
    /\ LET what == ContentAt(exts, o.src, o.off, KeySize(o.k))
           good == what = o.k
           S0 == IF good THEN S ELSE Quarantine(S, o.src)
           mq == IF good THEN maxq ELSE Max(maxq, o.src) IN
       IF o.mode = "refresh"
       THEN LET ext == CHOOSE e \in exts : e.abs = o.dabs /\ e.off = o.doff /\ e.st = "w"
                u1 == Unpin(pins, S0, o.dabs)
                u2 == Unpin(u1[1], u1[2], o.src)
                S2 == u2[2]
                gone == o.dabs < S2.tbr /\ Mut # "no_released_check"
                loc == [abs |-> o.dabs, off |-> o.doff, size |-> KeySize(o.k)]
                ix1 == IF good /\ ~gone THEN IndexPut(index, S2, o.k, loc) ELSE index IN
            /\ exts' = (exts \ {ext}) \cup {[ext EXCEPT !.st = IF good THEN "ok" ELSE "bad"]}
            /\ pins' = u2[1] /\ S' = S2 /\ maxq' = mq
            /\ index' = IF good /\ ~gone THEN PutChildren(ix1, S2, o.k, o.dabs, o.doff) ELSE ix1
            /\ Record(step, <<Completion(c, o, IF ~good THEN "Integrity" ELSE IF gone THEN "Internal" ELSE "Data",
                                         IF good /\ ~gone THEN ChildKey(o.k, o.child) ELSE "")>>)
       ELSE LET u == Unpin(pins, S0, o.src)
                S2 == u[2]
                ploc == Lookup(index, S2, o.k)
                \* the code re-resolves the parent under the second lock; the mutant
                \* reuses the relative index obtained before the slicer ran
                pabs == IF Mut = "stale_rel_index" THEN S2.released + o.rel ELSE ploc.abs
                poff == IF Mut = "stale_rel_index" THEN o.off ELSE ploc.off
                have == Mut = "stale_rel_index" \/ ploc # NoLoc IN
            /\ pins' = u[1] /\ S' = S2 /\ maxq' = mq
            /\ exts' = exts
            /\ index' = IF good /\ have /\ pabs < S2.released + NumLive(S2) THEN PutChildren(index, S2, o.k, pabs, poff) ELSE index
            /\ Record(step, <<Completion(c, o, IF good THEN "Data" ELSE "Integrity",
                                         IF good THEN ChildKey(o.k, o.child) ELSE "")>>)
    /\ ops' = [ops EXCEPT ![c] = Idle]
    /\ rlock' = ""
    /\ UNCHANGED <<nops, ncorrupt, goodPut, touch>>

(***************************************************************************)
(* Environment: corruption of the data medium                              *)
(***************************************************************************)
Corrupt(k) ==
    /\ Corruptible /\ ncorrupt < MaxCorrupt
    /\ \E e \in exts : e.cid = k /\ e.st = "ok" /\ e.size > 0
    /\ exts' = {IF e.cid = k /\ e.st = "ok" /\ e.size > 0 THEN [e EXCEPT !.st = "corrupt"] ELSE e : e \in exts}
    /\ ncorrupt' = ncorrupt + 1
    /\ Record([do |-> "corrupt", k |-> k], <<>>)
    /\ UNCHANGED <<S, index, pins, ops, rlock, nops, maxq, goodPut, touch>>

(***************************************************************************)
Init ==
    /\ S = InitStore
    /\ exts = {}
    /\ index = [k \in AllKeys |-> NoLoc]
    /\ pins = [a \in 0..MaxAbs |-> 0]
    /\ ops = [c \in Clients |-> Idle]
    /\ rlock = ""
    /\ nops = 0 /\ ncorrupt = 0 /\ maxq = -1
    /\ goodPut = {}
    /\ touch = [k \in AllKeys |-> -1]
    /\ done = <<>> /\ hist = <<>>

Next ==
    \/ \E c \in Clients :
          \/ \E k \in Keys, bad \in {"", "content", "short", "error"} : PutStart(c, k, bad)
          \/ PutFinish(c)
          \/ \E k \in Keys : GetStart(c, k)
          \/ GetUpgrade(c) \/ GetConsume(c) \/ GetRConsume(c)
          \/ \E k \in Keys : FmStart(c, <<k>>)
          \/ \E k1, k2 \in Keys : k1 # k2 /\ KeyRank(k1) < KeyRank(k2) /\ FmStart(c, <<k1, k2>>)
          \/ FmRefresh(c)
          \/ \E p \in Parents, i \in {0, 1} : CompStart(c, p, i)
          \/ CompUpgrade(c) \/ CompSlice(c)
    \/ \E k \in Keys : Corrupt(k)

Spec == Init /\ [][Next]_vars

\* extents of blocks that were popped and are no longer pinned can never be read again
LiveExts == {e \in exts : e.abs >= S.released \/ e.abs \in S.zomb}
View == <<S, LiveExts, index, pins, ops, rlock, nops, ncorrupt, maxq, goodPut, touch>>

(***************************************************************************)
(* Properties                                                              *)
(***************************************************************************)
Range(s) == {s[i] : i \in 1..Len(s)}

TypeOK ==
    /\ S.tbr >= S.released
    /\ S.oldN + S.curN + S.newN = NumLive(S)
    /\ \A a \in 0..MaxAbs : pins[a] >= 0
    /\ S.free >= -1

\* C01: a read yields exactly the content of its key (whose valid upload was
\* started), or NotFound, or a non-integrity error; integrity errors only on
\* a corrupted medium; failed uploads are never visible.
C01Reads ==
    \A d \in Range(done) :
        /\ (d.res = "Data" /\ d.op = "Get") => (d.what = d.k /\ d.k \in goodPut)
        /\ (d.res = "Data" /\ d.op = "Comp") => (d.what \in {ChildKey(d.k, 0), ChildKey(d.k, 1)} /\ d.k \in goodPut)
        /\ d.res = "Integrity" => ncorrupt > 0
        /\ (d.op = "Fm" /\ d.res = "OK") => \A k \in Range(d.ks) \ d.what : k \in goodPut
\* C08 (and C03): an acknowledged upload is readable at the moment it is acknowledged
AckReadable ==
    \A d \in Range(done) : (d.op = "Put" /\ d.res = "OK") => Lookup(index, S, d.k) # NoLoc
\* C05, observably: a key reported absent by a call that was started after a successful touch
\* of it had ended, fewer than old+1 allocations after that touch started
C05Step ==
    \A d \in Range(done') :
        (ncorrupt' = 0) =>
            /\ (d.op = "Get" /\ d.res = "NotFound" /\ d.k \notin d.pre) =>
                   (touch[d.k] < 0 \/ S'.allocs - touch[d.k] >= DesOld + 1)
            /\ (d.op = "Fm" /\ d.res = "OK") =>
                   \A k \in d.what \ d.pre : (touch[k] < 0 \/ S'.allocs - touch[k] >= DesOld + 1)
\* C08, observably: an operation invoked after corruption was detected in block q0 is not
\* served from a block <= q0
C08Step == \A d \in Range(done') : d.res = "Data" => d.abs > d.q0
PropC05 == [][C05Step]_vars
PropC08 == [][C08Step]_vars
PropC01 == [][C01Reads']_vars
PropAck == [][AckReadable']_vars
\* no index entry of a key ever resolves to anything but that key's content
\* (on an uncorrupted medium), and only for keys with a valid upload
C01Index ==
    ncorrupt = 0 =>
        \A k \in AllKeys :
            LET loc == Lookup(index, S, k) IN
            loc # NoLoc => /\ ContentAt(exts, loc.abs, loc.off, loc.size) = k
                           /\ (k \in Keys => k \in goodPut)

\* C04: regions are conserved; nothing stays pinned when nothing is in flight
C04Regions ==
    S.free >= 0 => S.free + NumLive(S) + Cardinality(S.zomb) = DesOld + DesCur + DesNew + Spare
C04Quiescent ==
    (\A c \in Clients : ops[c] = Idle) => (S.zomb = {} /\ \A a \in 0..MaxAbs : pins[a] = 0)
C04PinnedNotFree ==
    \A a \in 0..MaxAbs : pins[a] > 0 => (a \in S.zomb \/ (a >= S.released /\ a < S.released + NumLive(S)))

\* C05: a key touched successfully stays present until old+1 more blocks were allocated
C05Retention ==
    (ncorrupt = 0) =>
        \A k \in AllKeys :
            touch[k] >= 0 => (Lookup(index, S, k) # NoLoc \/ S.allocs - touch[k] >= DesOld + 1)

\* C08: once corruption was detected in block q, nothing in blocks <= q resolves
C08Quarantine ==
    maxq >= 0 => /\ S.tbr >= maxq + 1
                 /\ \A k \in AllKeys : Lookup(index, S, k) # NoLoc => index[k].abs > maxq

EmitScript == (nops = MaxOps /\ \A c \in Clients : ops[c] = Idle) => PrintT(<<"SCRIPT", ToJson(hist)>>)
=============================================================================
