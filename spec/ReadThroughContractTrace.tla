---------------------- MODULE ReadThroughContractTrace ----------------------
(* C17 -- contract monitor: read-through composites, replicator decorators, existence caches. *)
EXTENDS ReadThroughDefs
Trace == ndJsonDeserialize("trace.ndjson")
VARIABLE l
Ev == Trace[l]
Conv(o) == [kind |-> o.kind, op |-> o.op, objs |-> ToSet(o.objs), repl |-> o.repl, f0 |-> ToSet(o.f0), s0 |-> ToSet(o.s0),
            f1 |-> ToSet(o.f1), s1 |-> ToSet(o.s1), failed |-> ToSet(o.failed), res |-> o.res, code |-> o.code, missing |-> ToSet(o.missing)]

\* replicator decorators: concurrent callers over a recording base replicator
\* o: [dec, limit, maxConcurrent, maxConcurrentSame, callers: seq of [objs, res, okAfterAsk], panic, hang]
ReplicatorOK(o) ==
    /\ o.panic = "" /\ ~o.hang
    /\ o.dec \in {"dedup", "dedup+limit"} => o.maxConcurrentSame <= 1          \* never two concurrent copies of the same object
    /\ o.dec \in {"limit", "queued", "dedup+limit"} => o.maxConcurrent <= o.limit  \* never more copies at a time than configured
    \* success is reported only if every object was found in, or copied to, the sink after the caller asked
    \* (the queued replicator answers from its own existence cache, which has its own clause)
    \* (a caller that joins a replication already in flight is answered by that replication: what the monitor demands
    \*  is a confirmation after the start of a request that was still running when the caller asked; the stricter
    \*  "after the caller itself asked" fails for a waiter that arrives between the leader's check of the sink and
    \*  the leader's return - a known finding, reported by the Python driver from the confirmedAfterAsk field)
    /\ o.dec # "queued" => \A i \in 1..Len(o.callers) : o.callers[i].res = "OK" => o.callers[i].confirmedWithinOverlap

\* existence cache: o: [duration, events: seq], each event [op |-> "fm", t, objs, backendPresent (what the back end holds now),
\*                       reportedMissing, askedBackend] ; the monitor tracks when the back end last reported each object present
RECURSIVE ExistenceWalk(_, _, _, _)
ExistenceWalk(evs, i, lastSeen, dur) ==
    IF i > Len(evs) THEN TRUE
    ELSE LET e == evs[i]
             objs == ToSet(e.objs)
             miss == ToSet(e.reportedMissing)
             asked == ToSet(e.askedBackend)
             hidden == objs \ (miss \cup asked)    \* answered "present" from the cache
             seenNow == asked \ miss               \* the back end just reported these present
             ls2 == [x \in DOMAIN lastSeen \cup seenNow |-> IF x \in seenNow THEN e.t ELSE lastSeen[x]] IN
         /\ \A x \in hidden : x \in DOMAIN lastSeen /\ e.t - lastSeen[x] <= dur
         \* whatever the back end was asked about is answered with the back end's own answer
         /\ \A x \in asked : (x \in miss) <=> (x \notin ToSet(e.backendPresent))
         /\ miss \subseteq objs
         /\ ExistenceWalk(evs, i + 1, ls2, dur)
ExistenceOK(o) == o.panic = "" /\ ExistenceWalk(o.events, 1, <<>>, o.duration)

TInit == l = 1
TNext == /\ l <= Len(Trace) /\ l' = l + 1
         /\ \/ Ev.ev = "ReadThrough" /\ Ev.panic = "" /\ ReadThroughOK(Conv(Ev))
            \/ Ev.ev = "Replicator" /\ ReplicatorOK(Ev)
            \/ Ev.ev = "Existence" /\ ExistenceOK(Ev)
TSpec == TInit /\ [][TNext]_l
Accepted == TLCGet("stats").diameter - 1 = Len(Trace)
=============================================================================
