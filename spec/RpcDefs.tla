------------------------------- MODULE RpcDefs -------------------------------
(***************************************************************************)
(* C14 -- contract of the ByteStream / ContentAddressableStorage services  *)
(* and of a client and server connected back to back, over observables.    *)
(*                                                                         *)
(* Upload payloads are sequences of UNITS numbered 1..n: for identity      *)
(* uploads a unit is one byte of the object, for compressed uploads it is  *)
(* one n-th of the compressed stream of the object (payload "object") or   *)
(* of some other object (payload "other"); unit 99 is a unit that belongs  *)
(* to no valid stream.  Offsets are in units here and in bytes on the wire.*)
(***************************************************************************)
EXTENDS Integers, Sequences, FiniteSets, TLC, Json
ToSet(q) == {q[i] : i \in 1..Len(q)}
RECURSIVE Flat(_)
Flat(qq) == IF qq = <<>> THEN <<>> ELSE Head(qq) \o Flat(Tail(qq))
RECURSIVE SumLen(_)
SumLen(ms) == IF ms = <<>> THEN 0 ELSE Len(Head(ms).data) + SumLen(Tail(ms))
Iota(n) == [i \in 1..n |-> i]
IsPrefix(a, b) == Len(a) <= Len(b) /\ \A i \in 1..Len(a) : a[i] = b[i]

\* c: [comp, n, payload, msgs: seq of [off, data, fin], ended: "close" | "abort"]
Contiguous(ms) == \A i \in 1..Len(ms) : ms[i].off = SumLen(SubSeq(ms, 1, i - 1))
FinishedOnce(ms) == Len(ms) > 0 /\ ms[Len(ms)].fin /\ \A i \in 1..(Len(ms) - 1) : ~ms[i].fin
\* (how the stream ends after a complete upload does not matter: the server may or may not wait for the half-close)
\* o.payloadMatches: the concatenated data of all messages (for compressed uploads: what a decoder yields from it,
\* whether or not it then complains about bytes following the data) is the object; on real executions the harness
\* computes it from the bytes it sent (with its own decoder), in the model it follows from the units
UnitsMatch(c) == c.payload = "object" /\ Flat([i \in 1..Len(c.msgs) |-> c.msgs[i].data]) = Iota(c.n)
ValidUpload(c, o) == /\ o.payloadMatches
                     /\ Contiguous(c.msgs)                    \* contiguous offsets starting at zero
                     /\ FinishedOnce(c.msgs)                  \* finished with finish_write (and nothing after it)
\* o: [res, stored, storedIntact, payloadMatches, panic]
WriteOK(c, o) ==
    /\ o.panic = ""
    /\ o.stored => (ValidUpload(c, o) /\ o.storedIntact)      \* in every other case nothing becomes visible ...
    /\ o.res = "OK" => o.stored                            \* ... and the RPC fails
    /\ o.res \in {"OK", "ERR"}

\* c: [comp, n, k, limit, backend]; o: [res, code, data (seq of byte numbers 1..n; 0 = a byte that is not the object's), panic]
ReadOK(c, o) ==
    LET inside == 0 <= c.k /\ c.k <= c.n
        suffix == IF inside THEN SubSeq(Iota(c.n), c.k + 1, c.n) ELSE <<>> IN
    /\ o.panic = ""
    /\ IsPrefix(o.data, suffix)                            \* never bytes from elsewhere
    /\ (c.backend = "ok" /\ inside /\ c.limit = 0) => (o.res = "OK" /\ o.data = suffix)   \* exactly the bytes from k to the end
    /\ (c.backend = "ok" /\ ~inside) => (o.res = "ERR" \/ o.data = <<>>)
    /\ c.backend = "absent" => (o.res = "ERR" /\ o.data = <<>> /\ (c.limit = 0 /\ inside => o.code = "NotFound"))
    /\ c.backend \in {"failing", "corrupt"} => o.res = "ERR"
    /\ o.res \in {"OK", "ERR"}

\* Batch calls.  c: [op, entries: seq of [obj, kind], limitExceeded]; o: [res, statuses: seq of code, datas: seq of "" | "match" | "foreign",
\*   stored: seq of BOOLEAN (after the call), storedIntact: seq of BOOLEAN, before: seq of BOOLEAN, panic]
\*   update kinds: "match" | "mismatch" | "baddigest" | "backendfail";  read kinds: "present" | "absent" | "corrupt" | "backendfail"
BatchOK(c, o) ==
    /\ o.panic = ""
    /\ IF o.res = "ERR" THEN \A i \in 1..Len(c.entries) : o.stored[i] = o.before[i]     \* a rejected call changes nothing
       ELSE /\ Len(o.statuses) = Len(c.entries)                                        \* a per-object status
            /\ \A i \in 1..Len(c.entries) :
                 LET e == c.entries[i] IN
                 IF c.op = "update"
                 THEN /\ (o.stored[i] /\ ~o.before[i]) => (e.kind = "match" \/ \E j \in 1..Len(c.entries) : c.entries[j].obj = e.obj /\ c.entries[j].kind = "match")
                      /\ o.stored[i] => o.storedIntact[i]                               \* never store data that does not match its digest
                      /\ o.statuses[i] = "OK" => o.stored[i]
                      /\ e.kind = "match" => o.statuses[i] = "OK"
                      /\ e.kind \in {"mismatch", "baddigest", "backendfail"} => o.statuses[i] # "OK"
                 ELSE /\ o.datas[i] # "foreign"                                        \* never deliver data that does not match its digest
                      /\ o.statuses[i] = "OK" <=> e.kind = "present"
                      /\ o.statuses[i] = "OK" => o.datas[i] = "match"
                      /\ o.statuses[i] # "OK" => o.datas[i] = ""
                      /\ e.kind = "absent" => o.statuses[i] = "NotFound"
    /\ (c.op = "read" /\ c.limitExceeded) => o.res = "ERR"

\* FindMissingBlobs and back-to-back transparency.
\* o: [op ("Get" | "Put" | "PutBad" | "Fm"), objs (set), b0, b1 (back end before / after), failing, res, code, missing, dataOK]
TransparentOK(o) ==
    /\ o.panic = ""
    /\ o.b0 \subseteq o.b1
    /\ o.b1 \ o.b0 \subseteq (IF o.op = "Put" /\ ~o.failing THEN o.objs ELSE {})
    /\ IF o.failing THEN o.res = "ERR" /\ o.code # "NotFound"
       ELSE CASE o.op = "Get" -> LET d == CHOOSE d \in o.objs : TRUE IN
                                 IF d \in o.b0 THEN o.res = "Data" /\ o.dataOK ELSE o.res = "ERR" /\ o.code = "NotFound"
              [] o.op = "Put" -> o.res = "OK" /\ o.objs \subseteq o.b1
              [] o.op = "PutBad" -> o.res = "ERR" /\ o.b1 = o.b0              \* contents that do not match the digest are refused
              [] o.op = "Fm" -> o.res = "OK" /\ o.missing = o.objs \ o.b0      \* exactly the subset the back end reports missing
=============================================================================
